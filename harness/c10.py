"""C10 — variogram fitting recovers generating parameters and honours constraints.

stages: theorems props/C10.v (FitBook: the bookkeeping of fit_variogram for EVERY optimiser trace) ; extracted FitBook run
at floats on the evaluation points / popt RECORDED from scipy's curve_fit inside this process (gstools.covmodel.fit.curve_fit
is wrapped here, no repo change) and compared with the implementation's final state, returned dict, bounds, p0 and error
kinds ; direct probes of the property statement on the implementation (fixed/deselected untouched, inside bounds,
dict = state, sill exact, recovery of generating parameters from exact synthetic variograms)."""
import copy
import json
import math

import numpy as np

import common as C

CLASSES = ["Gaussian", "Exponential", "Matern", "Stable", "Rational", "Cubic", "Linear", "Circular", "Spherical",
           "HyperSpherical", "SuperSpherical", "JBessel", "Integral", "TPLGaussian", "TPLExponential", "TPLStable", "TPLSimple"]
ERR_NAMES = {0: "ok", 1: "unknown-parameter", 2: "sill-out-of-bounds", 3: "var>sill", 4: "nugget>sill", 5: "arg-out-of-bounds",
             6: "anis<=0", 7: "latlon-directional", 8: "other", 9: "UNEXPECTED-EXCEPTION"}
SHAPE_OK = ("Stable", "Rational", "Matern", "Integral", "SuperSpherical")
ULP_STATE = 2      # model and implementation execute the same IEEE operations (+,-,/,* and the shared var_factor)
ULP_VARFAC = 4     # var = (v / f) * f : two roundings; dict['var'] (=popt) vs model.var for models with var_factor != 1


def err_code(e):
    m = str(e)
    if "unknown parameter in selection" in m:
        return 1
    if "sill out of bounds" in m:
        return 2
    if "variance deselected" in m:
        return 3
    if "nugget deselected" in m:
        return 4
    if "needs to be" in m and "anisotropy" not in m:
        return 5
    if "anisotropy-ratios" in m:
        return 6
    if "lat-lon models don't support" in m:
        return 7
    return 8


# ------------------------------------------------------------------ cases
def opt_truth(rng, cls, dim):
    if cls == "Matern":
        return dict(nu=float(rng.uniform(0.4, 3.0)))
    if cls == "Integral":
        return dict(nu=float(rng.uniform(0.6, 3.0)))
    if cls in ("Stable",):
        return dict(alpha=float(rng.uniform(0.6, 1.9)))
    if cls == "Rational":
        return dict(alpha=float(rng.uniform(0.6, 4.0)))
    if cls == "HyperSpherical":
        return dict(nu=float(rng.uniform(dim / 2 - 0.4, dim / 2 + 2)))
    if cls == "SuperSpherical":
        return dict(nu=float(rng.uniform(dim / 2 - 0.4, dim / 2 + 2)))
    if cls == "JBessel":
        return dict(nu=float(rng.uniform(dim / 2 - 0.9, dim / 2 + 2)))
    if cls in ("TPLGaussian", "TPLExponential"):
        return dict(hurst=float(rng.uniform(0.15, 0.85)), len_low=float(rng.choice([0.0, rng.uniform(0.05, 2.0)])))
    if cls == "TPLStable":
        return dict(hurst=float(rng.uniform(0.15, 0.85)), alpha=float(rng.uniform(0.6, 1.9)),
                    len_low=float(rng.choice([0.0, rng.uniform(0.05, 2.0)])))
    if cls == "TPLSimple":
        return dict(nu=float(rng.uniform(dim / 2 + 0.6, dim / 2 + 3)))
    return {}


def build_model(case, which="start"):
    import gstools as gs
    kw = dict(case[which])
    cls = getattr(gs, case["cls"])
    if case["latlon"]:
        m = cls(latlon=True, geo_scale=case["geo_scale"], **kw)
    else:
        m = cls(dim=case["dim"], **kw)
    if which == "start" and case.get("bounds"):
        m.set_arg_bounds(check_args=False, **{k: list(v) for k, v in case["bounds"].items()})
    return m


def make_weights(w, n):
    if w is None or isinstance(w, str) and w == "inv":
        return w
    if isinstance(w, str) and w == "logistic":
        from gstools.covmodel.fit import logistic_weights
        return logistic_weights()
    return np.asarray(w, dtype=float)


def fit_kwargs(case):
    kw = {}
    k = case["kwargs"]
    for name, v in k["select"]:
        kw[name] = v
    for name in ("sill", "anis", "method", "loss", "max_eval"):
        if name in k:
            kw[name] = k[name]
    if isinstance(kw.get("anis"), list):
        kw["anis"] = list(kw["anis"])
    if "init_guess" in k:
        kw["init_guess"] = copy.deepcopy(k["init_guess"])
    if k.get("weights") is not None:
        kw["weights"] = make_weights(k["weights"], len(case["x"]))
    if k.get("tight"):
        kw["curve_fit_kwargs"] = dict(ftol=1e-15, xtol=1e-15, gtol=1e-15)
    if k.get("cfkw") is not None:
        kw["curve_fit_kwargs"] = dict(k["cfkw"])
    return kw


def gen_case(rng, tier, force=None):
    force = force or {}
    cls = force.get("cls") or str(rng.choice(CLASSES))
    latlon = bool(force.get("latlon", rng.random() < 0.15))
    dim = int(force.get("dim", rng.integers(1, 4)))
    if latlon:
        dim = 3
    geo_scale = float(rng.choice([1.0, 6371.0])) if latlon else 1.0
    L = float(rng.uniform(1.0, 10.0))
    if latlon:
        L = float(rng.uniform(0.08, 0.5)) * geo_scale
    truth = dict(var=float(rng.uniform(0.3, 3.0)), len_scale=L, nugget=float(rng.choice([0.0, rng.uniform(0.02, 0.5)])))
    truth.update(opt_truth(rng, cls, dim))
    isdir = bool(force.get("isdir", (not latlon) and dim > 1 and rng.random() < 0.45))
    if isdir:
        truth["anis"] = [float(a) for a in rng.uniform(0.3, 1.0, dim - 1)]
    nb = int(rng.integers(6, 25))
    x = np.linspace(L * rng.uniform(0.03, 0.2), L * rng.uniform(1.5, 4.0), nb)
    if latlon:
        x = np.minimum(x, 0.9 * math.pi * geo_scale)
    case = dict(cls=cls, dim=dim, latlon=latlon, geo_scale=geo_scale, truth=truth, isdir=isdir)
    tm = build_model(case, "truth")
    if isdir:
        y = np.array([tm.vario_axis(x, axis=i) for i in range(dim)])
    elif latlon:
        y = tm.vario_yadrenko(x)
    else:
        y = tm.variogram(x)
    noise = float(rng.choice([0.0, 0.02, 0.1]))
    if noise:
        y = y * (1.0 + noise * rng.uniform(-1, 1, size=y.shape))
    # start state of the model that is fitted
    start = dict(var=float(rng.uniform(0.2, 4.0)), len_scale=float(L * rng.uniform(0.3, 3.0)),
                 nugget=float(rng.choice([0.0, rng.uniform(0.01, 0.6)])))
    so = opt_truth(rng, cls, dim)
    start.update(so)
    if dim > 1 and not latlon and rng.random() < 0.6:
        start["anis"] = [float(a) for a in rng.uniform(0.2, 1.5, dim - 1)]
    bounds = {}
    if rng.random() < 0.35:
        if rng.random() < 0.6:
            bounds["var"] = [float(rng.choice([0.0, 0.05])), float(rng.choice([6.0, 50.0])), str(rng.choice(["oo", "cc", "oc", "co"]))]
        if rng.random() < 0.5:
            bounds["len_scale"] = [float(L * 0.01), float(L * 100), str(rng.choice(["oo", "cc"]))]
        if rng.random() < 0.6:
            bounds["nugget"] = [0.0, float(rng.choice([0.8, 5.0])), str(rng.choice(["cc", "co"]))]
        if rng.random() < 0.4 and dim > 1 and not latlon:
            bounds["anis"] = [0.05, 5.0, str(rng.choice(["oo", "cc"]))]
    case["start"] = start
    case["bounds"] = bounds
    case["x"] = [C.fhex(v) for v in x]
    case["y"] = [C.fhex(v) for v in np.asarray(y).ravel()]
    case["yshape"] = list(np.shape(y))
    # ---- keyword arguments
    names = ["var", "len_scale", "nugget"] + list(so.keys())
    sel = []
    for nme in names:
        r = rng.random()
        if r < 0.45:
            continue
        if r < 0.52:
            sel.append([nme, True])
        elif r < 0.76:
            sel.append([nme, False])
        else:
            base = truth[nme] if rng.random() < 0.7 else start[nme]
            val = float(base * rng.uniform(0.8, 1.25)) if base != 0 else float(rng.choice([0.0, 0.1]))
            if nme == "nu" and cls in ("HyperSpherical", "SuperSpherical", "JBessel", "TPLSimple"):
                val = float(base + rng.uniform(0, 0.5))
            if nme == "hurst":
                val = float(min(val, 0.95))
            if nme == "alpha" and cls in ("Stable", "TPLStable"):
                val = float(min(val, 2.0))
            sel.append([nme, val])
    if rng.random() < 0.03:
        sel.append(["wrong_name", False])
    order = rng.permutation(len(sel))
    sel = [sel[i] for i in order]
    kw = dict(select=sel)
    r = rng.random()
    tsill = truth["var"] + truth["nugget"]
    if r < 0.35:
        pass
    elif r < 0.4:
        kw["sill"] = True
    elif r < 0.6:
        kw["sill"] = False
    else:
        kw["sill"] = float(tsill * rng.choice([1.0, 1.0, rng.uniform(0.7, 1.5), rng.uniform(0.05, 0.5), 100.0]))
    r = rng.random()
    if r < 0.5:
        pass
    elif r < 0.7:
        kw["anis"] = False
    elif r < 0.8:
        kw["anis"] = float(rng.uniform(0.3, 1.2))
    else:
        kw["anis"] = [float(a) for a in rng.uniform(0.3, 1.2, max(1, dim - 1))]
    r = rng.random()
    if r < 0.4:
        pass
    elif r < 0.65:
        kw["init_guess"] = "current"
    else:
        ig = {}
        for nme in names:
            if rng.random() < 0.4:
                ig[nme] = float(truth[nme] * rng.uniform(0.9, 1.1)) if truth[nme] != 0 else 0.05
        if rng.random() < 0.5:
            ig["default"] = str(rng.choice(["default", "current"]))
        if dim > 1 and rng.random() < 0.4:
            ig["anis"] = float(rng.uniform(0.4, 1.0)) if rng.random() < 0.5 else [float(a) for a in rng.uniform(0.4, 1.0, dim - 1)]
        kw["init_guess"] = ig
    r = rng.random()
    if r < 0.5:
        kw["weights"] = None
    elif r < 0.65:
        kw["weights"] = "inv"
    elif r < 0.8:
        kw["weights"] = "logistic"
    else:
        kw["weights"] = [float(v) for v in rng.uniform(0.5, 5.0, nb)]
    kw["method"] = str(rng.choice(["trf", "trf", "dogbox"]))
    kw["loss"] = str(rng.choice(["soft_l1", "linear", "huber", "cauchy", "arctan"]))
    if rng.random() < 0.2:
        kw["max_eval"] = int(rng.choice([5, 40]))
    r = rng.random()
    if r < 0.12:
        kw["cfkw"] = {"ftol": 1e-10}
    elif r < 0.2:
        kw["cfkw"] = {"xtol": 1e-10, "gtol": 1e-10}
    elif r < 0.24:
        kw["cfkw"] = {}
    case["kwargs"] = kw
    case["entry"] = "function" if rng.random() < 0.4 else "method"
    return case


def case_xy(case):
    x = np.array([float.fromhex(v) if v not in ("nan", "inf", "-inf") else float(v) for v in case["x"]])
    y = np.array([float.fromhex(v) if v not in ("nan", "inf", "-inf") else float(v) for v in case["y"]]).reshape(case["yshape"])
    return x, y


def as_layout(a, kind):
    """the same numbers in another dtype / container / memory layout (ints only for integral values)"""
    a = np.asarray(a, dtype=float)
    if kind in (None, "float64"):
        return a
    if kind in ("int64", "int32"):
        return a.astype(kind)
    if kind == "float32":
        return a.astype(np.float32)
    if kind == "list":
        return a.tolist()
    if kind == "list-int":
        return a.astype(int).tolist()
    if kind == "noncontig":          # every second element of a larger buffer / a transposed buffer
        if a.ndim == 1:
            buf = np.zeros(2 * a.size)
            buf[::2] = a
            return buf[::2]
        return np.asfortranarray(a)
    if kind == "f32-noncontig":
        buf = np.zeros((2,) + a.shape, dtype=np.float32)
        buf[0] = a
        return np.moveaxis(buf, 0, -1)[..., 0]
    raise ValueError(kind)


def case_data(case):
    x, y = case_xy(case)
    return as_layout(x, case.get("xdtype")), as_layout(y, case.get("ydtype"))


# ------------------------------------------------------------------ implementation run (curve_fit wrapped in-process)
class NothingToFit(Exception):
    pass


def snap(m):
    return dict(varraw=float(m._var), var=float(m.var), len=float(m.len_scale), nug=float(m.nugget),
                opt=[float(getattr(m, o)) for o in m.opt_arg], anis=[float(a) for a in np.atleast_1d(m.anis)])


def bounds_of(m):
    """rows var, len_scale, nugget, anis, opt args (in opt_arg order): lo, hi, lo closed, hi closed"""
    ab = m.arg_bounds
    rows = []
    for nme in ["var", "len_scale", "nugget", "anis"] + list(m.opt_arg):
        b = list(ab[nme])
        t = b[2] if len(b) == 3 else "cc"
        rows.append((float(b[0]), float(b[1]), int(t[0] == "c"), int(t[1] == "c")))
    return rows


def run_impl(case, model=None, shared_cf=None):
    import gstools.covmodel.fit as F
    m = build_model(case, "start") if model is None else model
    x, y = case_data(case) if case.get("entry") != "krige" or "cond_pos" not in case else (None, None)
    before = snap(m)
    pre_copy = copy.deepcopy(m)
    bnds = bounds_of(m)
    rec = dict(called=False, evs=[], states=[], vars=[], curves=[])
    orig = F.curve_fit

    def wrapped(**kwargs):
        f = kwargs["f"]

        def f2(xx, *args):
            rec["evs"].append([float(a) for a in args])
            out = f(xx, *args)
            rec["curves"].append(np.array(out, dtype=float))
            # the model object after THIS evaluation (the curve values the optimiser sees are computed from it)
            rec["states"].append([float(m._var), float(m.len_scale), float(m.nugget)] + [float(getattr(m, o)) for o in m.opt_arg]
                                 + [float(a) for a in np.atleast_1d(m.anis)])
            rec["vars"].append(float(m.var))
            return out
        kw2 = dict(kwargs)
        kw2["f"] = f2
        rec.update(called=True, p0=[float(v) for v in kwargs["p0"]], lo=[float(v) for v in kwargs["bounds"][0]],
                   hi=[float(v) for v in kwargs["bounds"][1]], mean_x=float(np.mean(kwargs["xdata"])),
                   mean_y=float(np.mean(kwargs["ydata"])),
                   sigma=(None if kwargs.get("sigma") is None else [float(v) for v in np.asarray(kwargs["sigma"]).reshape(-1)]),
                   absolute_sigma=kwargs.get("absolute_sigma"), keys=sorted(kwargs.keys()),
                   xdata=[float(v) for v in np.asarray(kwargs["xdata"]).reshape(-1)],
                   ydata=[float(v) for v in np.asarray(kwargs["ydata"]).reshape(-1)],
                   passed={kk: kwargs[kk] for kk in ("ftol", "xtol", "gtol", "loss", "method", "max_nfev") if kk in kwargs})
        if len(rec["p0"]) == 0:
            # every parameter is fixed / deselected / determined by the sill: nothing is handed to the optimiser
            # (scipy fails with a TypeError on the empty start vector); outside the property's quantifier
            raise NothingToFit()
        popt, pcov = orig(**kw2)
        rec["popt"] = [float(v) for v in popt]
        return popt, pcov

    F.curve_fit = wrapped
    out = dict(model=m, before=before, bounds=bnds, rec=rec, err=0, msg="", pre_copy=pre_copy)
    call_kw = fit_kwargs(case)
    if shared_cf is not None and "curve_fit_kwargs" in call_kw:
        call_kw["curve_fit_kwargs"] = shared_cf       # ONE dict object of the caller, reused over several calls
    user_cf = call_kw.get("curve_fit_kwargs")
    user_cf_before = None if user_cf is None else dict(user_cf)
    import gstools.covmodel.base as B
    origB = B.fit_variogram
    try:
        if case.get("entry") == "krige" and "cond_pos" in case:
            # the pipeline Krige(model, cond_pos, cond_val, fit_variogram=True): vario_estimate -> model.fit_variogram(x, y, sill=var(field));
            # the arguments it hands to the fit are captured so that the call can be compared like a direct one
            import gstools as gs
            cap = {}

            def capB(model, x_data, y_data, **kwb):
                cap.update(x=np.array(x_data, float), y=np.array(y_data, float), kw=dict(kwb))
                res = origB(model, x_data, y_data, **kwb)
                cap["ret"] = res
                return res
            B.fit_variogram = capB
            fh = lambda v: float.fromhex(v)   # noqa
            pos = np.array([fh(v) for v in case["cond_pos"]]).reshape(m.dim, -1)
            val = np.array([fh(v) for v in case["cond_val"]])
            try:
                gs.krige.Ordinary(m, pos, val, fit_variogram=True)
            finally:
                if "x" in cap:
                    case["x"] = [C.fhex(v) for v in cap["x"].ravel()]
                    case["y"] = [C.fhex(v) for v in cap["y"].ravel()]
                    case["yshape"] = list(cap["y"].shape)
                    extra = {kk: vv for kk, vv in cap["kw"].items() if kk not in ("sill", "anis", "init_guess", "weights", "method",
                                                                                  "loss", "max_eval", "return_r2", "curve_fit_kwargs")}
                    case["kwargs"] = dict(select=[[kk, (vv if isinstance(vv, bool) else float(vv))] for kk, vv in extra.items()],
                                          sill=float(cap["kw"]["sill"]), **{kk: cap["kw"][kk] for kk in ("method", "loss") if kk in cap["kw"]})
            if "ret" in cap:
                out["dict"], out["pcov"] = cap["ret"][0], cap["ret"][1]
        elif case.get("entry") == "function":
            ret = F.fit_variogram(m, x, y, return_r2=True, **call_kw)
            out["dict"], out["pcov"], out["r2"] = ret
        else:
            ret = m.fit_variogram(x, y, return_r2=True, **call_kw)
            out["dict"], out["pcov"], out["r2"] = ret
    except ValueError as e:
        out["err"] = err_code(e)
        out["msg"] = str(e)[:200]
    except NothingToFit:
        out["err"] = 8
        out["msg"] = "nothing to fit"
    except RuntimeError as e:       # curve_fit: optimal parameters not found (max_nfev) -- documented scipy behaviour
        out["err"] = 8
        out["msg"] = "RuntimeError: " + str(e)[:150]
    except Exception as e:  # noqa -- anything else is not a documented way for fit_variogram to end
        import traceback
        out["err"] = 9
        out["msg"] = "%s: %s | %s" % (type(e).__name__, str(e)[:150], " <- ".join(
            "%s:%d" % (fr.name, fr.lineno) for fr in traceback.extract_tb(e.__traceback__)[-3:]))
    finally:
        F.curve_fit = orig
        B.fit_variogram = origB
    out["after"] = snap(m)
    if user_cf is not None:
        out["cfkw_changed"] = sorted(kk for kk in set(user_cf) | set(user_cf_before)
                                     if kk not in user_cf or kk not in user_cf_before or user_cf[kk] is not user_cf_before[kk])
    return out


def summarise(impl):
    """JSON-able result of one call (used to compare a call in a history with the same call in a pristine process)"""
    d = impl.get("dict")
    rec = impl["rec"]
    return dict(err=impl["err"], msg=impl["msg"][:160],
                dict=None if d is None else {k: [float(a) for a in np.atleast_1d(v)] for k, v in d.items()},
                after={k: ([float(a) for a in v] if isinstance(v, list) else float(v)) for k, v in impl["after"].items()},
                r2=None if "r2" not in impl else float(impl["r2"]),
                pcov=None if "pcov" not in impl else [float(a) for a in np.asarray(impl["pcov"]).reshape(-1)],
                called=rec["called"], p0=rec.get("p0"), lo=rec.get("lo"), hi=rec.get("hi"), popt=rec.get("popt"),
                sigma=rec.get("sigma"), absolute_sigma=rec.get("absolute_sigma"), keys=rec.get("keys"), nev=len(rec["evs"]),
                passed={k: (v if not isinstance(v, float) else float(v)) for k, v in (rec.get("passed") or {}).items()})


def set_exact_state(m, st):
    """put the recorded parameter state (hex floats) into a freshly built model, bit for bit"""
    fh = float.fromhex
    object.__setattr__(m, "_var", fh(st["varraw"]))
    object.__setattr__(m, "_len_scale", fh(st["len"]))
    object.__setattr__(m, "_nugget", fh(st["nug"]))
    for o, v in zip(m.opt_arg, st["opt"]):
        object.__setattr__(m, o, fh(v))
    object.__setattr__(m, "_anis", np.array([fh(v) for v in st["anis"]], dtype=np.double))
    return m


def exact_state(m):
    return dict(varraw=float(m._var).hex(), len=float(m._len_scale).hex(), nug=float(m._nugget).hex(),
                opt=[float(getattr(m, o)).hex() for o in m.opt_arg], anis=[float(a).hex() for a in np.atleast_1d(m._anis)])


def zygote_main():
    """pristine process: gstools imported, fit_variogram never called.  For every request (one JSON line: case + exact
    state) a child is forked that performs exactly that one call and reports the result; the zygote itself stays pristine."""
    import os
    import sys
    import gstools  # noqa
    import gstools.covmodel.fit  # noqa
    import scipy.optimize  # noqa
    sys.stdout.write("ready\n")
    sys.stdout.flush()
    for line in sys.stdin:
        line = line.strip()
        if not line:
            continue
        r, w = os.pipe()
        pid = os.fork()
        if pid == 0:
            os.close(r)
            try:
                req = json.loads(line)
                case = req["case"]
                m = build_model(case, "start")
                set_exact_state(m, req["state"])
                res = json.dumps(summarise(run_impl(case, model=m)))
            except BaseException as e:  # noqa
                res = json.dumps(dict(failed="%s: %s" % (type(e).__name__, e)))
            with os.fdopen(w, "w") as f:
                f.write(res)
            os._exit(0)
        os.close(w)
        with os.fdopen(r) as f:
            res = f.read()
        os.waitpid(pid, 0)
        sys.stdout.write((res or json.dumps(dict(failed="no result"))) + "\n")
        sys.stdout.flush()


class FreshRunner:
    """client of the zygote: `call(case, state)` = the result of that call in a pristine interpreter state"""

    def __init__(self):
        import os
        import subprocess
        import sys
        env = dict(os.environ, OMP_NUM_THREADS="1", OPENBLAS_NUM_THREADS="1", MKL_NUM_THREADS="1")
        self.p = subprocess.Popen([sys.executable, "-W", "ignore", "-c", "import c10; c10.zygote_main()"], stdin=subprocess.PIPE,
                                  stdout=subprocess.PIPE, text=True, bufsize=1, env=env)
        self.ok = self.p.stdout.readline().strip() == "ready"

    def call(self, case, state):
        import select
        if not self.ok:
            return None
        self.p.stdin.write(json.dumps(dict(case=case, state=state)) + "\n")
        self.p.stdin.flush()
        rl, _, _ = select.select([self.p.stdout], [], [], 120)
        if not rl:
            self.ok = False
            return None
        res = json.loads(self.p.stdout.readline())
        return None if "failed" in res else res

    def close(self):
        try:
            self.p.stdin.close()
            self.p.wait(timeout=5)
        except Exception:  # noqa
            self.p.kill()


def compare_fresh(a, b):
    """history call (a) vs the same call in a pristine process (b): both are deterministic runs of the same code on
    bit-identical parameters and data, so they agree up to BLAS-threading noise (1e-9; pcov 1e-6 of its largest entry)"""
    bad = []
    if a["err"] != b["err"]:
        return ["outcome %s (%s) vs %s (%s) in a pristine process" % (ERR_NAMES.get(a["err"]), a["msg"], ERR_NAMES.get(b["err"]), b["msg"])]
    if a["called"] != b["called"]:
        return ["curve_fit reached: %r vs %r in a pristine process" % (a["called"], b["called"])]

    def close_l(u, v, rtol=1e-9):
        if u is None or v is None:
            return u is None and v is None
        u, v = np.asarray(u, float), np.asarray(v, float)
        return u.shape == v.shape and bool(np.all((np.abs(u - v) <= rtol * np.maximum(np.abs(u), np.abs(v))) | ((u == v) | (np.isnan(u) & np.isnan(v)))))
    for k in ("p0", "lo", "hi", "sigma"):
        if not close_l(a[k], b[k], 0.0):
            bad.append("curve_fit %s: %s vs %s in a pristine process" % (k, str(a[k])[:120], str(b[k])[:120]))
    if a["keys"] != b["keys"] or a["absolute_sigma"] != b["absolute_sigma"] or a["passed"] != b["passed"]:
        bad.append("keywords handed to curve_fit: %r %r vs %r %r in a pristine process" % (a["keys"], a["passed"], b["keys"], b["passed"]))
    if a["err"] == 0:
        if not close_l(a["popt"], b["popt"]):
            bad.append("popt %r vs %r in a pristine process" % (a["popt"], b["popt"]))
        for k in sorted(a["dict"]):
            if not close_l(a["dict"][k], (b["dict"] or {}).get(k)):
                bad.append("dict[%s] %r vs %r in a pristine process" % (k, a["dict"][k], (b["dict"] or {}).get(k)))
        for k in ("varraw", "len", "nug", "opt", "anis"):
            if not close_l(a["after"][k], b["after"][k]):
                bad.append("state %s after the call %r vs %r in a pristine process" % (k, a["after"][k], b["after"][k]))
        if a["r2"] is not None and b["r2"] is not None and not close_l([a["r2"]], [b["r2"]]):
            bad.append("r2 %r vs %r in a pristine process" % (a["r2"], b["r2"]))
        pa, pb = np.asarray(a["pcov"], float), np.asarray(b["pcov"], float)
        if pa.shape != pb.shape or not (np.all(np.isfinite(pa) == np.isfinite(pb)) and
                                        np.all(np.abs(pa - pb)[np.isfinite(pa)] <= 1e-6 * max(1e-300, np.max(np.abs(pa[np.isfinite(pa)]), initial=0.0)))):
            bad.append("pcov differs from the pristine process: %s vs %s" % (str(a["pcov"])[:100], str(b["pcov"])[:100]))
    return bad


def expected_call(case, m):
    """what fit_variogram has to hand to curve_fit as data / weights, from the call's OWN arguments (documented semantics)"""
    x, y = case_xy(case)
    if case.get("xdtype") in ("float32", "f32-noncontig"):
        x = x.astype(np.float32).astype(float)
    isdir = (m.dim > 1) and (x.size * m.dim == y.size)
    xd = np.tile(x, m.dim) if isdir else x
    if m.latlon:
        xd = 2.0 * m.geo_scale * np.sin(xd / (2.0 * m.geo_scale))
    w = case["kwargs"].get("weights")
    if w is None:
        sigma = None
    elif isinstance(w, str) and w == "inv":
        sigma = 1.0 + xd
    elif isinstance(w, str) and w == "logistic":
        sigma = 1.0 / make_weights(w, x.size)(xd)
    else:
        w = np.asarray(w, float).reshape(-1)
        sigma = 1.0 / (np.tile(w, m.dim) if isdir and w.size * m.dim == xd.size else w)
    return xd, sigma


def has_vf(m, case):
    return case["cls"].startswith("TPL") or abs(m.var_factor() - 1.0) > 0


def fitted_layout(case, impl):
    """names of the parameters handed to the optimiser, in the documented order, and whether anis follows (dim-1 entries)"""
    m = impl["model"]
    names = ["var", "len_scale", "nugget"] + list(m.opt_arg)
    sel = dict((nme, v) for nme, v in case["kwargs"]["select"])
    nf = {nme for nme, v in sel.items() if v is not True}
    fitted = [nme for nme in names if nme not in nf]
    sill = case["kwargs"].get("sill", None)
    constrained = not (sill is None or sill is True)
    if constrained:
        if "var" in nf and "nugget" in nf:
            pass
        elif "var" in nf:
            fitted = [n_ for n_ in fitted if n_ != "nugget"]
        elif "nugget" in nf:
            fitted = [n_ for n_ in fitted if n_ != "var"]
        else:
            fitted = [n_ for n_ in fitted if n_ != "nugget"]
    x, y = case_xy(case)
    isdir = (m.dim > 1) and (x.size * m.dim == y.size)
    fit_anis = bool(case["kwargs"].get("anis", True) is True and isdir)
    return fitted, fit_anis, constrained


def check_call_kwargs(case, impl):
    """probes that do not need a successful fit: data, weights and keywords handed to curve_fit are a function of the call's
    own arguments; the caller's curve_fit_kwargs dict is not altered"""
    out = []
    rec = impl["rec"]
    m = impl["model"]
    if impl.get("cfkw_changed"):
        out.append(("cfkw-mutated", "the caller's curve_fit_kwargs dict %r was altered by the call (keys %r)"
                    % (case["kwargs"].get("cfkw") or "tight", impl["cfkw_changed"])))
    if not rec["called"]:
        return out
    xd, sigma = expected_call(case, m)
    f32 = case.get("xdtype") in ("float32", "f32-noncontig")
    got_x = np.asarray(rec["xdata"], float)
    if got_x.shape != xd.shape or not np.all(np.abs(got_x - xd) <= (1e-6 if f32 else 1e-13) * np.maximum(np.abs(xd), 1e-300)):
        out.append(("xdata", "bin centres handed to curve_fit %s..., expected from the call's arguments %s..." % (str(got_x[:4]), str(xd[:4]))))
    gs_ = rec["sigma"]
    if (gs_ is None) != (sigma is None):
        out.append(("sigma", "weights=%r but curve_fit got sigma %s" % (case["kwargs"].get("weights") if not isinstance(case["kwargs"].get("weights"), list) else "array",
                                                                        "None" if gs_ is None else "of length %d: %s..." % (len(gs_), str(gs_[:3])))))
    elif sigma is not None:
        gs_ = np.asarray(gs_, float)
        if gs_.shape != sigma.shape or not np.all(np.abs(gs_ - sigma) <= (1e-5 if f32 else 1e-12) * np.abs(sigma)):
            out.append(("sigma", "sigma handed to curve_fit %s... differs from the weights of this call %s..." % (str(gs_[:4]), str(sigma[:4]))))
        if rec["absolute_sigma"] is not True:
            out.append(("sigma", "weights given but absolute_sigma = %r" % (rec["absolute_sigma"],)))
    if sigma is None and rec["absolute_sigma"] is not None:
        out.append(("sigma", "no weights but absolute_sigma = %r handed to curve_fit" % (rec["absolute_sigma"],)))
    # every entry of the bounds handed to curve_fit is the bound of ITS OWN parameter (set_arg_bounds is the documented way to
    # restrict the fit; var <= sill when a sill is prescribed), and the start value lies inside them
    fitted, fit_anis, constrained = fitted_layout(case, impl)
    b = impl["bounds"]
    bidx = {"var": 0, "len_scale": 1, "nugget": 2, "anis": 3}
    for i_, o_ in enumerate(m.opt_arg):
        bidx[o_] = 4 + i_
    own = list(fitted) + (["anis"] * (m.dim - 1) if fit_anis else [])
    if len(own) == len(rec["lo"]):
        sill_v = expected_sill(case, impl) if constrained else None
        for i_, nme in enumerate(own):
            lo_e, hi_e = b[bidx[nme]][0], b[bidx[nme]][1]
            if nme == "var" and constrained:
                hi_e = sill_v
            tol = 8 * 2.220446049250313e-16 * abs(hi_e) if (nme == "var" and constrained and case["kwargs"].get("sill") is False) else 0.0
            if rec["lo"][i_] != lo_e or not (abs(rec["hi"][i_] - hi_e) <= tol or rec["hi"][i_] == hi_e):
                out.append(("cf-bounds:%s" % ("anis" if nme == "anis" else "var" if nme == "var" else "other"),
                            "entry %d of the bounds handed to curve_fit belongs to %s whose bounds are [%r, %r], but curve_fit got [%r, %r] "
                            "(fitted: %r%s)" % (i_, nme, lo_e, hi_e, rec["lo"][i_], rec["hi"][i_], fitted, " + anis" if fit_anis else "")))
            elif not (rec["lo"][i_] <= rec["p0"][i_] <= rec["hi"][i_]):
                out.append(("cf-p0", "start value %r of %s outside the bounds [%r, %r] handed to curve_fit" % (rec["p0"][i_], nme, rec["lo"][i_], rec["hi"][i_])))
    # the start vector follows the documented init_guess semantics for EVERY parameter: an entry of a dict wins, otherwise
    # "default" (len_scale: mean bin centre * rescale; var, nugget: mean variogram value; opt args / anis: default from their
    # bounds) or "current" (the model's present value); a guess outside the open bounds is replaced by the default from the bounds
    if len(own) == len(rec["lo"]) and not f32:
        def dflt_from(lo_, hi_):
            if lo_ > -np.inf and hi_ < np.inf:
                return (lo_ + hi_) / 2.0
            if lo_ > -np.inf:
                return lo_ + 1.0
            if hi_ < np.inf:
                return hi_ - 1.0
            return 0.0
        ig = case["kwargs"].get("init_guess", "default")
        igd = dict(ig) if isinstance(ig, dict) else {"default": ig}
        mode = igd.pop("default", "default")
        pre = impl["pre_copy"]
        # the guesses refer to the model AFTER the fixed values were applied (fitted parameters are not touched by that, except the
        # variance of models with a var_factor): take the present values from the state before the call where that is unambiguous
        cur_vals = dict(len_scale=impl["before"]["len"], nugget=impl["before"]["nug"])
        for i_, o_ in enumerate(m.opt_arg):
            cur_vals[o_] = impl["before"]["opt"][i_]
        sel_fixed_other = any(not isinstance(v_, bool) for n_, v_ in case["kwargs"]["select"])
        if not (sel_fixed_other and has_vf(m, case)) and not constrained:
            cur_vals["var"] = impl["before"]["var"]
        anis_before = impl["before"]["anis"]
        for i_, nme in enumerate(own):
            if nme == "anis":
                j_ = i_ - len(fitted)
                if "anis" in igd:
                    a_ = np.atleast_1d(np.asarray(igd["anis"], float))[: m.dim - 1]
                    a_ = np.concatenate([np.ones(m.dim - 1 - a_.size), a_])
                    g_ = float(a_[j_])
                elif mode == "default":
                    d_ = dflt_from(b[3][0], b[3][1])
                    g_ = float(([1.0] * (m.dim - 2) + [d_])[j_])
                else:
                    g_ = float(anis_before[j_])
            elif nme in igd:
                g_ = float(igd[nme])
            elif mode == "default":
                g_ = (rec["mean_x"] * float(m.rescale) if nme == "len_scale" else rec["mean_y"] if nme in ("var", "nugget")
                      else dflt_from(b[bidx[nme]][0], b[bidx[nme]][1]))
            elif nme in cur_vals:
                g_ = cur_vals[nme]
            else:
                continue
            lo_, hi_ = rec["lo"][i_], rec["hi"][i_]
            exp_p0 = g_ if lo_ < g_ < hi_ else dflt_from(lo_, hi_)
            if ulps(rec["p0"][i_], exp_p0) > 2:
                out.append(("cf-p0:%s" % ("anis" if nme == "anis" else nme if nme in ("var", "len_scale", "nugget") else "opt"),
                            "start value of %s handed to curve_fit is %r; init_guess=%r asks for %r (bounds [%r, %r])"
                            % (nme, rec["p0"][i_], ig, exp_p0, lo_, hi_)))
    # the values the curve returned to the optimiser are the variogram(s) of the model as it was after that evaluation:
    # isotropic / Yadrenko variogram at the bin centres, or, for directional data, the variograms along the main axes with the
    # model's PRESENT anisotropy ratios (whether they are fitted or not)
    if rec["curves"] and rec["states"]:
        xs, _ = case_xy(case)
        if case.get("xdtype") in ("float32", "f32-noncontig"):
            xs = xs.astype(np.float32).astype(float)
        isdir_ = (m.dim > 1) and (xs.size * m.dim == np.asarray(rec["ydata"]).size)
        scratch = copy.deepcopy(impl["pre_copy"])
        nst = min(len(rec["states"]), len(rec["curves"]))
        for kk in sorted({0, nst // 2, nst - 1}):
            cv = rec["curves"][kk]
            if not np.all(np.isfinite(cv)):
                continue            # punishment (np.inf) or an evaluation at a bound
            st = rec["states"][kk]
            no = len(m.opt_arg)
            object.__setattr__(scratch, "_var", st[0])
            object.__setattr__(scratch, "_len_scale", st[1])
            object.__setattr__(scratch, "_nugget", st[2])
            for o_, v_ in zip(m.opt_arg, st[3:3 + no]):
                object.__setattr__(scratch, o_, v_)
            object.__setattr__(scratch, "_anis", np.array(st[3 + no:], dtype=np.double))
            if isdir_:
                ref = np.concatenate([scratch.vario_axis(xs, axis=i_) for i_ in range(m.dim)])
            else:
                ref = scratch.variogram(np.asarray(rec["xdata"], float))
            tol_c = (1e-4 if f32 else 1e-12)
            if ref.shape != cv.shape or not np.all(np.abs(ref - cv) <= tol_c * np.maximum(np.abs(ref), 1e-300)):
                out.append(("curve", "evaluation %d at %r: the curve returned to the optimiser is not the %s variogram of the model in its "
                            "state after that evaluation (anis %r): returned %s..., model %s..."
                            % (kk, rec["evs"][kk], "directional (main axes)" if isdir_ else "isotropic", st[3 + no:], str(cv[:3]), str(ref[:3]))))
                break
    user = dict(ftol=1e-15, xtol=1e-15, gtol=1e-15) if case["kwargs"].get("tight") else {}
    user.update(case["kwargs"].get("cfkw") or {})
    exp_keys = {"f", "bounds", "p0", "xdata", "ydata", "loss", "max_nfev", "method"} | set(user) | ({"sigma", "absolute_sigma"} if sigma is not None else set())
    if set(rec["keys"]) != exp_keys:
        out.append(("cf-keys", "keywords handed to curve_fit %r, expected %r" % (rec["keys"], sorted(exp_keys))))
    for kk, vv in user.items():
        if rec["passed"].get(kk) != vv:
            out.append(("cf-keys", "curve_fit_kwargs[%s] = %r given, curve_fit got %r" % (kk, vv, rec["passed"].get(kk))))
    if rec["passed"].get("loss") != case["kwargs"].get("loss", "soft_l1") or rec["passed"].get("method") != case["kwargs"].get("method", "trf") \
            or rec["passed"].get("max_nfev") != case["kwargs"].get("max_eval"):
        out.append(("cf-keys", "loss/method/max_eval %r differ from the call's %r/%r/%r" % (
            rec["passed"], case["kwargs"].get("loss", "soft_l1"), case["kwargs"].get("method", "trf"), case["kwargs"].get("max_eval"))))
    return out


# ------------------------------------------------------------------ model run
def model_head(case, impl):
    m = impl["model"]
    nopt = len(m.opt_arg)
    names = ["var", "len_scale", "nugget"] + list(m.opt_arg)
    b = impl["bounds"]
    sidx, skind, sval = [], [], []
    for nme, v in case["kwargs"]["select"]:
        sidx.append(names.index(nme) if nme in names else 999)
        if isinstance(v, bool):
            skind.append(0 if v else 1)
            sval.append(0.0)
        else:
            skind.append(2)
            sval.append(float(v))
    k = case["kwargs"]
    sill = k.get("sill", None)
    if sill is None or sill is True:
        sk, sv = 0, 0.0
    elif sill is False:
        sk, sv = 1, 0.0
    else:
        sk, sv = 2, float(sill)
    anis = k.get("anis", True)
    if anis is True:
        ak, av = 0, []
    elif anis is False:
        ak, av = 1, []
    else:
        ak, av = 2, [float(a) for a in np.atleast_1d(anis)]
    isdir = (m.dim > 1) and (len(case["x"]) * m.dim == int(np.prod(case["yshape"])))
    head = [True,
            np.array([r[0] for r in b], float), np.array([r[1] for r in b], float),
            np.array([r[2] for r in b], np.int64), np.array([r[3] for r in b], np.int64),
            ("n", m.dim), bool(m.latlon), float(m.rescale), ("n", nopt),
            np.array(sidx, np.int64), np.array(skind, np.int64), np.array(sval, float),
            ("z", sk), float(sv), ("z", ak), np.array(av, float), bool(isdir)]
    bs = impl["before"]
    state = [float(bs["varraw"]), float(bs["len"]), float(bs["nug"]), np.array(bs["opt"], float), np.array(bs["anis"], float)]
    return head, state, names, isdir


def run_model(drv, case, impl, fx=True):
    head, state, names, isdir = model_head(case, impl)
    head[0] = bool(fx)
    rec = impl["rec"]
    evs = rec["evs"]
    npar = len(evs[0]) if evs else 0
    evm = np.array(evs, float).reshape(len(evs), npar) if evs else np.zeros((0, 0))
    popt = np.array(rec.get("popt", []), float)
    r = drv.call("fit_run", *head, evm, popt, *state)
    res = dict(isdir=isdir, names=names)
    if isinstance(r, tuple):
        res["err"] = 0
        res["state"] = dict(varraw=r[1], len=r[2], nug=r[3], opt=list(r[4]), anis=list(r[5]))
        res["dict"] = dict(var=r[6], len_scale=r[7], nugget=r[8], opt=list(r[9]), anis=(list(r[11]) if r[10] else None))
    else:
        res["err"] = int(r)
    if rec["states"]:
        # states after every COMPLETED evaluation (an evaluation that raised left no snapshot)
        ne = len(rec["states"])
        r3 = drv.call("fit_trace", *head, evm[:ne], *state)
        if isinstance(r3, tuple):
            res["trace"] = np.asarray(r3[1], float).reshape(ne, -1)
        else:
            res["trace"] = int(r3)
    if rec["called"]:
        k = case["kwargs"]
        ig = k.get("init_guess", "default")
        gidx, gval, gaf, gav = [], [], False, []
        dflt = True
        if isinstance(ig, dict):
            dflt = ig.get("default", "default") == "default"
            for nme, v in ig.items():
                if nme == "default":
                    continue
                if nme == "anis":
                    gaf, gav = True, [float(a) for a in np.atleast_1d(v)]
                else:
                    gidx.append(names.index(nme))
                    gval.append(float(v))
        else:
            dflt = ig == "default"
        r2 = drv.call("fit_init", *head, bool(dflt), np.array(gidx, np.int64), np.array(gval, float), bool(gaf),
                      np.array(gav, float), float(rec["mean_x"]), float(rec["mean_y"]), *state)
        if isinstance(r2, tuple):
            res["init"] = dict(lo=list(r2[1]), hi=list(r2[2]), p0=list(r2[3]))
        else:
            res["init"] = dict(err=int(r2))
    return res


def ulps(a, b):
    a = np.atleast_1d(np.asarray(a, float))
    b = np.atleast_1d(np.asarray(b, float))
    if a.shape != b.shape:
        return float("inf")
    return max([C.ulp_diff(float(p), float(q)) for p, q in zip(a, b)] + [0])


def compare_model(ctx, case, impl, mod):
    """model (extracted FitBook on the recorded trace) vs implementation; returns list of disagreement strings"""
    bad = []
    ie, me = impl["err"], mod["err"]
    # the model object after every evaluation of the curve (independent of how the call ended)
    if "trace" in mod:
        st = np.asarray(impl["rec"]["states"], float)
        if isinstance(mod["trace"], int):
            bad.append("state after evaluations: model error %s but the implementation completed %d evaluations" % (mod["trace"], len(st)))
        elif st.shape != mod["trace"].shape:
            bad.append("state after evaluations: shapes %r vs %r" % (st.shape, mod["trace"].shape))
        else:
            for kk in range(len(st)):
                u = ulps(st[kk], mod["trace"][kk])
                if u > ULP_STATE:
                    bad.append("model state after evaluation %d at %r: implementation (_var, len_scale, nugget, opt, anis) = %r, model %r"
                               % (kk, impl["rec"]["evs"][kk], list(st[kk]), list(mod["trace"][kk])))
                    break
    if ie == 9:
        return bad
    if ie == 8:
        # errors outside the modelled bookkeeping (curve_fit itself, argument validation): the model must agree on
        # everything that happened before, i.e. it must not report one of ITS error kinds earlier -- unless the optimiser
        # was never called and nothing can be compared
        return bad
    if ie != me:
        bad.append("error kind: implementation %s (%s) model %s" % (ERR_NAMES.get(ie), impl["msg"], ERR_NAMES.get(me, me)))
        return bad
    if ie != 0:
        return bad
    a, s = impl["after"], mod["state"]
    for k in ("varraw", "len", "nug", "opt", "anis"):
        u = ulps(a[k], s[k])
        if u > ULP_STATE:
            bad.append("final state %s: implementation %r model %r (%s ulp)" % (k, a[k], s[k], u))
    d, md = impl["dict"], mod["dict"]
    m = impl["model"]
    for k in ("var", "len_scale", "nugget"):
        if ulps(float(d[k]), md[k]) > ULP_STATE:
            bad.append("dict[%s]: implementation %r model %r" % (k, float(d[k]), md[k]))
    if ulps([float(d[o]) for o in m.opt_arg], md["opt"]) > ULP_STATE:
        bad.append("dict opt args: implementation %r model %r" % ([float(d[o]) for o in m.opt_arg], md["opt"]))
    if ("anis" in d) != (md["anis"] is not None):
        bad.append("dict has anis: implementation %r model %r" % ("anis" in d, md["anis"] is not None))
    elif "anis" in d and ulps(np.atleast_1d(d["anis"]), md["anis"]) > ULP_STATE:
        bad.append("dict[anis]: implementation %r model %r" % (list(np.atleast_1d(d["anis"])), md["anis"]))
    keys = set(d.keys()) - {"anis"}
    if keys != set(["var", "len_scale", "nugget"] + list(m.opt_arg)):
        bad.append("dict keys %r" % sorted(d.keys()))
    if "init" in mod:
        rec = impl["rec"]
        if "err" in mod["init"]:
            bad.append("fit_init: model error %s but curve_fit was called" % mod["init"]["err"])
        else:
            for k in ("lo", "hi", "p0"):
                if ulps(rec[k], mod["init"][k]) > ULP_STATE:
                    bad.append("curve_fit %s: implementation %r model %r" % (k, rec[k], mod["init"][k]))
    return bad


# ------------------------------------------------------------------ the property statement, directly on the implementation
def in_bounds(val, row):
    lo, hi, loc, hic = row
    val = np.atleast_1d(np.asarray(val, float))
    okl = (val >= lo) if loc else (val > lo)
    okh = (val <= hi) if hic else (val < hi)
    return bool(np.all(okl & okh))


def expected_sill(case, impl):
    """the sill the call has to honour (None: not constrained), computed through the public API on a copy"""
    k = case["kwargs"]
    sill = k.get("sill", None)
    if sill is None or sill is True:
        return None
    if sill is not False:
        return float(sill)
    m2 = copy.deepcopy(impl["pre_copy"])
    sel = k["select"]
    keepvar = m2.var
    var_fixed = None
    for nme, v in sel:
        if not isinstance(v, bool):
            if nme == "var":
                var_fixed = float(v)
            else:
                setattr(m2, nme, float(v))
    if var_fixed is not None:
        m2.var = var_fixed
    elif any(nme == "var" and v is False for nme, v in sel):
        m2.var = keepvar
    return float(m2.sill)


def check_property(ctx, case, impl):
    """returns list of (key, text) violations of the property statement for a successful call"""
    out = []
    m = impl["model"]
    d = impl["dict"]
    before, after = impl["before"], impl["after"]
    names = ["var", "len_scale", "nugget"] + list(m.opt_arg)
    bidx = {"var": 0, "len_scale": 1, "nugget": 2, "anis": 3}
    for i, o in enumerate(m.opt_arg):
        bidx[o] = 4 + i
    has_vf = abs(m.var_factor() - 1.0) > 0 or case["cls"].startswith("TPL")
    tol_var = ULP_VARFAC if has_vf else 0
    sel = dict((nme, v) for nme, v in case["kwargs"]["select"])
    nf = {nme for nme, v in sel.items() if v is not True}
    sill = expected_sill(case, impl)
    cur = dict(var=after["var"], len_scale=after["len"], nugget=after["nug"])
    prev = dict(var=before["var"], len_scale=before["len"], nugget=before["nug"])
    for i, o in enumerate(m.opt_arg):
        cur[o] = after["opt"][i]
        prev[o] = before["opt"][i]
    # reference values of parameters that are not fitted
    ref = {}
    for nme in nf:
        if nme in names:
            ref[nme] = prev[nme] if isinstance(sel[nme], bool) else float(sel[nme])
    dependent = None
    if sill is not None:
        nug_lo = impl["bounds"][2][0]
        if "var" in nf and "nugget" in nf:
            if ref["var"] > sill:
                ref["nugget"] = nug_lo
                ref["var"] = sill - nug_lo
            else:
                ref["nugget"] = sill - ref["var"]
        elif "var" in nf:
            ref["nugget"] = sill - ref["var"]
        elif "nugget" in nf:
            ref["var"] = sill - ref["nugget"]
        else:
            dependent = "nugget"
    # 1. fixed / deselected untouched
    for nme, rv in ref.items():
        tol = tol_var if nme == "var" else 0
        bad = ulps(cur[nme], rv) > tol
        if nme in ("var", "nugget") and sill is not None:
            # documented recalculation x = sill - y: the sill (var + nugget, var through var_factor) and y carry a few
            # roundings each, so the ABSOLUTE error is a few ulp of the sill (many ulp of a small nugget)
            bad = abs(cur[nme] - rv) > 8 * 2.220446049250313e-16 * max(abs(sill), abs(rv))
        if bad:
            out.append(("untouched:%s" % ("var" if nme == "var" else "nugget" if nme == "nugget" else "other"),
                        "parameter %s is not fitted (%r) but is %r after the call, expected %r" % (nme, sel.get(nme), cur[nme], rv)))
    anis_kw = case["kwargs"].get("anis", True)
    isdir = impl.get("isdir", False)
    if not (anis_kw is True and isdir):
        if anis_kw is True or anis_kw is False:
            exp_anis = before["anis"]
        else:
            from gstools.tools.geometric import set_anis
            exp_anis = list(set_anis(m.dim, anis_kw))
            if m.latlon:
                exp_anis[:2] = [1.0] * len(exp_anis[:2])
        if ulps(after["anis"], exp_anis) > 0:
            out.append(("untouched:anis", "anis not fitted (%r) but is %r after the call, expected %r" % (anis_kw, after["anis"], exp_anis)))
    # 1b. a variance that is not fitted is the requested one after EVERY evaluation of the curve (otherwise the optimiser
    #     fits the curves of a different model: TPL models rescale var with len_scale / hurst / len_low)
    if "var" in ref:
        for kk, vv in enumerate(impl["rec"].get("vars", [])):
            if sill is not None:
                badv = abs(vv - ref["var"]) > 8 * 2.220446049250313e-16 * max(abs(sill), abs(ref["var"]))
            else:
                badv = ulps(vv, ref["var"]) > tol_var
            if badv:
                out.append(("eval-var", "variance is not fitted (%r) but after evaluation %d of the curve at %r the model has var = %r, "
                            "expected %r" % (sel.get("var"), kk, impl["rec"]["evs"][kk], vv, ref["var"])))
                break
    # 2. inside bounds
    for nme in names + ["anis"]:
        v = after["anis"] if nme == "anis" else cur[nme]
        if not in_bounds(v, impl["bounds"][bidx[nme]]):
            out.append(("bounds:%s" % nme, "%s = %r outside its bounds %r after the call" % (nme, v, impl["bounds"][bidx[nme]])))
    if sill is not None and cur["var"] > sill * (1 + 1e-12):
        out.append(("bounds:var>sill", "variance %r above the prescribed sill %r" % (cur["var"], sill)))
    # 3. dict equals state
    for nme in names:
        tol = tol_var if nme == "var" else 0
        if nme not in d or ulps(float(d[nme]), cur[nme]) > tol:
            out.append(("dict:%s" % ("var" if nme == "var" else "nugget" if nme == "nugget" else "other"),
                        "returned dict[%s] = %r but the model has %r" % (nme, d.get(nme), cur[nme])))
    if "anis" in d and ulps(np.atleast_1d(d["anis"]), after["anis"]) > 0:
        out.append(("dict:anis", "returned dict[anis] = %r but the model has %r" % (d["anis"], after["anis"])))
    if isdir != ("anis" in d):
        out.append(("dict:anis-key", "directional data %r but dict has anis: %r" % (isdir, "anis" in d)))
    # 4. sill met exactly
    if sill is not None:
        got = cur["var"] + cur["nugget"]
        if abs(got - sill) > 1e-12 * abs(sill):
            out.append(("sill", "prescribed sill %r but var + nugget = %r (difference %.3e)" % (sill, got, got - sill)))
    # 5. the model ends in the optimum: every fitted parameter is its entry of the popt that curve_fit returned
    #    (documented layout: var, len_scale, nugget, optional arguments in opt_arg order, then the dim-1 anisotropy ratios)
    popt = impl["rec"].get("popt")
    if popt is not None:
        fitted = [nme for nme in names if nme not in nf]
        if sill is not None:
            if "var" in nf and "nugget" in nf:
                pass
            elif "var" in nf:
                fitted = [n_ for n_ in fitted if n_ != "nugget"]
            elif "nugget" in nf:
                fitted = [n_ for n_ in fitted if n_ != "var"]
            else:
                fitted = [n_ for n_ in fitted if n_ != "nugget"]
        fit_anis = bool(anis_kw is True and isdir)
        n_exp = len(fitted) + ((m.dim - 1) if fit_anis else 0)
        if n_exp != len(popt):
            out.append(("popt:layout", "curve_fit optimised %d parameters, the selection asks for %d (%r%s)"
                        % (len(popt), n_exp, fitted, " + anis" if fit_anis else "")))
        else:
            for i, nme in enumerate(fitted):
                okp = ulps(cur[nme], popt[i]) <= (tol_var if nme == "var" else 0)
                if not okp:
                    out.append(("popt:%s" % ("var" if nme == "var" else "len_scale" if nme == "len_scale" else "nugget" if nme == "nugget" else "opt"),
                                "fitted parameter %s is %r after the call but curve_fit returned %r for it (popt = %r, fitted = %r)"
                                % (nme, cur[nme], popt[i], popt, fitted)))
            if fit_anis and ulps(after["anis"], popt[len(fitted):]) > 0:
                out.append(("popt:anis", "fitted anis is %r after the call but curve_fit returned %r" % (after["anis"], popt[len(fitted):])))
            if dependent == "nugget" and "var" in fitted:
                if abs(cur["nugget"] - (sill - popt[0])) > 8 * 2.220446049250313e-16 * abs(sill):
                    out.append(("popt:dep-nugget", "nugget is %r, the sill %r and the fitted variance %r ask for %r"
                                % (cur["nugget"], sill, popt[0], sill - popt[0])))
    # 6. the returned r2 is the r2 of the fitted curve against the given data (computed here in float64 from the public
    #    variogram functions of the fitted model)
    if "r2" in impl:
        x64, y64 = case_xy(case)
        if case.get("xdtype") in ("float32", "f32-noncontig"):
            x64 = x64.astype(np.float32).astype(float)
        if case.get("ydtype") in ("float32", "f32-noncontig"):
            y64 = y64.astype(np.float32).astype(float)
        yv = y64.reshape(-1)
        if isdir:
            vv = np.concatenate([m.vario_axis(x64, axis=i) for i in range(m.dim)])
        elif m.latlon:
            vv = m.vario_yadrenko(x64)
        else:
            vv = m.variogram(x64)
        ss_tot = float(np.sum((yv - np.mean(yv)) ** 2))
        if ss_tot > 0 and np.all(np.isfinite(vv)):
            r2_ref = 1.0 - float(np.sum((yv - vv) ** 2)) / ss_tot
            impl["r2_data"] = (yv, np.asarray(vv, float), r2_ref)
            # float32 input: the implementation evaluates the model in float32 (eps 6e-8): |d r2| <= 2 sqrt(ss_res/ss_tot) * 1e-6
            f32 = any(case.get(kk) in ("float32", "f32-noncontig") for kk in ("xdtype", "ydtype"))
            tol = (1e-4 if f32 else 1e-9) * max(1.0, abs(r2_ref))
            if not abs(float(impl["r2"]) - r2_ref) <= tol:
                out.append(("r2", "returned r2 = %r but the fitted curve has r2 = %r against the data (x as %s, y as %s)"
                            % (float(impl["r2"]), r2_ref, case.get("xdtype", "float64"), case.get("ydtype", "float64"))))
    return out


# ------------------------------------------------------------------ recovery probes
def recovery_cases(rng, tier):
    """exact synthetic variograms of well-conditioned truths, start near the truth"""
    cases = []
    plan = [("Gaussian", {}), ("Exponential", {}), ("Spherical", {}), ("Cubic", {}), ("Circular", {}), ("Linear", {}),
            ("Stable", {"alpha": 1.3}), ("Matern", {"nu": 1.2}), ("Rational", {"alpha": 1.5}),
            ("HyperSpherical", {"nu": None}), ("SuperSpherical", {"nu": None})]
    if tier == "thorough":
        plan += [("Integral", {"nu": 1.5}), ("TPLGaussian", {"hurst": 0.5, "len_low": 0.0}), ("TPLExponential", {"hurst": 0.4, "len_low": 0.0})]
    for cls, opt in plan:
        for kind in ("iso", "dir", "latlon"):
            dim = int(rng.integers(1, 4)) if kind == "iso" else (int(rng.integers(2, 4)) if kind == "dir" else 3)
            if cls in ("Circular",) and dim > 2 and kind != "latlon":
                dim = 2
            if cls == "Circular" and kind == "latlon":
                continue      # valid only up to dim 2; lat-lon models live in dim 3
            latlon = kind == "latlon"
            geo = 6371.0 if latlon and rng.random() < 0.5 else 1.0
            L = float(rng.uniform(2.0, 6.0)) if not latlon else float(rng.uniform(0.15, 0.35) * geo)
            truth = dict(var=float(rng.uniform(0.5, 2.5)), len_scale=L, nugget=float(rng.uniform(0.1, 0.5)))
            for k, v in opt.items():
                truth[k] = float(dim / 2 + 0.5) if v is None else v
            if kind == "dir":
                truth["anis"] = [float(a) for a in rng.uniform(0.4, 0.9, dim - 1)]
            case = dict(cls=cls, dim=dim, latlon=latlon, geo_scale=geo, truth=truth, isdir=kind == "dir", bounds={})
            tm = build_model(case, "truth")
            nb = 30
            x = np.linspace(0.05 * L, 3.0 * L, nb)
            if kind == "dir":
                y = np.array([tm.vario_axis(x, axis=i) for i in range(dim)])
            elif latlon:
                y = tm.vario_yadrenko(x)
            else:
                y = tm.variogram(x)
            start = {k: (float(v * rng.uniform(0.9, 1.1)) if k != "anis" else [float(a * rng.uniform(0.9, 1.1)) for a in v])
                     for k, v in truth.items()}
            # shape parameters: identifiable ones (Stable/Rational alpha, Matern/Integral/SuperSpherical nu) are fitted in
            # half of the cases (observed recovery <= 1e-6); HyperSpherical's nu does not change the curve for fixed dim
            # (unidentifiable) and the TPL pair (hurst, len_low) has flat valleys with len_scale: those are held at the truth
            fit_shape = cls in SHAPE_OK and rng.random() < 0.5
            if fit_shape:
                sel = []
                for k in opt:
                    start[k] = float(truth[k] * rng.uniform(0.95, 1.05))
            else:
                sel = [[k, False] for k in opt]
                for k in opt:
                    start[k] = truth[k]
            case["fit_shape"] = fit_shape
            case.update(start=start, x=[C.fhex(v) for v in x], y=[C.fhex(v) for v in np.asarray(y).ravel()], yshape=list(np.shape(y)),
                        kwargs=dict(select=sel, init_guess="current", loss=str(rng.choice(["soft_l1", "linear"])),
                                    method="trf", tight=True))
            cases.append(case)
    # TPL models with a variance that is NOT fitted (deselected, or fixed to the true value on a model that has another
    # one): var = var_raw * var_factor(len_scale, hurst, len_low), so every evaluation has to restore the variance.
    # The model starts far from the truth (x 0.6 .. 1.6); len_scale, nugget and (half of the cases) hurst are fitted;
    # len_low is held (len_low -> 0 is flat).  Observed recovery <= 1e-7.
    for cls in ("TPLGaussian", "TPLExponential", "TPLStable"):
        for mode in ("deselected", "fixed", "sill"):
            dim = int(rng.integers(1, 4))
            L = float(rng.uniform(2.0, 12.0))
            truth = dict(var=float(rng.uniform(0.5, 2.5)), len_scale=L, nugget=float(rng.uniform(0.1, 0.5)),
                         hurst=float(rng.uniform(0.25, 0.75)), len_low=float(rng.choice([0.0, rng.uniform(0.1, 1.0)])))
            if cls == "TPLStable":
                truth["alpha"] = 1.5
            case = dict(cls=cls, dim=dim, latlon=False, geo_scale=1.0, truth=truth, isdir=False, bounds={})
            tm = build_model(case, "truth")
            x = np.linspace(0.05 * L, 3.0 * L, 30)
            y = tm.variogram(x)
            fit_hurst = bool(rng.random() < 0.5)
            start = dict(truth)
            for k in ["len_scale", "nugget"] + (["hurst"] if fit_hurst else []):
                start[k] = float(truth[k] * rng.uniform(0.6, 1.6))
            start["hurst"] = min(start["hurst"], 0.9)
            sel = [[k, False] for k in truth if k not in ("var", "len_scale", "nugget") and not (k == "hurst" and fit_hurst)]
            kw = dict(init_guess="current", loss=str(rng.choice(["soft_l1", "linear"])), method="trf", tight=True)
            if mode == "deselected":
                sel.append(["var", False])
            elif mode == "fixed":
                start["var"] = float(truth["var"] * rng.uniform(0.5, 2.0))
                sel.insert(0, ["var", truth["var"]])
            else:       # sill prescribed and the nugget fixed: the variance is sill - nugget and never fitted
                start["var"] = float(truth["var"] * rng.uniform(0.5, 2.0))
                start["nugget"] = truth["nugget"]
                sel.append(["nugget", False])
                kw["sill"] = truth["var"] + truth["nugget"]
            kw["select"] = sel
            case.update(start=start, x=[C.fhex(v) for v in x], y=[C.fhex(v) for v in y], yshape=[30], kwargs=kw,
                        fit_shape=False, also=(["hurst"] if fit_hurst else []))
            cases.append(case)
    # directional data whose anisotropy is NOT fitted (anis=False with the model at the true ratios / anis=<the true ratios> on a
    # model with other ratios), ratios != 1: the curve has to be the directional one for the model's present ratios
    for cls in ("Exponential", "Gaussian", "Spherical", "Matern"):
        for mode in ("deselected", "fixed"):
            dim = int(rng.integers(2, 4))
            L = float(rng.uniform(3.0, 9.0))
            truth = dict(var=float(rng.uniform(0.5, 2.5)), len_scale=L, nugget=float(rng.uniform(0.1, 0.5)),
                         anis=[float(a) for a in rng.uniform(0.35, 0.8, dim - 1)])
            if cls == "Matern":
                truth["nu"] = 1.2
            start = {k: (float(v * rng.uniform(0.8, 1.25)) if k not in ("anis", "nu") else v) for k, v in truth.items()}
            kw = dict(select=([["nu", False]] if cls == "Matern" else []), init_guess="current", loss=str(rng.choice(["soft_l1", "linear"])),
                      method="trf", tight=True)
            if mode == "deselected":
                kw["anis"] = False
            else:
                start["anis"] = [float(a) for a in rng.uniform(0.9, 1.3, dim - 1)]
                kw["anis"] = list(truth["anis"]) if dim > 2 or rng.random() < 0.5 else float(truth["anis"][0])
            c = basic_case(rng, cls, dim, truth, start, {}, kw, kind="dir", nb=30, noise=0.0)
            c["fit_shape"] = False
            c["cell"] = "recovery:dir-anis-%s:%s" % (mode, cls)
            cases.append(c)
    # finite-range models started far below the smallest bin (the curve does not depend on len_scale there): the start values
    # given in a DICT init_guess have to reach the optimiser
    for cls in ("Spherical", "Circular", "Linear", "Cubic"):
        dim = int(rng.integers(1, 3)) if cls == "Circular" else int(rng.integers(1, 4))
        L = float(rng.uniform(7.0, 11.0))
        truth = dict(var=float(rng.uniform(0.5, 2.5)), len_scale=L, nugget=float(rng.uniform(0.1, 0.5)))
        start = dict(var=float(truth["var"] * rng.uniform(0.4, 0.6)), len_scale=1.0, nugget=float(truth["nugget"] * rng.uniform(1.5, 2.0)))
        ig = {k: float(truth[k] * rng.uniform(0.9, 1.1)) for k in ("var", "len_scale", "nugget")}
        ig["default"] = str(rng.choice(["default", "current"]))
        kw = dict(select=[], init_guess=ig, loss="soft_l1", method="trf", tight=True)
        c = basic_case(rng, cls, dim, truth, start, {}, kw, kind="iso", nb=30, noise=0.0)
        x = np.linspace(0.22 * L, 2.5 * L, 30)
        c["x"] = [C.fhex(v) for v in x]
        c["y"] = [C.fhex(v) for v in build_model(c, "truth").variogram(x)]
        c["fit_shape"] = False
        c["cell"] = "recovery:finite-range-dict-guess:%s" % cls
        cases.append(c)
    return cases


def bounds_window_cases(rng, thorough):
    """exact data, every parameter fitted (anis too for directional data); ONE parameter at a time gets customised bounds: a
    window around its own true value that excludes the true values of the other parameters.  If an entry of the bounds handed
    to the optimiser belonged to another parameter, the fit could not reach the truth."""
    cases = []
    specs = [("Exponential", {}), ("Matern", {"nu": 1.2})] + ([("Stable", {"alpha": 1.4}), ("Gaussian", {})] if thorough else [])
    for cls, opt in specs:
        for kind in ("dir", "iso", "latlon"):
            dim = int(rng.integers(2, 4)) if kind == "dir" else int(rng.integers(1, 4))
            geo = 1.0
            truth = dict(var=2.0, len_scale=6.0 if kind != "latlon" else 0.3, nugget=0.8, **opt)
            if kind == "dir":
                truth["anis"] = [0.3, 0.45][: dim - 1]
            L = truth["len_scale"]
            windows = {"var": [1.2, 5.0, "cc"], "len_scale": [0.55 * L, 3.0 * L, "cc"], "nugget": [0.5, 1.5, "cc"]}
            if kind == "dir":
                windows["anis"] = [0.1, 0.7, "cc"]
            if "nu" in opt:
                windows["nu"] = [1.0, 1.6, "cc"]
            if "alpha" in opt:
                windows["alpha"] = [1.0, 1.8, "cc"]
            for wpar, win in windows.items():
                start = {}
                for k_, v_ in truth.items():
                    if k_ == "anis":
                        start[k_] = [float(min(max(a * rng.uniform(0.9, 1.1), 0.12), 0.68)) for a in v_]
                    else:
                        lo_, hi_ = windows[k_][0], windows[k_][1]
                        start[k_] = float(min(max(v_ * rng.uniform(0.9, 1.1), lo_ * 1.02), hi_ * 0.98))
                kw = dict(select=[], init_guess="current", loss=str(rng.choice(["soft_l1", "linear"])), method="trf", tight=True)
                c = basic_case(rng, cls, dim, truth, start, {wpar: list(win)}, kw, kind=kind, nb=30, noise=0.0, geo=geo)
                c["fit_shape"] = True
                c["cell"] = "bounds-window:%s:%s:%s" % (cls, kind, wpar)
                cases.append(c)
    return cases


def run_recovery(ctx, case):
    impl = run_impl(case)
    key = ("recovery", case["cls"], "dir" if case["isdir"] else "latlon" if case["latlon"] else "iso", case["dim"])
    ctx.count(key, hist=dict(stage="recovery", cls=case["cls"], kind=key[2], dim=case["dim"]))
    if impl["err"] == 9:
        ctx.violation("probe: fit_variogram ends with an undocumented exception", impl["msg"], dict(case, note=impl["msg"]),
                      key="exception:" + impl["msg"].split(":")[0])
        return
    if impl["err"]:
        ctx.violation("probe: recovery", "fit_variogram raised on an exact synthetic variogram: " + impl["msg"], case,
                      key="recovery:raised:%s" % case["cls"])
        return
    t = case["truth"]
    bad = []
    if not impl["r2"] > 1 - 1e-6:
        bad.append("r2 = %r" % impl["r2"])
    for k in ["var", "len_scale", "nugget"] + case.get("also", []) + ([kk for kk in t if kk not in ("var", "len_scale", "nugget", "anis")] if case.get("fit_shape") else []):
        if abs(float(impl["dict"][k]) - t[k]) > 1e-4 * abs(t[k]):
            bad.append("%s fitted %r truth %r" % (k, float(impl["dict"][k]), t[k]))
    if case["isdir"]:
        if np.max(np.abs(np.asarray(impl["dict"]["anis"]) - np.asarray(t["anis"])) / np.asarray(t["anis"])) > 1e-4:
            bad.append("anis fitted %r truth %r" % (list(impl["dict"]["anis"]), t["anis"]))
    if bad:
        ctx.violation("probe: recovery of generating parameters", "; ".join(bad), case, key="recovery:%s:%s" % (case["cls"], key[2]))
    for k2, text in check_property(ctx, case, dict(impl, isdir=case["isdir"])) + check_call_kwargs(case, impl):
        ctx.violation("probe: property statement (recovery run)", text, case, key="prop:" + k2)


# ------------------------------------------------------------------ one bookkeeping case: implementation, model, property
def run_case(ctx, drv, case, stage="generated", model=None, fresh=None, shared_cf=None):
    state0 = exact_state(model if model is not None else build_model(case, "start")) if fresh is not None else None
    impl = run_impl(case, model, shared_cf)
    m = impl["model"]
    if "x" not in case:           # a pipeline entry that ended before the fit was reached
        ctx.count(None, hist=dict(stage=stage, outcome="pipeline ended before the fit: " + ERR_NAMES.get(impl["err"], "?")))
        if impl["err"] == 9:
            ctx.violation("probe: fit_variogram ends with an undocumented exception", impl["msg"], dict(case, note=impl["msg"]),
                          key="exception:" + impl["msg"].split(":")[0])
        return []
    if impl["err"] == 9:
        ctx.violation("probe: fit_variogram ends with an undocumented exception", impl["msg"], dict(case, note=impl["msg"]),
                      key="exception:" + impl["msg"].split(":")[0])
    isdir = (m.dim > 1) and (len(case["x"]) * m.dim == int(np.prod(case["yshape"])))
    impl["isdir"] = isdir
    k = case["kwargs"]
    sill = k.get("sill", None)
    sk = "none" if sill is None or sill is True else ("current" if sill is False else "value")
    selkinds = tuple(sorted((nme if nme in ("var", "len_scale", "nugget") else "opt",
                             "T" if v is True else "F" if v is False else "fix") for nme, v in k["select"]))
    key = (case["cls"], case["dim"], case["latlon"], isdir, selkinds, sk, type(k.get("anis", True)).__name__,
           ERR_NAMES.get(impl["err"]))
    nontrivial = impl["rec"]["called"] and len(impl["rec"]["evs"]) >= 3
    ctx.count(key if nontrivial else None,
              hist=dict(stage=stage, cls=case["cls"], dim=case["dim"], kind="dir" if isdir else "latlon" if case["latlon"] else "iso",
                        sill=sk, outcome=ERR_NAMES.get(impl["err"]), method=k.get("method"), loss=k.get("loss"),
                        weights=str(type(k.get("weights")).__name__ if not isinstance(k.get("weights"), str) else k.get("weights")),
                        init_guess=str(k.get("init_guess") if not isinstance(k.get("init_guess"), dict) else "dict"),
                        n_evals=min(len(impl["rec"]["evs"]) // 25 * 25, 300), custom_bounds=bool(case.get("bounds"))))
    ctx.sample(dict(cls=case["cls"], dim=case["dim"], latlon=case["latlon"], kwargs=k, start=case["start"],
                    outcome=ERR_NAMES.get(impl["err"]), n_evals=len(impl["rec"]["evs"]),
                    result={kk: (float(v) if np.ndim(v) == 0 else [float(a) for a in v]) for kk, v in impl.get("dict", {}).items()}))
    tie_bad = []
    if drv is not None:
        mod = run_model(drv, case, impl)
        tie_bad = compare_model(ctx, case, impl, mod)
    prop_bad = check_property(ctx, case, impl) if impl["err"] == 0 else []
    if impl["err"] != 9:
        prop_bad = prop_bad + check_call_kwargs(case, impl)
    if fresh is not None:
        ref_case = {k_: v_ for k_, v_ in case.items() if k_ not in ("history", "cond_pos", "cond_val")}
        if case.get("entry") == "krige":
            ref_case["entry"] = "method"
        ref = fresh.call(ref_case, state0) if "x" in ref_case else None
        if ref is not None:
            ctx.count(None, hist=dict(stage="pristine-process reference", entry=case.get("entry", "method")))
            for t in compare_fresh(summarise(impl), ref):
                prop_bad.append(("fresh", "the call does not give what the same call gives in a pristine process "
                                          "(after %d earlier calls in this process): %s" % (len(case.get("history", [])), t)))
    if drv is not None and "r2_data" in impl:
        # the extracted r2 model on (data, fitted curve) vs the returned r2 (sequential vs pairwise summation: 1e-9)
        yv, vv, r2_ref = impl["r2_data"]
        r2m = drv.call("r2_score", yv, vv)
        f32 = any(case.get(kk) in ("float32", "f32-noncontig") for kk in ("xdtype", "ydtype"))
        if not abs(r2m - float(impl["r2"])) <= (1e-4 if f32 else 1e-9) * max(1.0, abs(r2_ref)):
            tie_bad.append("r2: implementation returned %r, the model's r2_score of the fitted curve is %r" % (float(impl["r2"]), r2m))
    for k2, text in prop_bad:
        ctx.violation("probe: property statement on fit_variogram", text, dict(case, note=text), key="prop:" + k2)
    if tie_bad and not prop_bad:
        return tie_bad
    return []


# ------------------------------------------------------------------ systematic cells
def basic_case(rng, cls, dim, truth, start, bounds, kw, kind="iso", nb=14, noise=0.02, geo=1.0, int_x=False):
    """one configuration with data generated from `truth` (kind: iso / dir / latlon)"""
    latlon = kind == "latlon"
    case = dict(cls=cls, dim=3 if latlon else dim, latlon=latlon, geo_scale=geo, truth=dict(truth), isdir=kind == "dir", bounds=bounds)
    tm = build_model(case, "truth")
    L = truth["len_scale"]
    if int_x:
        x = np.arange(1, nb + 1, dtype=float) * max(1.0, float(round(3.0 * L / nb)))
    else:
        x = np.linspace(0.1 * L, 3.0 * L, nb)
    if kind == "dir":
        y = np.array([tm.vario_axis(x, axis=i) for i in range(dim)])
    elif latlon:
        y = tm.vario_yadrenko(x)
    else:
        y = tm.variogram(x)
    if noise:
        y = y * (1.0 + noise * rng.uniform(-1, 1, size=np.shape(y)))
    case.update(start=dict(start), x=[C.fhex(v) for v in x], y=[C.fhex(v) for v in np.asarray(y).ravel()],
                yshape=list(np.shape(y)), kwargs=kw)
    return case


def sill_table_cases(rng, thorough):
    """prescribed sill x every selection pattern of (var, nugget) x customised bounds (lower bounds > 0, tight upper
    bounds) x initial / fixed values above and below the sill: every cell of the sill decision table of _pre_para"""
    cases = []
    classes = [("Exponential", {})] + ([("Matern", {"nu": 1.0}), ("TPLGaussian", {"hurst": 0.5, "len_low": 0.0})] if thorough else
                                       [("TPLGaussian", {"hurst": 0.5, "len_low": 0.0})])
    bsets = [{},
             {"nugget": [0.2, 5.0, "cc"], "var": [0.1, 10.0, "cc"]},
             {"nugget": [0.05, 0.6, "co"], "var": [0.3, 1.6, "oo"]},
             {"nugget": [0.0, 0.4, "cc"]}]
    sel_kinds = ["fit", True, False, "below", "above"]
    for cls, opt in classes:
        sub = cls != "Exponential"
        for bi, bnd in enumerate(bsets):
            for vs in sel_kinds:
                for ns in sel_kinds:
                    for init in ("below", "above"):
                        for sill_kind in ("value", False):
                            if sub and rng.random() < 0.75:
                                continue          # the other classes: a random quarter of the table
                            sill = 1.2
                            truth = dict(var=0.9, len_scale=4.0, nugget=0.3, **opt)
                            vlo, vhi = (bnd.get("var") or [0.0, np.inf])[:2]
                            nlo, nhi = (bnd.get("nugget") or [0.0, np.inf])[:2]
                            clipv = lambda v: float(min(max(v, vlo + 0.01), vhi - 0.01))
                            clipn = lambda v: float(min(max(v, nlo + 0.01), nhi - 0.01)) if nlo > 0 or v > 0 else float(max(v, nlo))
                            start = dict(var=clipv(0.7 if init == "below" else 1.5),
                                         nugget=clipn(0.25 if init == "below" else 1.4), len_scale=3.0, **opt)
                            sel = []
                            if vs != "fit":
                                sel.append(["var", vs if isinstance(vs, bool) else clipv(0.8 if vs == "below" else 1.45)])
                            if ns != "fit":
                                sel.append(["nugget", ns if isinstance(ns, bool) else clipn(0.3 if ns == "below" else 1.3)])
                            for o in opt:
                                sel.append([o, False])
                            if rng.random() < 0.5:
                                sel.reverse()
                            kw = dict(select=sel, sill=(sill if sill_kind == "value" else False), method="trf",
                                      loss=str(rng.choice(["soft_l1", "linear"])))
                            c = basic_case(rng, cls, int(rng.integers(1, 4)), truth, start, {k: list(v) for k, v in bnd.items()}, kw)
                            c["cell"] = "sill-table:%s:b%d:var=%s:nug=%s:init=%s:sill=%s" % (cls, bi, vs, ns, init, sill_kind)
                            cases.append(c)
    return cases


def opt_pattern_cases(rng, thorough):
    """every pattern (fit / deselected / fixed) over the optional arguments of the multi-argument classes, isotropic and
    directional data (the position of each fitted value in popt depends on the whole pattern)"""
    import itertools
    cases = []
    specs = [("TPLStable", dict(hurst=0.5, alpha=1.5, len_low=0.2)), ("TPLGaussian", dict(hurst=0.5, len_low=0.2)),
             ("TPLExponential", dict(hurst=0.4, len_low=0.0)), ("Matern", dict(nu=1.2)), ("Stable", dict(alpha=1.4))]
    for cls, opt in specs:
        for pat in itertools.product(("fit", False, "fix"), repeat=len(opt)):
            for kind in ("iso", "dir"):
                dim = int(rng.integers(2, 4)) if kind == "dir" else int(rng.integers(1, 4))
                truth = dict(var=float(rng.uniform(0.6, 2.0)), len_scale=float(rng.uniform(3, 8)), nugget=float(rng.uniform(0.05, 0.4)), **opt)
                if kind == "dir":
                    truth["anis"] = [float(a) for a in rng.uniform(0.4, 0.9, dim - 1)]
                start = {k: (float(v * rng.uniform(0.8, 1.25)) if k != "anis" and v != 0 else v) for k, v in truth.items()}
                start["hurst"] = min(start.get("hurst", 0.5), 0.9) if "hurst" in start else None
                start = {k: v for k, v in start.items() if v is not None}
                if "alpha" in start:
                    start["alpha"] = min(start["alpha"], 1.95)
                sel = []
                for o, pk in zip(opt, pat):
                    if pk is False:
                        sel.append([o, False])
                    elif pk == "fix":
                        sel.append([o, float(opt[o])])
                for nme in ("var", "len_scale", "nugget"):
                    r = rng.random()
                    if r < 0.2:
                        sel.append([nme, False])
                    elif r < 0.3:
                        sel.append([nme, float(truth[nme])])
                order = rng.permutation(len(sel))
                sel = [sel[i] for i in order]
                kw = dict(select=sel, method="trf", loss="soft_l1", init_guess=str(rng.choice(["default", "current"])))
                c = basic_case(rng, cls, dim, truth, start, {}, kw, kind=kind)
                c["cell"] = "opt-pattern:%s:%s:%s" % (cls, "/".join(str(p_) for p_ in pat), kind)
                cases.append(c)
    if not thorough:
        keep = rng.permutation(len(cases))[:70]
        # the full TPLStable table is always kept (3 optional arguments)
        cases = [c for i, c in enumerate(cases) if i in set(keep) or c["cls"] == "TPLStable"]
    return cases


def dtype_cases(rng, thorough):
    """dtype / container / memory-layout classes of x_data and y_data x isotropic / directional / lat-lon fits"""
    cases = []
    xkinds = ["int64", "int32", "list-int", "float32", "list", "noncontig", "f32-noncontig"]
    ykinds = ["float64", "float32", "list", "noncontig"]
    classes = ["Exponential", "Gaussian", "Spherical", "Matern"] if thorough else ["Exponential", "Spherical"]
    for kind in ("iso", "dir", "latlon"):
        for xk in xkinds:
            for yk in ykinds:
                cls = str(rng.choice(classes))
                dim = int(rng.integers(2, 4)) if kind == "dir" else int(rng.integers(1, 4))
                geo = 6371.0 if kind == "latlon" else 1.0
                L = float(rng.uniform(4.0, 9.0)) * (100.0 if kind == "latlon" else 1.0)
                truth = dict(var=float(rng.uniform(0.6, 2.0)), len_scale=L, nugget=float(rng.uniform(0.05, 0.4)))
                if cls == "Matern":
                    truth["nu"] = 1.0
                if kind == "dir":
                    truth["anis"] = [float(a) for a in rng.uniform(0.4, 0.9, dim - 1)]
                start = {k: (float(v * rng.uniform(0.8, 1.25)) if k not in ("anis", "nu") else v) for k, v in truth.items()}
                sel = [["nu", False]] if cls == "Matern" else []
                if rng.random() < 0.3:
                    sel.append(["nugget", False])
                kw = dict(select=sel, method="trf", loss=str(rng.choice(["soft_l1", "linear"])))
                if "float32" in xk or "f32" in xk:
                    kw["init_guess"] = "current"      # mean(x) * rescale would be a float32 product in the implementation
                else:
                    kw["init_guess"] = str(rng.choice(["default", "current"]))
                if rng.random() < 0.3:
                    kw["weights"] = "inv"
                c = basic_case(rng, cls, dim, truth, start, {}, kw, kind=kind, nb=int(rng.integers(10, 21)), geo=geo,
                               int_x=True, noise=float(rng.choice([0.0, 0.03])))
                c["xdtype"], c["ydtype"] = xk, yk
                c["cell"] = "dtype:%s:x=%s:y=%s" % (kind, xk, yk)
                cases.append(c)
    # bin counts 1, 2, dim, dim+1 (n == dim: a square (dim, n) block of directional variograms; C and Fortran order)
    for kind in ("iso", "dir"):
        for dim in (2, 3):
            for nb in sorted({1, 2, dim, dim + 1}):
                for yk in ("float64", "noncontig"):
                    truth = dict(var=float(rng.uniform(0.6, 2.0)), len_scale=float(rng.uniform(2.0, 4.0)), nugget=0.0)
                    if kind == "dir":
                        truth["anis"] = [float(a) for a in rng.uniform(0.4, 0.9, dim - 1)]
                    start = {k: (float(v * rng.uniform(0.8, 1.25)) if k != "anis" else v) for k, v in truth.items()}
                    kw = dict(select=[["nugget", False]], method="trf", loss="linear", init_guess="current")
                    c = basic_case(rng, "Exponential", dim, truth, start, {}, kw, kind=kind, nb=nb, noise=0.0, int_x=True)
                    c["xdtype"], c["ydtype"] = str(rng.choice(["float64", "int64", "list"])), yk
                    c["cell"] = "dtype:%s:dim%d:nbins=%d:y=%s" % (kind, dim, nb, yk)
                    cases.append(c)
    return cases


def present_case(m, case):
    """rewrite start / bounds of `case` to the PRESENT parameters of the object it is going to be run on"""
    st = dict(var=float(m.var), len_scale=float(m.len_scale), nugget=float(m.nugget))
    for o in m.opt_arg:
        st[o] = float(getattr(m, o))
    if m.dim > 1 and not m.latlon:
        st["anis"] = [float(a) for a in m.anis]
    case["start"] = st
    case["bounds"] = {k: list(v) for k, v in m.arg_bounds.items()}
    case["geo_scale"] = float(m.geo_scale)
    case["latlon"] = bool(m.latlon)
    case["dim"] = int(m.dim)
    return case


def history_step(ctx, drv, case, m, ostate, fresh, shared_cf, earlier):
    """one call of a history on the object m (shared by run_history and replay)"""
    present_case(m, case)
    case["history"] = earlier
    ostate["copy"] = copy.deepcopy(m)
    return run_case(ctx, drv, case, stage="history", model=m, fresh=fresh, shared_cf=shared_cf)


def apply_change(m, ch):
    """in-place change; returns the object to go on with (a deepcopy / pickle round trip gives a NEW object)"""
    import pickle
    if ch[0] == "deepcopy":
        return copy.deepcopy(m)
    if ch[0] == "pickle":
        return pickle.loads(pickle.dumps(m))
    try:
        if ch[0] == "len_scale":
            m.len_scale = ch[1]
        elif ch[0] == "nugget":
            m.nugget = ch[1]
        elif ch[0] == "var":
            m.var = ch[1]
        elif ch[0] == "nugget_bounds":
            m.set_arg_bounds(nugget=[0.0, ch[1], "cc"])
    except ValueError:
        pass
    return m


def run_history(ctx, drv, rng, ostate, fresh=None, steps=4):
    """several fit_variogram calls on ONE model object through both public forms (method / function), mixing weighted and
    unweighted calls, other bin counts, data, selections, sill, curve_fit_kwargs given (one dict object of the caller reused) /
    not given, and in-place changes between the calls.  Every call is compared (i) with FitBook started from the object's
    present parameters, (ii) with the property statement and the documented data / weights / keywords handed to curve_fit,
    (iii) with the very same call in a pristine process on a bit-identical fresh model: a call's result is a function of its
    own arguments and the present parameters only"""
    cls = str(rng.choice(CLASSES))
    first = gen_case(rng, "quick", dict(cls=cls))
    m = build_model(first, "start")
    shared_cf = {"ftol": 1e-10}
    tb_all = []
    earlier = []
    for step in range(steps):
        case = first if step == 0 else gen_case(rng, "quick", dict(cls=cls, dim=first["dim"], latlon=first["latlon"]))
        k = case["kwargs"]
        k["select"] = [sv for sv in k["select"] if sv[0] != "wrong_name"]
        r = rng.random()
        case["entry"] = "function" if r < 0.45 else "method"
        if r > 0.88 and not first["latlon"]:
            # the Krige(..., fit_variogram=True) pipeline on scattered data with the object's present parameters
            case["entry"] = "krige"
            npts = int(rng.integers(40, 90))
            L = float(m.len_scale)
            pos = rng.uniform(0, 8 * L, size=(m.dim, npts))
            val = np.sin(pos.sum(axis=0) / L) + 0.5 * np.cos(pos[0] / (0.6 * L)) + 0.2 * rng.normal(size=npts)
            case["cond_pos"] = [C.fhex(v) for v in pos.ravel()]
            case["cond_val"] = [C.fhex(v) for v in val]
            for kk in ("x", "y", "yshape"):
                case.pop(kk, None)
            case["kwargs"] = dict(select=[])
            k = case["kwargs"]
        # weighted / unweighted alternate more often than in gen_case; array weights have this call's bin count
        r = rng.random()
        if case["entry"] == "krige":
            pass
        elif r < 0.4:
            k["weights"] = None
        elif r < 0.6:
            k["weights"] = "inv"
        elif r < 0.9:
            k["weights"] = [float(v) for v in rng.uniform(0.5, 5.0, len(case["x"]))]
        use_shared = rng.random() < 0.35 and case["entry"] != "krige"
        if use_shared:
            k["cfkw"] = {"ftol": 1e-10}
        case["change"] = None
        if step > 0:
            r = rng.random()
            ch = (("len_scale", float(m.len_scale * rng.uniform(0.5, 2.0))) if r < 0.25 else ("nugget", float(rng.uniform(0.0, 0.5))) if r < 0.4
                  else ("var", float(rng.uniform(0.3, 3.0))) if r < 0.55 else ("nugget_bounds", float(rng.uniform(2.0, 9.0))) if r < 0.7
                  else ("deepcopy", 0.0) if r < 0.8 else ("pickle", 0.0) if r < 0.9 else None)
            if ch:
                m = apply_change(m, ch)
                case["change"] = list(ch)
        case["cell"] = "history:%s:step%d:%s" % (cls, step, case["entry"])
        case["shared_cf"] = use_shared
        tb = history_step(ctx, drv, case, m, ostate, fresh, shared_cf if use_shared else None, list(earlier))
        earlier.append({kk: vv for kk, vv in case.items() if kk != "history"})
        tb_all += ["history step %d: %s" % (step, t) for t in tb]
        if tb and "first" not in ostate:
            ostate["first"] = (case, tb)
    return tb_all


def replay_history(ctx, drv, case, ostate, fresh):
    """re-run the earlier calls of a history (same objects, same order), then the failing call"""
    hist = case.get("history") or []
    seq = hist + [case]
    m = build_model(seq[0], "start")
    shared_cf = {"ftol": 1e-10}
    quiet = C.Ctx(ctx.pid, ctx.tier, ctx.seed)
    quiet.violation = lambda *a, **k: False
    tb = []
    for i, c in enumerate(seq):
        c = copy.deepcopy(c)
        if i > 0 and c.get("change"):
            m = apply_change(m, c["change"])
        last = i == len(seq) - 1
        tb = history_step(ctx if last else quiet, drv, c, m, ostate, fresh if last else None,
                          shared_cf if c.get("shared_cf") else None, seq[:i])
    return tb


def oracle_factory(state):
    """var_factor of the model under test (oracle code 100): the implementation's own function on a scratch copy"""
    def oracle(code, args):
        if code != 100:
            raise RuntimeError("unexpected oracle code %d" % code)
        m = state["copy"]
        object.__setattr__(m, "_len_scale", np.float64(args[0]))      # numpy scalars, as in the implementation (x/0 -> nan)
        for nme, v in zip(m.opt_arg, args[1:]):
            object.__setattr__(m, nme, np.float64(v))
        try:
            return float(m.var_factor())
        except ZeroDivisionError:      # hurst = 0 on a TPL model: 0/0 in the implementation's formula
            return float("nan")
    return oracle


def run(ctx):
    rng = C.Rng(ctx.seed, "C10")
    thorough = ctx.tier == "thorough"
    ctx.rule = ("model class (17) x dim 1-3 / lat-lon x isotropic or directional data x start state x custom bounds x keyword "
                "selections (fit / True / False / fixed value, random order, unknown names) x sill None/True/False/value (also "
                "infeasible) x anis True/False/fixed x init_guess default/current/dict x weights None/inv/callable/array x method x "
                "loss x max_eval; non-trivial = curve_fit was reached and evaluated the curve at least 3 times; distinct = distinct "
                "(class, dim, latlon, directional, selection kinds, sill kind, anis kind, outcome); plus systematic cells: sill decision table "
                "(sill value/False x var and nugget selection kinds x 4 bounds sets with lower bounds > 0 / tight upper bounds x start "
                "below/above the sill), optional-argument selection patterns of the multi-argument classes x iso/directional, "
                "dtype/container/layout classes of x and y x iso/directional/lat-lon with return_r2; 3-call histories on one object")
    ctx.trusted = [
        "Coq 8.16.1 kernel; stdlib Reals axioms as printed per theorem",
        "ExtrOcamlBasic extraction; OCaml float instance (ocaml/proto.ml)",
        "scipy.optimize.curve_fit is an ORACLE: the theorems hold for every finite list of evaluation points and every popt; "
        "its convergence is only probed",
        "var_factor (TPL models) is oracle code 100, a Section variable in the theorems (hypothesis: non-zero); the harness answers "
        "with the implementation's own var_factor",
        "the wrapper around gstools.covmodel.fit.curve_fit in harness/c10.py records exactly the calls scipy makes",
    ]
    ctx.not_proved = [
        "convergence / accuracy of curve_fit (recovery of the generating parameters, r2 -> 1): probed on exact synthetic variograms only",
        "floating point: the R-level theorems (variance through var_factor, var + nugget = sill) ignore rounding; the probes bound the "
        "rounding by a few ulp / 1e-12 relative",
        "argument validation outside the bookkeeping (_check_vario shapes, _set_weights, method names) and the state left behind by a "
        "call that raises",
        "the len_scale setter's re-normalisation of anis (identity on well-formed states) is part of C14, compared by execution here",
    ]
    import time
    t0 = time.time()
    ok = ctx.proofs("props/C10.v")
    okd, out = C.build_driver("c10")
    C.log("[C10] proofs + driver build: %.1fs" % (time.time() - t0))
    drv = None
    ostate = {}
    if okd:
        drv = C.Driver("c10", oracle_factory(ostate))
    ctx.tie["fit.py _pre_para/_pre_init_guess/_init_curve_fit_para/curve/_post_fitting + CovModel setters"] = \
        "hand model + correspondence (recorded curve_fit traces)"
    tie_broken = [] if okd else ["extraction/driver build failed: " + out[-300:]]
    n_cases = 3000 if thorough else 300
    first_tie_case = None
    fresh = FreshRunner()
    if not fresh.ok:
        ctx.notes.append("pristine-process reference runner could not be started; the fresh-state comparison was skipped")
        fresh = None
    try:
        # ---- corpus: past failures first
        import glob
        import os
        for p in sorted(glob.glob(os.path.join(C.VERIF, "corpus", "C10", "*.json"))):
            case = json.load(open(p))
            ostate["copy"] = build_model(case, "start")
            tb = run_case(ctx, drv, case, stage="corpus")
            tie_broken += ["%s: %s" % (os.path.basename(p), t) for t in tb]
        # ---- correspondence + property statement on generated configurations
        for i in range(n_cases):
            force = {}
            if i < len(CLASSES):
                force["cls"] = CLASSES[i]
            case = gen_case(rng, ctx.tier, force)
            ostate["copy"] = build_model(case, "start")
            tb = run_case(ctx, drv, case, fresh=(fresh if i % 5 == 4 else None))
            if tb and first_tie_case is None:
                first_tie_case = (case, tb)
            tie_broken += tb
        # ---- the day-one defect pattern, always exercised: sill fixed, var the only fitted parameter / TPL fixed variance
        for case in defect_pattern_cases(rng):
            ostate["copy"] = build_model(case, "start")
            tb = run_case(ctx, drv, case, stage="pattern")
            tie_broken += tb
        C.log("[C10] correspondence + property probes on %d generated configurations: %.1fs" % (n_cases, time.time() - t0))
        # ---- systematic cells: sill decision table, optional-argument patterns, dtype / layout classes of the data
        for stage_name, gen in (("sill-table", sill_table_cases), ("opt-pattern", opt_pattern_cases), ("dtype", dtype_cases)):
            cs = gen(rng, thorough)
            for case in cs:
                ostate["copy"] = build_model(case, "start")
                tb = run_case(ctx, drv, case, stage=stage_name)
                if tb and first_tie_case is None:
                    first_tie_case = (case, tb)
                tie_broken += tb
            C.log("[C10] %s: %d cells, %.1fs" % (stage_name, len(cs), time.time() - t0))
        # ---- histories on one object
        for h in range(150 if thorough else 25):
            tb = run_history(ctx, drv, rng, ostate, fresh)
            if tb and first_tie_case is None and "first" in ostate:
                first_tie_case = ostate["first"]
            tie_broken += tb
        C.log("[C10] histories: %.1fs" % (time.time() - t0))
        # ---- recovery probes
        for rep in range(6 if thorough else 1):
            for case in recovery_cases(rng, ctx.tier):
                run_recovery(ctx, case)
        for case in bounds_window_cases(rng, thorough):
            run_recovery(ctx, case)
            ostate["copy"] = build_model(case, "start")
            tb = run_case(ctx, drv, copy.deepcopy(case), stage="bounds-window")
            tie_broken += tb
        C.log("[C10] recovery: %.1fs" % (time.time() - t0))
        # ---- malformed calls: must raise ValueError, nothing else
        malformed(ctx, rng)
    finally:
        if drv is not None:
            drv.close()
        if fresh is not None:
            fresh.close()
    if (not ok or tie_broken) and not ctx.violations:
        what = []
        if not ok:
            what.append("proof stage: props/C10.v does not check")
        if tie_broken:
            what.append("correspondence FitBook vs fit_variogram: " + "; ".join(tie_broken[:3]))
        ctx.violation("proof/tie", " | ".join(what),
                      dict(disagreements=tie_broken[:20], case=(first_tie_case[0] if first_tie_case else None)),
                      no_input=True)


def defect_pattern_cases(rng):
    cases = []
    for cls, opt, sel, sill in [
        ("Exponential", {}, [["len_scale", False]], "value"),
        ("Gaussian", {}, [["len_scale", 3.0]], "value"),
        ("Spherical", {}, [], "value"),
        ("Matern", {"nu": 1.0}, [["nu", False]], False),
        ("TPLGaussian", {"hurst": 0.5, "len_low": 0.0}, [["var", 2.0], ["nugget", 0.3], ["hurst", False], ["len_low", False]], None),
        ("TPLGaussian", {"hurst": 0.5, "len_low": 0.0}, [["var", 2.0], ["hurst", False], ["len_low", False]], "value"),
        ("TPLExponential", {"hurst": 0.4, "len_low": 0.5}, [["len_scale", 3.0], ["var", False]], None),
        ("TPLStable", {"hurst": 0.4, "alpha": 1.5, "len_low": 0.0}, [["var", False], ["nugget", False], ["alpha", False]], None),
    ]:
        dim = 2
        truth = dict(var=2.0 if cls.startswith("TPL") else 0.7, len_scale=3.0, nugget=0.3, **opt)
        case = dict(cls=cls, dim=dim, latlon=False, geo_scale=1.0, truth=truth, isdir=False, bounds={})
        tm = build_model(case, "truth")
        x = np.linspace(0.5, 12, 20)
        y = tm.variogram(x) * (1 + 0.02 * rng.uniform(-1, 1, 20))
        start = dict(var=float(truth["var"] * 1.0 if cls.startswith("TPL") else 1.0), len_scale=2.5, nugget=0.1, **opt)
        kw = dict(select=sel, method="trf", loss="soft_l1")
        if sill == "value":
            kw["sill"] = truth["var"] + truth["nugget"]
        elif sill is False:
            kw["sill"] = False
        case.update(start=start, x=[C.fhex(v) for v in x], y=[C.fhex(v) for v in y], yshape=[20], kwargs=kw)
        cases.append(case)
    return cases


def malformed(ctx, rng):
    import gstools as gs
    x = np.linspace(0.5, 10, 12)
    m0 = gs.Exponential(dim=2, var=1.0, len_scale=3.0)
    y = m0.variogram(x)
    calls = [
        ("method", dict(method="wrong")),
        ("init_guess", dict(init_guess="wrong")),
        ("init_guess-key", dict(init_guess={"wrong": 1.0})),
        ("unknown", dict(wrong=False)),
        ("sill-low", dict(sill=-1.0)),
        ("var>sill", dict(sill=0.5, var=3.0)),
        ("nugget>sill", dict(sill=0.5, nugget=3.0)),
    ]
    for nme, kw in calls:
        m = gs.Exponential(dim=2)
        before = snap(m)
        ctx.count(None, hist=dict(stage="malformed", call=nme))
        try:
            m.fit_variogram(x, y, **kw)
            ctx.violation("probe: malformed call", "fit_variogram(%r) did not raise" % (kw,), dict(kwargs=kw), key="malformed:" + nme)
        except ValueError:
            pass
        except Exception as e:  # noqa
            ctx.violation("probe: malformed call", "fit_variogram(%r) raised %s instead of ValueError" % (kw, type(e).__name__),
                          dict(kwargs=kw), key="malformed-kind:" + nme)
    m = gs.Exponential(dim=2)
    try:
        m.fit_variogram(x, np.array([y, y, y]))
        ctx.violation("probe: malformed call", "3 variograms for a 2-d model accepted", {}, key="malformed:shape")
    except ValueError:
        pass
    m = gs.Exponential(latlon=True)
    try:
        m.fit_variogram(x / 10, np.array([y, y, y]))
        ctx.violation("probe: malformed call", "directional variograms accepted for a lat-lon model", {}, key="malformed:latlon")
    except ValueError:
        pass


def replay(ctx, path):
    rec = json.load(open(path))
    print(json.dumps({k: rec[k] for k in ("stage", "what")}, indent=1))
    case = rec.get("case") or {}
    if "cls" in case and "kwargs" in case:
        okd, out = C.build_driver("c10")
        ostate = {"copy": build_model(case, "start")}
        drv = C.Driver("c10", oracle_factory(ostate)) if okd else None
        try:
            if rec["stage"].startswith("probe: recovery"):
                run_recovery(ctx, case)
            elif case.get("history") is not None:
                fr = FreshRunner()
                try:
                    tb = replay_history(ctx, drv, case, ostate, fr if fr.ok else None)
                finally:
                    fr.close()
                if tb and not ctx.violations:
                    ctx.violation("proof/tie", "correspondence: " + "; ".join(tb[:3]), dict(case=case), no_input=True)
            else:
                tb = run_case(ctx, drv, case, stage="replay")
                if tb and not ctx.violations:
                    ctx.violation("proof/tie", "correspondence: " + "; ".join(tb[:3]), dict(case=case), no_input=True)
        finally:
            if drv is not None:
                drv.close()
        ctx.obligations = ctx.obligations or ["replay only"]
        return ctx.finish()
    run(ctx)
    return ctx.finish()
