"""C13 — geographic and spatio-temporal coordinates are consistent across modules.

stages: translate estimator.pyx -> Gallina (dist_haversine; tie 1) ; theorems props/C13.v ; extraction + driver ;
        correspondence of every modelled function (tools/geometric.py sphere + matrix functions, covmodel/tools.py
        set_len_anis / set_model_angles, CovModel construction + len_scale/anis/angles setters + isometrize /
        anisometrize / cov_yadrenko, Krige covariance system before inversion, standard_bins(latlon),
        fit's lag conversion, the compiled estimator's haversine bin membership) ; probes of the property
        statement on the implementation (sphere, chord = haversine against 40-digit mpmath, vario_estimate bin
        membership vs the model's geometry, geo_scale consistency, Krige / SRF / CondSRF vs cov_yadrenko and vs
        the 3-D pipelines, kriging under random rotations of the sphere, round trips, time axis, fit, the documented
        bounding-box rule of standard_bins and its symmetries, unit consistency of Krige(fit_variogram=True) + CondSRF)."""
import json
import math

import numpy as np

import common as C

# ---------------------------------------------------------------------------------------------- tolerances
# (DESIGN 3.4)  All compared quantities go through cos/sin/asin/atan2 of numpy (SIMD kernels) on one side and
# glibc on the other (<= a few ulp apart).  Comparisons are |a-b| <= TOL * scale with scale the natural magnitude
# of the quantity (radius for Cartesian coordinates and chords, 180 for degrees, variance for covariances):
TOL = 1e-12          # > 4000 ulp of the scale: functions evaluated on IDENTICAL inputs
# geometry identities evaluated along two different routes (3-D chord vs haversine) are compared in CHORD space,
# where both routes are well conditioned for every pair of points (near-antipodal pairs are ill conditioned in the
# angle: d(angle) ~ sqrt(eps) ~ 1e-8, while d(chord) ~ eps):
TOL_CHORD = 1e-9     # * radius
RTOL_PIPE = 1e-9     # whole pipelines on identical isotropic positions (same seed / same system)
SEEN = set()


def agree(a, b, scale=1.0, tol=TOL):
    a = np.asarray(a, dtype=float)
    b = np.asarray(b, dtype=float)
    if a.shape != b.shape:
        return False
    if a.size == 0:
        return True
    if not (np.isfinite(a).all() and np.isfinite(b).all()):
        return bool(((a == b) | (np.isnan(a) & np.isnan(b))).all())
    return bool((np.abs(a - b) <= tol * np.maximum(scale, 1e-300)).all())


def hexl(a):
    return [C.fhex(v) for v in np.asarray(a, dtype=float).ravel()]


def viol(ctx, stage, what, case, key, no_input=False):
    """one replay per key"""
    if key in SEEN:
        return
    SEEN.add(key)
    ctx.violation(stage, what, case, key=key, no_input=no_input)


# ---------------------------------------------------------------------------------------------- generators
GEO_NAMES = ["radian", "degree", "km", "3.7"]


def geo_scales():
    import gstools as gs
    return {"radian": float(gs.RADIAN_SCALE), "degree": float(gs.DEGREE_SCALE), "km": float(gs.KM_SCALE), "3.7": 3.7}


SPECIAL_LAT = [0.0, 90.0, -90.0, 45.0, -45.0, 89.999999, -89.999999, 1e-7]
SPECIAL_LON = [0.0, 180.0, -180.0, 360.0, -360.0, 179.999999, -179.999999, 90.0, 270.0, 540.0, 1e-7]


def gen_latlon(rng, n, wide=True, specials=0.25):
    lat = rng.uniform(-90, 90, size=n)
    lon = rng.uniform(-540, 540, size=n) if wide else rng.uniform(-180, 180, size=n)
    for k in range(n):
        if rng.random() < specials:
            lat[k] = SPECIAL_LAT[int(rng.integers(len(SPECIAL_LAT)))]
        if rng.random() < specials:
            lon[k] = SPECIAL_LON[int(rng.integers(len(SPECIAL_LON)))]
    if n >= 4 and rng.random() < 0.5:
        lat[1], lon[1] = lat[0], lon[0]                   # duplicate
        lat[2], lon[2] = -lat[0], lon[0] + 180.0          # antipode
        lat[3], lon[3] = lat[0], lon[0] + 360.0           # same point, wrapped longitude
    return lat, lon


def sep_latlon(rng, n, min_sep_deg=8.0):
    """well separated points (kriging systems with a moderate condition number)"""
    pts = []
    while len(pts) < n:
        la = math.degrees(math.asin(rng.uniform(-1, 1)))
        lo = rng.uniform(-180, 180)
        p = np.array([math.cos(math.radians(la)) * math.cos(math.radians(lo)),
                      math.cos(math.radians(la)) * math.sin(math.radians(lo)), math.sin(math.radians(la))])
        if all(np.linalg.norm(p - q[2]) > 2 * math.sin(math.radians(min_sep_deg) / 2) for q in pts):
            pts.append((la, lo, p))
    return np.array([q[0] for q in pts]), np.array([q[1] for q in pts])


def model_classes():
    import gstools as gs
    return [gs.Gaussian, gs.Exponential, gs.Matern, gs.Stable, gs.Rational]


def gen_cfg(rng, force=None):
    """a model configuration (the part of CovModel C13 is about)"""
    gsc = geo_scales()
    latlon = bool(rng.random() < 0.5)
    temporal = bool(rng.random() < 0.5)
    if force:
        latlon, temporal = force
    gname = GEO_NAMES[int(rng.integers(4))] if latlon else "radian"
    geo = gsc[gname]
    use_sdim = bool(rng.random() < 0.3)
    if latlon:
        dim_in = int(rng.integers(1, 5))
        dim = 3 + int(temporal)
    else:
        dim_in = int(rng.integers(2 if temporal else 1, 5))
        dim = dim_in
    sdim = None
    if use_sdim:
        sdim = max(1, dim_in - int(temporal)) if not latlon else int(rng.integers(1, 4))
        if not latlon:
            dim = sdim + int(temporal)
    noa = dim * (dim - 1) // 2
    unit = geo if latlon else 1.0
    if rng.random() < 0.6:
        ls = [float(unit * rng.uniform(0.1, 1.0))]
    else:
        ls = [float(unit * rng.uniform(0.1, 1.0)) for _ in range(int(rng.integers(1, dim + 2)))]
    na = int(rng.integers(0, dim + 1))
    anis = [float(10 ** rng.uniform(-1, 1)) if rng.random() < 0.8 else 1.0 for _ in range(na)]
    nang = int(rng.integers(0, noa + 2)) if rng.random() < 0.6 else noa
    angles = [float(rng.uniform(-math.pi, math.pi)) for _ in range(nang)]
    cls = int(rng.integers(len(model_classes())))
    return dict(latlon=latlon, temporal=temporal, geo=geo, gname=gname, dim_in=dim_in, sdim=sdim, dim=dim,
                ls=ls, anis=anis, angles=angles, cls=cls, var=float(rng.uniform(0.5, 2.0)), nugget=float(rng.choice([0.0, 0.1])))


def cfg_key(cfg):
    return ("ll" if cfg["latlon"] else "xy") + ("+t" if cfg["temporal"] else "") + ":" + cfg["gname"] + ":d%d" % cfg["dim"]


def make_model(cfg):
    cls = model_classes()[cfg["cls"]]
    kw = dict(latlon=cfg["latlon"], temporal=cfg["temporal"], geo_scale=cfg["geo"], var=cfg["var"], nugget=cfg["nugget"],
              len_scale=cfg["ls"][0] if len(cfg["ls"]) == 1 else list(cfg["ls"]))
    if cfg["anis"]:
        kw["anis"] = list(cfg["anis"])
    if cfg["angles"]:
        kw["angles"] = list(cfg["angles"])
    if cfg["sdim"] is not None:
        kw["spatial_dim"] = cfg["sdim"]
    else:
        kw["dim"] = cfg["dim_in"]
    return cls(**kw)


def margs(cfg):
    """driver arguments of `construct` for a configuration (defaults of CovModel: anis=1.0, angles=0.0)"""
    return [("n", cfg["dim_in"]), ("z", -1 if cfg["sdim"] is None else cfg["sdim"]), bool(cfg["latlon"]), bool(cfg["temporal"]),
            float(cfg["geo"]), np.array(cfg["ls"], dtype=float), np.array(cfg["anis"] if cfg["anis"] else [1.0], dtype=float),
            np.array(cfg["angles"] if cfg["angles"] else [0.0], dtype=float)]


def state_of(m):
    return (int(m.dim), float(m.geo_scale), float(m.len_scale), np.array(m.anis, dtype=float), np.array(m.angles, dtype=float),
            int(m.field_dim), int(m.spatial_dim))


def state_agree(a, b):
    if a is None or b is None:
        return a is None and b is None
    return (a[0] == b[0] and agree(a[1], b[1], abs(a[1])) and agree(a[2], b[2], abs(a[2]))
            and agree(a[3], b[3], np.abs(a[3])) and agree(a[4], b[4], 1.0) and a[5] == b[5] and a[6] == b[6])


def cfg_json(cfg):
    return {k: (v if not isinstance(v, (np.floating, np.integer)) else v.item()) for k, v in cfg.items()}


# ---------------------------------------------------------------------------------------------- independent geometry
def mp_central_angle(lat1, lon1, lat2, lon2):
    """great-circle angle with 40 digits (vector formula atan2(|p x q|, p.q): well conditioned everywhere)"""
    import mpmath as mp
    with mp.workdps(40):
        d = mp.pi / 180
        a1, o1, a2, o2 = [mp.mpf(float(v)) * d for v in (lat1, lon1, lat2, lon2)]
        p = (mp.cos(a1) * mp.cos(o1), mp.cos(a1) * mp.sin(o1), mp.sin(a1))
        q = (mp.cos(a2) * mp.cos(o2), mp.cos(a2) * mp.sin(o2), mp.sin(a2))
        cr = (p[1] * q[2] - p[2] * q[1], p[2] * q[0] - p[0] * q[2], p[0] * q[1] - p[1] * q[0])
        n = mp.sqrt(cr[0] ** 2 + cr[1] ** 2 + cr[2] ** 2)
        dt = p[0] * q[0] + p[1] * q[1] + p[2] * q[2]
        ang = mp.atan2(n, dt)
        return float(ang), float(2 * mp.sin(ang / 2))


def np_haversine(lat, lon):
    """pairwise great-circle angles, haversine formula in numpy (independent of the kernel and the model)"""
    la = np.deg2rad(lat)[:, None]
    lo = np.deg2rad(lon)[:, None]
    a = np.sin((la.T - la) / 2) ** 2 + np.cos(la) * np.cos(la.T) * np.sin((lo.T - lo) / 2) ** 2
    a = np.clip(a, 0.0, 1.0)
    return 2 * np.arctan2(np.sqrt(a), np.sqrt(1 - a))


KF_ANTIPODAL = "vario_estimate:latlon:antipodal-pair:haversine-arg>1:nan-distance-counted-in-every-bin"


def kernel_hav_arg(lat1, lon1, lat2, lon2):
    """the haversine argument exactly as variogram/estimator.pyx computes it (same libm calls, same order)"""
    d2r = math.pi / 180.0
    dla = (lat2 - lat1) * d2r
    dlo = (lon2 - lon1) * d2r
    return math.pow(math.sin(dla / 2.0), 2) + math.cos(lat1 * d2r) * math.cos(lat2 * d2r) * math.pow(math.sin(dlo / 2.0), 2)


def random_rotation(rng):
    q, r = np.linalg.qr(rng.normal(size=(3, 3)))
    q = q * np.sign(np.diag(r))
    if np.linalg.det(q) < 0:
        q[:, 0] = -q[:, 0]
    return q


# ---------------------------------------------------------------------------------------------- correspondence
def corr_sphere(ctx, drv, rng, n_cases):
    """latlon2pos / pos2latlon / chordal <-> great circle / haversine kernel"""
    from gstools.tools import geometric as G
    import kernels as K
    gsc = geo_scales()
    try:
        src = K.load_src()["estimator"]
    except Exception as e:  # source interpretation unavailable: the translated tie still stands
        src = None
        ctx.notes.append("pyx2py interpretation unavailable: %r" % (e,))
    so = K.load_so()["estimator"]
    for it in range(n_cases):
        gname = GEO_NAMES[it % 4]
        r = gsc[gname]
        temporal = bool(it % 3 == 0)
        ts = float(10 ** rng.uniform(-1, 1))
        n = 6
        lat, lon = gen_latlon(rng, n)
        t = rng.normal(size=n) * 5
        pts = np.vstack([lat, lon] + ([t] if temporal else []))
        ref = G.latlon2pos(pts, radius=r, temporal=temporal, time_scale=ts)
        back = G.pos2latlon(ref, radius=r, temporal=temporal, time_scale=ts)
        for k in range(n):
            ctx.count(("sphere", gname, temporal, "special" if (abs(lat[k]) in (90.0, 0.0) or lon[k] in SPECIAL_LON) else "random"),
                      hist=dict(op="latlon2pos/pos2latlon", geo_scale=gname, temporal=temporal))
            mp_ = drv.call("latlon2pos", r, temporal, ts, pts[:, k].copy())
            sc = np.array([r, r, r] + ([max(abs(t[k] / ts), 1e-300)] if temporal else []))
            case = dict(radius=r, temporal=temporal, time_scale=ts, point=hexl(pts[:, k]), impl=hexl(ref[:, k]), model=hexl(mp_))
            if not agree(mp_, ref[:, k], sc):
                viol(ctx, "correspondence: latlon2pos", "model and tools.geometric.latlon2pos differ", case, "corr:latlon2pos", no_input=True)
            mb = drv.call("pos2latlon", r, temporal, ts, ref[:, k].copy())
            sc = np.array([180.0, 180.0] + ([max(abs(t[k]), 1e-300)] if temporal else []))
            if not agree(mb, back[:, k], sc):
                viol(ctx, "correspondence: pos2latlon", "model and tools.geometric.pos2latlon differ",
                     dict(case, impl_back=hexl(back[:, k]), model_back=hexl(mb)), "corr:pos2latlon", no_input=True)
        # off-sphere / clamped inputs of pos2latlon
        p3 = rng.normal(size=3) * r * 2
        mb = drv.call("pos2latlon", r, False, 1.0, p3)
        rb = G.pos2latlon(p3.reshape(3, 1), radius=r)[:, 0]
        ctx.count(None, hist=dict(op="pos2latlon(off-sphere)"))
        if not agree(mb, rb, 180.0):
            viol(ctx, "correspondence: pos2latlon (clamp)", "model and pos2latlon differ off the sphere",
                 dict(radius=r, p=hexl(p3), impl=hexl(rb), model=hexl(mb)), "corr:pos2latlon-clamp", no_input=True)
        # distance conversions, incl. out-of-range values (truncated)
        for d in list(rng.uniform(0, 2 * r, size=3)) + [0.0, 2 * r, 2.5 * r, -0.3 * r]:
            ctx.count(("c2g", gname, "in" if 0 <= d <= 2 * r else "out"), hist=dict(op="chordal<->great_circle"))
            a, b = drv.call("chordal_to_great_circle", float(d), r), float(G.chordal_to_great_circle(d, r))
            a2, b2 = drv.call("great_circle_to_chordal", float(d), r), float(G.great_circle_to_chordal(d, r))
            if not (agree(a, b, math.pi * r) and agree(a2, b2, 2 * r)):
                viol(ctx, "correspondence: chordal/great-circle", "model and tools.geometric conversions differ",
                     dict(radius=r, d=C.fhex(d), impl=[C.fhex(b), C.fhex(b2)], model=[C.fhex(a), C.fhex(a2)]), "corr:c2g", no_input=True)
        # haversine: translated kernel vs source interpretation (same libm: <= 4 ulp) vs compiled .so (bin membership)
        pos = np.ascontiguousarray(np.vstack([lat, lon]))
        for (i, j) in [(0, 1), (0, 2), (0, 3), (1, 4), (2, 5), (4, 5), (3, 3)]:
            dm = drv.call("dist_haversine", pos, ("n", i), ("n", j))
            ctx.count(("haversine", "dup" if (lat[i], lon[i]) == (lat[j], lon[j]) else "pair"), hist=dict(op="dist_haversine"))
            case = dict(pos=hexl(pos), i=i, j=j, model=C.fhex(dm))
            if src is not None:
                try:
                    ds = float(src.dist_haversine(2, pos, i, j))
                except ValueError:      # math.sqrt(negative): the C kernel returns NaN here
                    ds = float("nan")
                if C.ulp_diff(dm, ds) > 4 and abs(dm - ds) > 1e-15:
                    viol(ctx, "correspondence: dist_haversine (translated) vs source interpretation",
                         "translated kernel and plain interpretation of estimator.pyx differ", dict(case, src=C.fhex(ds)),
                         "corr:haversine-src", no_input=True)
            if i != j and not math.isnan(dm):
                # compiled kernel: the pair must fall into the bin [d(1-1e-12), d(1+1e-12)) around the model distance
                f = np.array([[0.0] * 6])
                f[0, i], f[0, j] = 1.0, 3.0
                sub = np.ascontiguousarray(pos[:, [i, j]])
                fv = np.ascontiguousarray(f[:, [i, j]])
                lo_e, hi_e = dm * (1 - 1e-12) - 1e-300, dm * (1 + 1e-12) + 1e-15
                edges = np.array([max(lo_e, 0.0) if dm > 0 else 0.0, hi_e])
                est, cnt = so.unstructured(fv, edges, sub, "m", "h")
                if int(cnt[0]) != 1:
                    viol(ctx, "correspondence: compiled estimator (haversine) vs translated kernel",
                         "the compiled kernel does not put the pair into the bin around the model's great-circle distance",
                         dict(case, edges=hexl(edges), counts=int(cnt[0])), "corr:haversine-so", no_input=True)


def corr_state(ctx, drv, rng, n_cases):
    """construct / setters / set_len_anis / set_model_angles / isometrize / anisometrize / matrices"""
    from gstools.covmodel import tools as CT
    from gstools.tools import geometric as G
    for it in range(n_cases):
        cfg = gen_cfg(rng)
        bad = it % 9 == 8
        if bad:   # malformed stream: a non-positive ratio must raise / give None
            cfg["anis"] = (cfg["anis"] + [1.0, 1.0, 1.0, 1.0])[: cfg["dim"] - 1] or [1.0]
            cfg["anis"][-1] = float(rng.choice([0.0, -1.0, float("nan")]))
        key = cfg_key(cfg)
        ctx.count(("state", key, "bad" if bad else "ok", len(cfg["ls"]) > 1), hist=dict(op="construct", config=key, dim=cfg["dim"]))
        ctx.sample(dict(config=cfg_json(cfg)))
        try:
            m = make_model(cfg)
            st = state_of(m)
        except ValueError:
            m, st = None, None
        ms = drv.call("construct", *margs(cfg))
        case = dict(config=cfg_json(cfg), impl=None if st is None else [st[0], st[1], st[2], list(st[3]), list(st[4]), st[5], st[6]],
                    model=None if ms is None else [ms[0], ms[1], ms[2], list(ms[3]), list(ms[4]), ms[5], ms[6]])
        if not state_agree(st, ms):
            viol(ctx, "correspondence: CovModel construction (dim/len_scale/anis/angles)", "model state differs from CovModel", case,
                 "corr:construct", no_input=True)
            continue
        if m is None or cfg["dim"] == 1 and cfg["temporal"]:
            continue
        # direct functions
        a1 = CT.set_model_angles(cfg["dim"], cfg["angles"] if cfg["angles"] else 0.0, cfg["latlon"], cfg["temporal"])
        a2 = drv.call("set_model_angles", ("n", cfg["dim"]), margs(cfg)[7], cfg["latlon"], cfg["temporal"])
        if not agree(a1, a2, 1.0):
            viol(ctx, "correspondence: set_model_angles", "model and covmodel.tools.set_model_angles differ",
                 dict(case, impl_angles=hexl(a1), model_angles=hexl(a2)), "corr:set_model_angles", no_input=True)
        # setter sequence (len_scale / anis / angles / dim up and down); temporal metric models often start with ALL angles set
        ops, desc = [], []
        mm = m
        ok = True
        names = ["len_scale", "anis", "angles", "dim"]
        for _ in range(int(rng.integers(1, 6))):
            kind = int(rng.integers(4))
            unit = cfg["geo"] if cfg["latlon"] else 1.0
            dnow = int(mm.dim)
            try:
                if kind == 0:
                    v = [float(unit * rng.uniform(0.1, 1.0)) for _ in range(int(rng.integers(1, 3)) if rng.random() < 0.4 else 1)]
                    mm.len_scale = v[0] if len(v) == 1 else v
                elif kind == 1:
                    v = [float(10 ** rng.uniform(-1, 1)) for _ in range(int(rng.integers(1, dnow + 1)))]
                    mm.anis = v
                elif kind == 2:
                    full = dnow * (dnow - 1) // 2
                    v = [float(rng.uniform(-3, 3)) for _ in range(full + 1 if rng.random() < 0.5 else int(rng.integers(1, 4)))]
                    mm.angles = v
                else:
                    v = int(rng.integers(2 if cfg["temporal"] else 1, 6))
                    mm.dim = v
            except ValueError:
                ok = False
            ops += [("z", kind), np.array(v, dtype=float)] if kind < 3 else [("z", 3), ("n", v)]
            desc.append([names[kind], v])
            ctx.count(("setter", key, kind, dnow), hist=dict(op="setter:" + names[kind]))
            if not ok:
                break
            ms = drv.call("steps", *(margs(cfg) + ops))
            st = state_of(mm)
            # the property itself on the implementation's state (concrete history if it fails)
            bad_state = state_defect(mm)
            if bad_state:
                viol(ctx, "probe: model state after a setter history", bad_state,
                     dict(case, history=desc, dim=st[0], anis=list(st[3]), angles=list(st[4])), "probe:state-history")
                ok = False
                break
            if not state_agree(st, ms):
                viol(ctx, "correspondence: CovModel setters (len_scale/anis/angles/dim)", "model state differs from CovModel after setters",
                     dict(case, ops=desc, impl=[st[0], st[1], st[2], list(st[3]), list(st[4])],
                          model=None if ms is None else [ms[0], ms[1], ms[2], list(ms[3]), list(ms[4])]), "corr:setters", no_input=True)
                ok = False
                break
        # coordinate maps on the (fresh) configuration
        m = make_model(cfg)
        n = 4
        if cfg["latlon"]:
            lat, lon = gen_latlon(rng, n)
            pts = np.vstack([lat, lon] + ([rng.normal(size=n) * 3] if cfg["temporal"] else []))
        else:
            pts = rng.normal(size=(cfg["dim"], n)) * 3
        iso = m.isometrize(pts)
        mi = drv.call("isometrize", *(margs(cfg) + [np.ascontiguousarray(pts.T)]))
        sc = cfg["geo"] if cfg["latlon"] else np.abs(pts).sum() * max(1.0, float(np.max(1 / np.asarray(m.anis)))) if cfg["dim"] > 1 else np.abs(pts).sum()
        ctx.count(("isometrize", key), hist=dict(op="isometrize/anisometrize", config=key))
        if mi is None or not agree(np.asarray(mi).T, iso, np.maximum(sc, np.abs(iso))):
            viol(ctx, "correspondence: CovModel.isometrize", "model and CovModel.isometrize differ",
                 dict(case, pts=hexl(pts), impl=hexl(iso), model=None if mi is None else hexl(np.asarray(mi).T)), "corr:isometrize", no_input=True)
        ani = m.anisometrize(iso)
        ma = drv.call("anisometrize", *(margs(cfg) + [np.ascontiguousarray(iso.T)]))
        sc2 = 180.0 if cfg["latlon"] else np.abs(iso).sum() * max(1.0, float(np.max(np.asarray(m.anis)))) if cfg["dim"] > 1 else np.abs(iso).sum()
        if ma is None or not agree(np.asarray(ma).T, ani, np.maximum(sc2, np.abs(ani))):
            viol(ctx, "correspondence: CovModel.anisometrize", "model and CovModel.anisometrize differ",
                 dict(case, iso=hexl(iso), impl=hexl(ani), model=None if ma is None else hexl(np.asarray(ma).T)), "corr:anisometrize", no_input=True)
        # matrices of temporal models (dims 1-4)
        if not cfg["latlon"]:
            d = cfg["dim"]
            ang = np.asarray(m.angles, dtype=float)
            an = np.asarray(m.anis, dtype=float)
            for name, fn, args, dargs in [
                ("matrix_rotate", G.matrix_rotate, (d, ang), [("n", d), ang]),
                ("matrix_derotate", G.matrix_derotate, (d, ang), [("n", d), ang]),
                ("matrix_isometrize", G.matrix_isometrize, (d, ang, an), [("n", d), ang, an if d > 1 else np.array([])]),
                ("matrix_anisometrize", G.matrix_anisometrize, (d, ang, an), [("n", d), ang, an if d > 1 else np.array([])]),
            ]:
                ref = fn(*args)
                got = drv.call(name, *dargs)
                s = max(1.0, float(np.max(an)) if d > 1 else 1.0, float(np.max(1 / an)) if d > 1 else 1.0)
                ctx.count(("matrix", name, d, cfg["temporal"]), hist=dict(op=name, dim=d))
                if not agree(got, ref, s):
                    viol(ctx, "correspondence: " + name, "model and tools.geometric.%s differ" % name,
                         dict(case, impl=hexl(ref), model=hexl(got)), "corr:" + name, no_input=True)


def state_defect(m):
    """the C13 state invariant evaluated on a CovModel: None if it holds, else what is broken"""
    d = int(m.dim)
    ang = np.asarray(m.angles, dtype=float)
    an = np.asarray(m.anis, dtype=float)
    if len(an) != d - 1 or len(ang) != d * (d - 1) // 2:
        return "wrong number of ratios / angles for dim %d" % d
    if m.latlon:
        if d != 3 + int(m.temporal) or list(an[:2]) != [1.0, 1.0] or np.any(ang != 0):
            return "lat-lon model without dim 3(+1) / spatial ratios 1 / zero angles"
        return None
    if m.temporal and d >= 2:
        if np.any(ang[(d - 1) * (d - 2) // 2:] != 0):
            return "temporal model with a non-zero rotation angle in a plane containing the time axis"
        e = np.zeros((d, 1))
        e[-1, 0] = 1.0
        iso = m.isometrize(e)[:, 0]
        exp = np.zeros(d)
        exp[-1] = 1.0 / an[-1]
        if not agree(iso, exp, abs(exp[-1]), 1e-14):
            return "isometrize does not map a pure time lag to the last axis scaled by 1/anis[-1]"
    return None


class CovOracle:
    """answers the driver's covariance queries with the very CovModel under test"""

    def __init__(self):
        self.model = None

    def __call__(self, code, args):
        if code == 100:
            return float(self.model.covariance(np.array([args[0]]))[0])
        if code == 101:
            return float(self.model.cov_nugget(np.array([args[0]]))[0])
        raise ValueError("unknown oracle code %d" % code)


def raw_krige_system(krige, tgt):
    """the kriging matrix BEFORE inversion and the right-hand sides, as the implementation builds them"""
    krige._inv = lambda mat: mat
    try:
        mat = np.array(krige._get_krige_mat())
    finally:
        del krige._inv
    iso, _ = krige.pre_pos(tgt, "unstructured")
    vecs = np.array(krige._get_krige_vecs(iso, (0, None), np.array([]), False))
    return mat, vecs


def corr_krige(ctx, drv, ora, rng, n_cases):
    import gstools as gs
    for it in range(n_cases):
        cfg = gen_cfg(rng, force=(True, bool(it % 2)))
        cfg["ls"] = [cfg["ls"][0]]
        cfg["anis"] = [1.0, 1.0, float(10 ** rng.uniform(-0.5, 0.5))] if cfg["temporal"] else []
        m = make_model(cfg)
        ora.model = m
        nc, nt = int(rng.integers(2, 6)), int(rng.integers(1, 4))
        lat, lon = gen_latlon(rng, nc + nt)
        tt = rng.uniform(0, 3, size=nc + nt) * cfg["ls"][0]
        pts = np.vstack([lat, lon] + ([tt] if cfg["temporal"] else []))
        cond, tgt = pts[:, :nc], pts[:, nc:]
        val = rng.normal(size=nc)
        unbiased = bool(rng.random() < 0.5)
        exact = bool(rng.random() < 0.5)
        err_kind = "nugget" if exact or rng.random() < 0.5 else "vec"
        cond_err = "nugget" if err_kind == "nugget" else list(rng.uniform(0.01, 0.2, size=nc))
        key = cfg_key(cfg)
        ctx.count(("krige-system", key, unbiased, exact, err_kind), hist=dict(op="krige system", config=key))
        kr = gs.krige.Krige(m, cond, val, unbiased=unbiased, exact=exact, cond_err=cond_err)
        mat, vecs = raw_krige_system(kr, tgt)
        errv = np.full(nc, m.nugget) if err_kind == "nugget" else np.array(cond_err)
        got = drv.call("krige_system", *(margs(cfg) + [unbiased, exact, errv, np.ascontiguousarray(cond.T), np.ascontiguousarray(tgt.T)]))
        case = dict(config=cfg_json(cfg), cond=hexl(cond), tgt=hexl(tgt), unbiased=unbiased, exact=exact, cond_err=hexl(errv))
        sc = m.var + m.nugget + 1.0
        if got is None or not (agree(got[0], mat, sc, 1e-9) and agree(got[1], vecs, sc, 1e-9)):
            viol(ctx, "correspondence: Krige system (matrix before inversion, right-hand sides)",
                 "model and Krige._get_krige_mat/_get_krige_vecs differ",
                 dict(case, impl_mat=hexl(mat), impl_vecs=hexl(vecs), model=None if got is None else [hexl(got[0]), hexl(got[1])]),
                 "corr:krige-system", no_input=True)
        # cov_yadrenko
        z = float(rng.uniform(0, math.pi * cfg["geo"]))
        a, b = drv.call("cov_yadrenko", cfg["geo"], z), float(m.cov_yadrenko(z))
        if not agree(a, b, sc, 1e-9):
            viol(ctx, "correspondence: cov_yadrenko", "model and CovModel.cov_yadrenko differ",
                 dict(case, zeta=C.fhex(z), impl=C.fhex(b), model=C.fhex(a)), "corr:cov_yadrenko", no_input=True)


def corr_bins_fit(ctx, drv, rng, n_cases):
    import gstools as gs
    from gstools.covmodel import fit as F
    gsc = geo_scales()
    for it in range(n_cases):
        gname = GEO_NAMES[it % 4]
        g = gsc[gname]
        n = int(rng.integers(2, 12))
        lat, lon = gen_latlon(rng, n)
        ctx.count(("standard_bins", gname, n), hist=dict(op="standard_bins(latlon)", geo_scale=gname))
        edges = gs.standard_bins((lat, lon), latlon=True, geo_scale=g)
        md = drv.call("latlon_bins_max_dist", g, np.ascontiguousarray(np.vstack([lat, lon]).T))
        # conditioning of arcsin at x = diam / (2 g): d(asin) = dx / sqrt(1 - x^2) (a bounding box spanning the whole sphere has
        # x = 1 - O(eps), where one ulp of the box diagonal moves the result by ~ sqrt(eps))
        xq = min(1.0, math.sin(min(3 * edges[-1] / (2 * g), math.pi / 2)))
        tol_b = 1e-12 + 8e-16 / math.sqrt(max(1 - xq * xq, 4e-16))
        if not agree(edges[-1], md, math.pi * g, tol_b) or edges[0] != 0.0:
            viol(ctx, "correspondence: standard_bins(latlon)", "model max_dist and standard_bins differ",
                 dict(geo_scale=g, lat=hexl(lat), lon=hexl(lon), impl=C.fhex(edges[-1]), model=C.fhex(md)), "corr:standard_bins", no_input=True)
        # fit: great-circle lags -> chordal lags
        m = gs.Exponential(latlon=True, geo_scale=g, len_scale=0.3 * g)
        x = np.sort(rng.uniform(0, math.pi * g, size=5))
        xd, _, _ = F._check_vario(m, x, np.zeros(5))
        mx = [drv.call("great_circle_to_chordal", float(v), g) for v in x]
        ctx.count(("fit-lags", gname), hist=dict(op="fit lag conversion"))
        if not agree(xd, mx, 2 * g):
            viol(ctx, "correspondence: fit_variogram lag conversion", "fit does not convert great-circle lags with great_circle_to_chordal",
                 dict(geo_scale=g, x=hexl(x), impl=hexl(xd), model=hexl(mx)), "corr:fit-lags", no_input=True)


# ---------------------------------------------------------------------------------------------- probes
def probe_geometry(ctx, rng, n_cases):
    """on the sphere; chord == chord of the great-circle distance (mpmath); estimator kernel == same; round trips"""
    import gstools as gs
    import kernels as K
    so = K.load_so()["estimator"]
    gsc = geo_scales()
    for it in range(n_cases):
        gname = GEO_NAMES[it % 4]
        g = gsc[gname]
        temporal = bool(it % 2)
        tr = float(10 ** rng.uniform(-1, 1))
        m = gs.Gaussian(latlon=True, temporal=temporal, geo_scale=g, len_scale=0.5 * g, anis=[1, 1, tr] if temporal else 1.0)
        n = 8
        lat, lon = gen_latlon(rng, n)
        t = rng.normal(size=n) * 4
        pts = np.vstack([lat, lon] + ([t] if temporal else []))
        case = dict(geo_scale=g, temporal=temporal, time_ratio=tr, pts=hexl(pts))
        try:
            iso = m.isometrize(pts)
            back = m.anisometrize(iso)
            iso2 = m.isometrize(back)
        except Exception as e:
            viol(ctx, "probe: isometrize raises", "isometrize/anisometrize raised %r" % (e,), case, "probe:exception")
            continue
        ctx.count(("geometry", gname, temporal), n=n, hist=dict(probe="sphere/roundtrip", geo_scale=gname, temporal=temporal))
        # 1. on the sphere of radius geo_scale
        rad = np.linalg.norm(iso[:3], axis=0)
        if not agree(rad, np.full(n, g), g):
            viol(ctx, "probe: on sphere", "isometrized lat-lon positions are not on the sphere of radius geo_scale",
                 dict(case, radii=hexl(rad)), "probe:on-sphere")
        # 2. time axis appended, divided by the last ratio only
        if temporal and not (iso.shape[0] == 4 and agree(iso[3], t / tr, np.abs(t / tr), 1e-15)):
            viol(ctx, "probe: time axis (lat-lon)", "time coordinate is not t / anis[-1]", dict(case, iso_t=hexl(iso[3])), "probe:time-latlon")
        if temporal:
            pts2 = pts.copy()
            pts2[2] += 7.0
            if not np.array_equal(m.isometrize(pts2)[:3], iso[:3]):
                viol(ctx, "probe: time axis (lat-lon)", "spatial coordinates depend on the time coordinate", case, "probe:time-latlon-mix")
        # 3. to 3-D and back to 3-D is the identity; to lat-lon and back: identity modulo 360 away from the poles
        # conditioning: the latitude is recovered from z/r by arcsin, whose error is ~ eps / cos(lat) (at most ~ sqrt(eps)
        # next to the poles, where z/r = 1 - O(eps) cannot resolve the latitude); the 3-D point moves by radius * that
        cl_all = np.maximum(np.cos(np.radians(lat)), 1e-8)
        if not agree(iso2, iso, np.maximum(g, np.abs(iso)), TOL + 4e-16 / cl_all):
            viol(ctx, "probe: latlon2pos(pos2latlon(P)) = P", "3-D -> lat-lon -> 3-D is not the identity on the sphere",
                 dict(case, iso=hexl(iso), iso2=hexl(iso2)), "probe:pos-latlon-pos")
        for k in range(n):
            cl = math.cos(math.radians(lat[k]))
            # conditioning: d(lat) ~ eps / cos(lat) (asin near +-1), d(lon) ~ eps / cos(lat); poles: longitude not recoverable
            tol = 1e-12 + 1e-13 / max(cl, 1e-3) ** 2
            if abs(back[0, k] - lat[k]) > tol * 180:
                viol(ctx, "probe: latitude round trip", "pos2latlon(latlon2pos(p)) changes the latitude",
                     dict(case, k=k, lat=C.fhex(lat[k]), back=C.fhex(back[0, k])), "probe:lat-roundtrip")
            if cl > 1e-3:
                dl = (back[1, k] - lon[k] + 180.0) % 360.0 - 180.0
                if min(abs(dl), 360 - abs(dl)) > tol * 360:
                    viol(ctx, "probe: longitude round trip", "pos2latlon(latlon2pos(p)) changes the longitude (mod 360)",
                         dict(case, k=k, lon=C.fhex(lon[k]), back=C.fhex(back[1, k])), "probe:lon-roundtrip")
                if -180 < lon[k] <= 180 and abs(back[1, k] - lon[k]) > tol * 360 and abs(abs(lon[k]) - 180) > 1e-9:
                    viol(ctx, "probe: longitude round trip", "pos2latlon(latlon2pos(p)) != p for lon in (-180, 180]",
                         dict(case, k=k, lon=C.fhex(lon[k]), back=C.fhex(back[1, k])), "probe:lon-roundtrip-exact")
            if temporal and abs(back[2, k] - t[k]) > 1e-14 * max(1.0, abs(t[k])):
                viol(ctx, "probe: time round trip", "anisometrize(isometrize(p)) changes t", dict(case, k=k), "probe:time-roundtrip")
        # 4. chord of the isometrized points == chord of the great-circle distance (40 digits) == model's conversion of
        #    the ESTIMATOR's distance (bin membership of the compiled kernel around the independent distance)
        for (i, j) in [(0, 1), (0, 2), (0, 3), (4, 5), (6, 7), (1, 6)]:
            ang, ch = mp_central_angle(lat[i], lon[i], lat[j], lon[j])
            d3 = float(np.linalg.norm(iso[:3, i] - iso[:3, j]))
            ctx.count(("chord", gname, "dup" if ang == 0 else ("anti" if ang > 3.14159 else "pair")), hist=dict(probe="chord=haversine"))
            pc = dict(case, i=i, j=j, angle=C.fhex(ang), chord3d=C.fhex(d3))
            if abs(d3 - g * ch) > TOL_CHORD * g:
                viol(ctx, "probe: chord = haversine", "Euclidean distance of isometrized points != chord of the great-circle distance",
                     dict(pc, expected=C.fhex(g * ch)), "probe:chord")
            gc = float(gs.tools.geometric.chordal_to_great_circle(d3, g))
            if abs(float(gs.tools.geometric.great_circle_to_chordal(g * ang, g)) - d3) > TOL_CHORD * g:
                viol(ctx, "probe: great_circle_to_chordal", "great_circle_to_chordal(geo_scale * angle) != 3-D chord", pc, "probe:g2c")
            if abs(2 * g * math.sin(gc / (2 * g)) - d3) > TOL_CHORD * g:
                viol(ctx, "probe: chordal_to_great_circle", "chordal_to_great_circle is not the inverse of the chord map", pc, "probe:c2g")
            # covariance is Lipschitz (~ var / len_scale) in the chord; the two chords agree to TOL_CHORD * g
            if not abs(float(m.cov_yadrenko(g * ang)) - float(m.covariance(d3))) <= 10 * TOL_CHORD * m.var * (g / m.len_scale):
                viol(ctx, "probe: cov_yadrenko", "cov_yadrenko(great-circle distance) != covariance(3-D chord)", pc, "probe:yadrenko")
            # compiled estimator (bins in units of geo_scale as vario_estimate passes them: edges / geo_scale)
            if 1e-6 < ang < math.pi - 1e-3:
                sub = np.ascontiguousarray(np.vstack([lat[[i, j]], lon[[i, j]]]))
                w = 1e-9 * ang + 1e-13    # deg->rad rounding of the coordinates alone moves the angle by ~1e-15
                edges = np.array([ang - w, ang + w])
                _, cnt = so.unstructured(np.array([[0.0, 1.0]]), edges, sub, "m", "h")
                if int(cnt[0]) != 1:
                    viol(ctx, "probe: estimator great-circle distance", "compiled haversine distance differs from the great-circle angle",
                         dict(pc, edges=hexl(edges)), "probe:estimator-distance")


def probe_vario(ctx, rng, n_cases):
    """vario_estimate(latlon=True): bin membership / estimates vs the MODEL's geometry; geo_scale consistency; standard_bins"""
    import gstools as gs
    gsc = geo_scales()
    for it in range(n_cases):
        gname = GEO_NAMES[it % 4]
        g = gsc[gname]
        n = int(rng.integers(5, 25))
        lat, lon = gen_latlon(rng, n, specials=0.1)
        fld = rng.normal(size=n)
        m = gs.Exponential(latlon=True, geo_scale=g, len_scale=0.4 * g)
        iso = m.isometrize(np.vstack([lat, lon]))
        ch = np.linalg.norm(iso[:, :, None] - iso[:, None, :], axis=0)
        gc = gs.tools.geometric.chordal_to_great_circle(ch, g)      # the model's great-circle distances (unit of geo_scale)
        iu = np.triu_indices(n, 1)
        dists = gc[iu]
        # edges: keep every pair distance away from every edge (the two routes differ by ~1e-8*g near antipodes)
        for _try in range(50):
            nb = int(rng.integers(2, 8))
            edges = np.sort(rng.uniform(0, math.pi * g, size=nb + 1))
            if rng.random() < 0.6:
                edges[0] = 0.0
            gap = np.min(np.abs(dists[:, None] - edges[None, :])) if edges[0] > 0 else np.min(np.abs(dists[:, None] - edges[None, 1:]))
            if gap > 1e-6 * g:
                break
        else:
            continue
        key = ("vario", gname, n >= 10, edges[0] == 0.0)
        ctx.count(key, hist=dict(probe="vario_estimate(latlon)", geo_scale=gname))
        case = dict(geo_scale=g, lat=hexl(lat), lon=hexl(lon), field=hexl(fld), edges=hexl(edges))
        try:
            e_in = edges.copy()
            bc, gam, cnt = gs.vario_estimate((lat, lon), fld, e_in, latlon=True, geo_scale=g, return_counts=True)
            # the same bin array used again (second variable / second estimator): same geometry, same bin membership
            _, gam_b, cnt_b = gs.vario_estimate((lat, lon), fld, e_in, latlon=True, geo_scale=g, return_counts=True)
            if not (np.array_equal(cnt, cnt_b) and np.array_equal(e_in, edges)):
                viol(ctx, "probe: vario_estimate(latlon) with a re-used bin array",
                     "a second vario_estimate call with the same bin_edges array bins the pairs differently (the bins are no longer in "
                     "the unit of geo_scale)", dict(case, counts_first=[int(c) for c in cnt], counts_second=[int(c) for c in cnt_b],
                                                    edges_after=hexl(e_in)), "probe:vario-reused-bins")
        except Exception as e:
            viol(ctx, "probe: vario_estimate raises", "vario_estimate(latlon=True) raised %r" % (e,), case, "probe:exception")
            continue
        exp_cnt = np.zeros(nb, dtype=int)
        exp_gam = np.zeros(nb)
        df2 = (fld[:, None] - fld[None, :])[iu] ** 2
        for b in range(nb):
            sel = (dists >= edges[b]) & (dists < edges[b + 1])
            exp_cnt[b] = int(sel.sum())
            exp_gam[b] = 0.5 * df2[sel].mean() if sel.any() else 0.0
        # pairs whose haversine argument exceeds 1 in floating point (exact antipodes): the kernel's distance is NaN
        nanp = np.array([kernel_hav_arg(lat[a], lon[a], lat[b], lon[b]) > 1.0 for a, b in zip(*iu)])
        if nanp.any() and not np.array_equal(np.asarray(cnt, dtype=int), exp_cnt):
            # known defect pattern: those pairs are counted in EVERY bin; everything else must still agree
            dcnt = np.zeros(nb, dtype=int)
            dgam = np.zeros(nb)
            for b in range(nb):
                sel = ((dists >= edges[b]) & (dists < edges[b + 1]) & ~nanp) | nanp
                dcnt[b] = int(sel.sum())
                dgam[b] = 0.5 * df2[sel].mean() if sel.any() else 0.0
            if np.array_equal(np.asarray(cnt, dtype=int), dcnt) and agree(gam, dgam, np.maximum(np.abs(dgam), 1.0), 1e-11):
                k = int(np.flatnonzero(nanp)[0])
                a, b = int(iu[0][k]), int(iu[1][k])
                viol(ctx, "probe: vario_estimate(latlon) vs model geometry",
                     "an antipodal pair gets a NaN great-circle distance (haversine argument > 1 by rounding) and is counted in every bin",
                     dict(case, pair=[[C.fhex(lat[a]), C.fhex(lon[a])], [C.fhex(lat[b]), C.fhex(lon[b])]],
                          pair_dec=[[lat[a], lon[a]], [lat[b], lon[b]]], counts=[int(c) for c in cnt], expected_counts=[int(c) for c in exp_cnt]),
                     KF_ANTIPODAL)
                ctx.known_hit_cases = getattr(ctx, "known_hit_cases", 0) + 1
                continue
        if not (np.array_equal(np.asarray(cnt, dtype=int), exp_cnt) and agree(gam, exp_gam, np.maximum(np.abs(exp_gam), 1.0), 1e-11)):
            viol(ctx, "probe: vario_estimate(latlon) vs model geometry",
                 "bin membership / estimate of vario_estimate(latlon=True) differs from binning the model's great-circle distances",
                 dict(case, counts=[int(c) for c in cnt], expected_counts=[int(c) for c in exp_cnt], gamma=hexl(gam), expected=hexl(exp_gam)),
                 "probe:vario-bins")
        # same data, bins in radians with geo_scale = 1
        _, gam1, cnt1 = gs.vario_estimate((lat, lon), fld, edges / g, latlon=True, geo_scale=1.0, return_counts=True)
        if not (np.array_equal(cnt, cnt1) and agree(gam, gam1, np.maximum(np.abs(gam1), 1.0), 1e-13)):
            viol(ctx, "probe: geo_scale consistency of vario_estimate", "vario_estimate(geo_scale=g, bins g*e) != vario_estimate(geo_scale=1, bins e)",
                 dict(case, counts=[int(c) for c in cnt], counts_rad=[int(c) for c in cnt1]), "probe:vario-geo-scale")
        # standard bins: unit of geo_scale, great-circle diameter of the bounding box / 3, at most a third of half the circumference
        sb_g = gs.standard_bins((lat, lon), latlon=True, geo_scale=g)
        sb_1 = gs.standard_bins((lat, lon), latlon=True, geo_scale=1.0)
        # (arcsin of the box diagonal: up to ~ 4 sqrt(eps) relative when the bounding box spans the whole sphere)
        if not (agree(sb_g, g * sb_1, math.pi * g, 2e-7) and sb_g[-1] <= math.pi * g / 3 * (1 + 1e-12) and sb_g[0] == 0.0):
            viol(ctx, "probe: standard_bins(latlon) scale", "standard_bins(latlon, geo_scale=g) != g * standard_bins(latlon, geo_scale=1)",
                 dict(case, bins_g=hexl(sb_g), bins_1=hexl(sb_1)), "probe:standard-bins")


def probe_pipelines(ctx, rng, n_cases):
    """Krige / SRF / CondSRF on lat-lon(-time) data: covariances are cov_yadrenko of the great-circle distance, results equal the
    3-D pipelines at the converted positions, kriging is invariant under rotations of the sphere"""
    import gstools as gs
    gsc = geo_scales()
    for it in range(n_cases):
        gname = GEO_NAMES[it % 4]
        g = gsc[gname]
        temporal = bool((it // 4) % 2)
        tr = float(10 ** rng.uniform(-0.5, 0.5))
        cls = model_classes()[it % len(model_classes())]
        ls = float(g * rng.uniform(0.2, 0.8))
        var = float(rng.uniform(0.5, 2.0))
        nug = float(rng.choice([0.0, 0.05]))
        kw = dict(var=var, len_scale=ls, nugget=nug)
        m = cls(latlon=True, temporal=temporal, geo_scale=g, anis=[1, 1, tr] if temporal else 1.0, **kw)
        m3 = cls(dim=4 if temporal else 3, temporal=temporal, anis=[1, 1, tr] if temporal else 1.0, **kw)
        nc, nt = int(rng.integers(3, 9)), 6
        lat, lon = sep_latlon(rng, nc + nt, 6.0)
        if it % 3 == 0:
            lat[0] = 90.0                                # a pole among the data
            lon[1] = 180.0                               # the date line
            lon[2] = lon[2] + 360.0
        tt = rng.uniform(0, 2, size=nc + nt) * ls * tr
        pts = np.vstack([lat, lon] + ([tt] if temporal else []))
        cond, tgt = pts[:, :nc], pts[:, nc:]
        val = rng.normal(size=nc)
        key = ("pipe", gname, temporal, cls.__name__)
        ctx.count(key, hist=dict(probe="krige/srf/condsrf", geo_scale=gname, temporal=temporal, model=cls.__name__))
        case = dict(model=cls.__name__, geo_scale=g, temporal=temporal, time_ratio=tr, var=var, len_scale=ls, nugget=nug,
                    cond=hexl(cond), val=hexl(val), tgt=hexl(tgt))
        try:
            # (a) kriging covariances == cov_yadrenko(geo_scale * great-circle angle) (+ time separation when temporal)
            kr = gs.krige.Ordinary(m, cond, val)
            mat, vecs = raw_krige_system(kr, tgt)
            ang = np_haversine(np.concatenate([cond[0], tgt[0]]), np.concatenate([cond[1], tgt[1]]))
            if temporal:
                chord = gs.tools.geometric.great_circle_to_chordal(g * ang, g)
                ta = np.concatenate([cond[2], tgt[2]])
                dd = np.sqrt(chord ** 2 + ((ta[:, None] - ta[None, :]) / tr) ** 2)
                cexp = m.covariance(dd)
            else:
                cexp = m.cov_yadrenko(g * ang)
            emat = cexp[:nc, :nc] + np.diag(np.full(nc, m.nugget))
            evec = cexp[:nc, nc:]
            # covariance functions are Lipschitz with constant ~ var/len_scale: chord error 1e-9*g -> covariance error below
            ctol = 1e-8 * var * max(1.0, g / ls)
            if not (np.abs(mat[:nc, :nc] - emat).max() <= ctol and np.abs(vecs[:nc] - evec).max() <= ctol
                    and np.all(mat[nc, :nc] == 1) and np.all(mat[:nc, nc] == 1) and mat[nc, nc] == 0 and np.all(vecs[nc] == 1)):
                viol(ctx, "probe: Krige covariances vs cov_yadrenko", "kriging matrix / right-hand sides are not the Yadrenko covariances "
                     "of the great-circle distances", dict(case, mat=hexl(mat), expected=hexl(emat)), "probe:krige-yadrenko")
            # (b) the three pipelines equal the 3-D pipelines at the converted positions
            c3, t3 = m.isometrize(cond), m.isometrize(tgt)
            if temporal:   # the 3-D(+t) model divides t by the ratio itself: hand it the un-scaled time
                c3 = np.vstack([c3[:3], cond[2]])
                t3 = np.vstack([t3[:3], tgt[2]])
            for name, mk in (("Simple", lambda mod, c: gs.krige.Simple(mod, c, val, mean=0.3)), ("Ordinary", lambda mod, c: gs.krige.Ordinary(mod, c, val))):
                f1, v1 = mk(m, cond)(tgt)
                f2, v2 = mk(m3, c3)(t3)
                cnd = np.linalg.cond(raw_krige_system(mk(m, cond), tgt)[0])
                tol = max(RTOL_PIPE, 1e-13 * cnd) * (np.abs(val).max() + 1.0)
                if not (np.abs(f1 - f2).max() <= tol and np.abs(v1 - v2).max() <= tol * (var + nug)):
                    viol(ctx, "probe: %s kriging lat-lon vs 3-D" % name, "kriging of lat-lon data differs from kriging the 3-D positions",
                         dict(case, field=hexl(f1), field3d=hexl(f2), cond_number=cnd), "probe:krige-3d")
            seed = int(rng.integers(1, 10 ** 6))
            s1 = gs.SRF(m, seed=seed, mode_no=64)(tgt)
            s2 = gs.SRF(m3, seed=seed, mode_no=64)(t3)
            if not agree(s1, s2, np.sqrt(var) * 8, 1e-8):
                viol(ctx, "probe: SRF lat-lon vs 3-D", "SRF on lat-lon positions differs from the 3-D field on the sphere",
                     dict(case, seed=seed, field=hexl(s1), field3d=hexl(s2)), "probe:srf-3d")
            k1 = gs.krige.Ordinary(m, cond, val)
            k2 = gs.krige.Ordinary(m3, c3, val)
            cs1 = gs.CondSRF(k1, seed=seed, mode_no=64)(tgt)
            cs2 = gs.CondSRF(k2, seed=seed, mode_no=64)(t3)
            cnd = np.linalg.cond(raw_krige_system(k1, tgt)[0])
            tol = max(1e-8, 1e-13 * cnd) * (np.abs(val).max() + np.sqrt(var) * 8)
            if not np.abs(cs1 - cs2).max() <= tol:
                viol(ctx, "probe: CondSRF lat-lon vs 3-D", "CondSRF on lat-lon positions differs from the 3-D conditioned field",
                     dict(case, seed=seed, field=hexl(cs1), field3d=hexl(cs2)), "probe:condsrf-3d")
            # (c) rotation of the sphere
            Q = random_rotation(rng)

            def rotate(p):
                x = m.isometrize(p)
                x = np.vstack([Q @ x[:3]] + ([x[3:]] if temporal else []))
                return m.anisometrize(x)
            cr, trg = rotate(cond), rotate(tgt)
            for name, mk in (("Simple", lambda c: gs.krige.Simple(m, c, val, mean=-0.2)), ("Ordinary", lambda c: gs.krige.Ordinary(m, c, val))):
                f1, v1 = mk(cond)(tgt)
                f2, v2 = mk(cr)(trg)
                cnd = np.linalg.cond(raw_krige_system(mk(cond), tgt)[0])
                tol = max(RTOL_PIPE, 1e-12 * cnd) * (np.abs(val).max() + 1.0)
                ctx.count(("rotation", gname, temporal, name), hist=dict(probe="kriging under sphere rotation"))
                if not (np.abs(f1 - f2).max() <= tol and np.abs(v1 - v2).max() <= tol * (var + nug)):
                    viol(ctx, "probe: %s kriging under a rotation of the sphere" % name,
                         "kriging result changes when data and targets are rotated on the sphere",
                         dict(case, Q=hexl(Q), field=hexl(f1), rotated=hexl(f2), var=hexl(v1), var_rot=hexl(v2), cond_number=cnd),
                         "probe:krige-rotation")
        except Exception as e:
            viol(ctx, "probe: pipeline raises", "Krige/SRF/CondSRF on lat-lon data raised %r" % (e,), case, "probe:exception")


def probe_time_axis(ctx, rng, n_cases):
    """metric spatio-temporal models (not lat-lon): time never rotated into space, scaled by the last ratio only; spatial part
    is the (dim-1)-dimensional model; lat-lon + temporal: setters keep the invariants"""
    import gstools as gs
    for it in range(n_cases):
        dim = int(rng.integers(2, 5))
        noa = dim * (dim - 1) // 2
        angles = list(rng.uniform(-math.pi, math.pi, size=noa))
        anis = list(10 ** rng.uniform(-1, 1, size=dim - 1))
        ls = float(rng.uniform(0.5, 2))
        m = gs.Exponential(dim=dim, temporal=True, len_scale=ls, anis=anis, angles=angles)
        ctx.count(("time-axis", dim), hist=dict(probe="time axis (metric)", dim=dim))
        case = dict(dim=dim, angles=hexl(angles), anis=hexl(anis), len_scale=ls)
        noa_s = (dim - 1) * (dim - 2) // 2
        ang = np.asarray(m.angles)
        if not (np.all(ang[noa_s:] == 0.0) and agree(ang[:noa_s], angles[:noa_s], 1.0, 1e-15)):
            viol(ctx, "probe: temporal angles", "angles of planes containing the time axis are not zeroed (or spatial ones changed)",
                 dict(case, stored=hexl(ang)), "probe:temporal-angles")
        n = 5
        x = rng.normal(size=(dim, n)) * 3
        iso = m.isometrize(x)
        x2 = x.copy()
        x2[-1] += rng.normal(size=n)
        iso2 = m.isometrize(x2)
        x3 = x.copy()
        x3[:-1] += rng.normal(size=(dim - 1, n))
        iso3 = m.isometrize(x3)
        sc = np.abs(x).sum() * max(1.0, 1 / min(anis))
        if not (agree(iso[-1], x[-1] / anis[-1], np.abs(x[-1] / anis[-1]), 1e-14) and agree(iso2[:-1], iso[:-1], sc, 1e-14)
                and agree(iso3[-1], iso[-1], np.abs(iso[-1]), 1e-14)):
            viol(ctx, "probe: time axis (metric model)", "isometrize mixes time and space or scales time by something else than anis[-1]",
                 dict(case, x=hexl(x), iso=hexl(iso)), "probe:time-axis")
        if dim >= 3:
            ms = gs.Exponential(dim=dim - 1, len_scale=ls, anis=anis[:-1], angles=angles[:noa_s])
            if not agree(ms.isometrize(x[:-1]), iso[:-1], sc, 1e-13):
                viol(ctx, "probe: spatial block of a temporal model", "spatial part of isometrize differs from the (dim-1)-dimensional model",
                     dict(case, x=hexl(x)), "probe:time-axis-block")
        back = m.anisometrize(iso)
        if not agree(back, x, sc * max(1.0, max(anis)), 1e-12):
            viol(ctx, "probe: anisometrize(isometrize(x)) (temporal)", "round trip fails for a temporal model", dict(case, x=hexl(x)), "probe:time-roundtrip-metric")
        # lat-lon + temporal: every setter keeps dim 4, spatial ratios 1, angles 0 and the time ratio unless it is set
        g = geo_scales()[GEO_NAMES[it % 4]]
        tr = float(10 ** rng.uniform(-1, 1))
        mt = gs.Gaussian(latlon=True, temporal=True, geo_scale=g, len_scale=0.3 * g, anis=[1, 1, tr])
        hist = []
        for _ in range(4):
            k = int(rng.integers(4))
            if k == 0:
                v = float(g * rng.uniform(0.1, 1)); mt.len_scale = v; hist.append(["len_scale", v])
            elif k == 1:
                v = list(rng.uniform(-3, 3, size=int(rng.integers(1, 7)))); mt.angles = v; hist.append(["angles", v])
            elif k == 2:
                tr = float(10 ** rng.uniform(-1, 1)); v = [float(rng.uniform(0.2, 3)), float(rng.uniform(0.2, 3)), tr]; mt.anis = v; hist.append(["anis", v])
            else:
                mt.dim = int(rng.integers(1, 6)); hist.append(["dim", "any"])
            ctx.count(("latlon-t-setter", k), hist=dict(probe="lat-lon+time setters"))
            if not (mt.dim == 4 and list(mt.anis[:2]) == [1.0, 1.0] and np.all(np.asarray(mt.angles) == 0) and len(mt.angles) == 6
                    and abs(mt.anis[2] - tr) <= 1e-15 * tr and mt.field_dim == 3 and mt.spatial_dim == 2):
                viol(ctx, "probe: lat-lon + temporal model state after setters",
                     "a setter broke dim=4 / spatial isotropy / zero angles / the time ratio of a lat-lon + temporal model",
                     dict(geo_scale=g, history=hist, dim=int(mt.dim), anis=hexl(mt.anis), angles=hexl(mt.angles), expected_time_ratio=C.fhex(tr)),
                     "probe:latlon-temporal-setters")
                break


def probe_fit(ctx, rng, n_cases):
    """fit_variogram of a lat-lon model on exact Yadrenko variogram values over great-circle lags recovers the parameters
    (it would not if the lags were used as chordal distances or in the wrong unit)"""
    import gstools as gs
    gsc = dict(geo_scales(), miles=3958.8)
    unit_names = list(gsc)
    for it in range(n_cases):
        gname = unit_names[it % len(unit_names)]
        g = gsc[gname]
        cls = [gs.Exponential, gs.Gaussian][it % 2]
        ls, var = float(g * rng.uniform(0.5, 1.2)), float(rng.uniform(0.5, 2))
        truth = cls(latlon=True, geo_scale=g, var=var, len_scale=ls)
        x = np.linspace(0.02, 0.98, 30) * math.pi * g
        y = truth.vario_yadrenko(x)
        fit = cls(latlon=True, geo_scale=g, var=1.0, len_scale=0.5 * g)
        ctx.count(("fit", gname, cls.__name__), hist=dict(probe="fit_variogram(latlon)"))
        try:
            fit.fit_variogram(x, y, nugget=False)
        except Exception as e:
            viol(ctx, "probe: fit_variogram raises", "fit_variogram(latlon) raised %r" % (e,),
                 dict(model=cls.__name__, geo_scale=g, len_scale=ls, var=var), "probe:exception")
            continue
        # return_r2 (noisy values so that r2 < 1): the score must be that of the fitted Yadrenko variogram at the GIVEN great-circle lags
        yn = y * (1 + 0.08 * rng.normal(size=y.size))
        f2 = cls(latlon=True, geo_scale=g, var=1.0, len_scale=0.5 * g)
        try:
            _, _, r2 = f2.fit_variogram(x, yn, nugget=False, return_r2=True)
            res = yn - f2.vario_yadrenko(x)
            r2_exp = 1.0 - np.sum(res ** 2) / np.sum((yn - np.mean(yn)) ** 2)
            if not abs(r2 - r2_exp) <= 1e-10:
                viol(ctx, "probe: fit_variogram(latlon, return_r2=True)",
                     "the returned r2 is not the score of the fitted Yadrenko variogram at the given great-circle lags",
                     dict(model=cls.__name__, geo_scale=g, x=hexl(x), y=hexl(yn), r2=float(r2), expected_r2=float(r2_exp),
                          fitted_len_scale=float(f2.len_scale), fitted_var=float(f2.var)), "probe:fit-r2")
        except Exception as e:
            viol(ctx, "probe: fit_variogram raises", "fit_variogram(latlon, return_r2=True) raised %r" % (e,),
                 dict(model=cls.__name__, geo_scale=g), "probe:exception")
        # pykrige interface: r is a great-circle distance in DEGREES
        rdeg = rng.uniform(0, 180, size=4)
        pv = np.array([float(truth.pykrige_vario(r=float(v))) for v in rdeg])
        pe = truth.vario_yadrenko(g * np.deg2rad(rdeg))
        if not agree(pv, pe, truth.var, 1e-12):
            viol(ctx, "probe: pykrige_vario(latlon)", "pykrige_vario(r degrees) is not the Yadrenko variogram of the great-circle distance "
                 "geo_scale * deg2rad(r)", dict(model=cls.__name__, geo_scale=g, len_scale=ls, r_deg=[float(v) for v in rdeg],
                                                 values=[float(v) for v in pv], expected=[float(v) for v in pe]), "probe:pykrige-vario")
        # curve_fit converges to ~1e-8 on exact data; a lag-unit / chord mix-up moves len_scale by > 5 % for these lags
        if not (abs(fit.len_scale - ls) <= 1e-3 * ls and abs(fit.var - var) <= 1e-3 * var):
            viol(ctx, "probe: fit_variogram(latlon) recovers the Yadrenko model",
                 "fitting exact Yadrenko variogram values over great-circle lags does not recover len_scale / var",
                 dict(model=cls.__name__, geo_scale=g, len_scale=ls, var=var, fitted_len_scale=float(fit.len_scale), fitted_var=float(fit.var)),
                 "probe:fit")


def bins_point_sets(rng):
    """lat-lon point sets with the extents the default-bin rule must see: north-south transects across the equator, mid-latitude
    regions, sets straddling the date line, polar caps, a single parallel, whole-sphere scatter"""
    n = int(rng.integers(5, 30))
    a = float(rng.uniform(5, 80))
    lo0 = float(rng.uniform(-180, 180))
    sets = {
        "meridian-transect-across-equator": (np.linspace(-a, a, n), np.full(n, lo0)),
        "equator-transect": (np.zeros(n), lo0 + np.linspace(-a, a, n)),
        "mid-latitude-region": (rng.uniform(30, 30 + a / 2, n), lo0 + rng.uniform(0, a / 2, n)),
        "date-line-region": (rng.uniform(-a / 2, a / 2, n), 180.0 + rng.uniform(-a / 2, a / 2, n)),
        "polar-cap": (90.0 - np.abs(rng.uniform(0, a / 2, n)), rng.uniform(-180, 180, n)),
        "south-pole-transect": (np.concatenate([[-90.0], -90 + np.abs(rng.uniform(0, a, n - 1))]), np.full(n, lo0)),
        "one-parallel": (np.full(n, float(rng.uniform(-70, 70))), lo0 + rng.uniform(0, a, n)),
        "whole-sphere": (np.degrees(np.arcsin(rng.uniform(-1, 1, n))), rng.uniform(-540, 540, n)),
    }
    return sets


def rule_max_dist(lat, lon, g):
    """documented rule, restated independently: a third of the great-circle distance that belongs to the diameter (diagonal) of the
    bounding box of the 3-D points on the sphere of radius geo_scale"""
    la, lo = np.radians(lat), np.radians(lon)
    p = g * np.array([np.cos(la) * np.cos(lo), np.cos(la) * np.sin(lo), np.sin(la)])
    diag = float(np.linalg.norm(p.max(axis=1) - p.min(axis=1)))
    x = min(diag / (2 * g), 1.0)
    # conditioning of arcsin (see corr_bins_fit)
    tol = 1e-12 + 8e-16 / math.sqrt(max(1 - x * x, 4e-16))
    return 2 * g * math.asin(x) / 3, tol


def probe_bins(ctx, rng, n_cases):
    """standard_bins(latlon=True) on the implementation: documented bounding-box rule in every unit, Sturges bin count, uniform
    edges from 0; invariance under the symmetries of the rule (signed permutations of the 3-D axes = rotations/reflections of the
    sphere that map the bounding box onto a bounding box), e.g. a meridian transect and the same transect laid on the equator"""
    import gstools as gs
    import itertools
    gsc = geo_scales()
    perms = [(pm, sg) for pm in itertools.permutations(range(3)) for sg in itertools.product((1.0, -1.0), repeat=3)]
    for it in range(n_cases):
        sets = bins_point_sets(rng)
        for sname, (lat, lon) in sets.items():
            gname = GEO_NAMES[int(rng.integers(4))]
            g = gsc[gname]
            n = len(lat)
            ctx.count(("standard_bins-rule", sname, gname), hist=dict(probe="standard_bins rule", geo_scale=gname, point_set=sname))
            case = dict(point_set=sname, geo_scale=g, lat=hexl(lat), lon=hexl(lon), lat_dec=[float(v) for v in lat], lon_dec=[float(v) for v in lon])
            try:
                edges = gs.standard_bins((lat, lon), latlon=True, geo_scale=g)
            except Exception as e:
                viol(ctx, "probe: standard_bins raises", "standard_bins(latlon=True) raised %r" % (e,), case, "probe:exception")
                continue
            md, tol = rule_max_dist(lat, lon, g)
            nb = int(np.ceil(2 * np.log2(n) + 1))
            ok = (len(edges) == nb + 1 and edges[0] == 0.0 and abs(edges[-1] - md) <= tol * math.pi * g
                  and agree(edges, np.linspace(0, edges[-1], nb + 1), max(edges[-1], 1e-300), 1e-13))
            if not ok:
                viol(ctx, "probe: standard_bins(latlon) bounding-box rule",
                     "default lat-lon bins do not end at a third of the great-circle diameter of the 3-D bounding box of the points "
                     "(or wrong count / spacing)", dict(case, edges=hexl(edges), max_edge=float(edges[-1]), expected_max_edge=md, expected_bins=nb),
                     "probe:standard-bins-rule")
            # symmetry of the rule
            pm, sg = perms[int(rng.integers(len(perms)))]
            m = gs.Gaussian(latlon=True, geo_scale=g, len_scale=g)
            x = m.isometrize(np.vstack([lat, lon]))
            y = np.array([sg[k] * x[pm[k]] for k in range(3)])
            ll2 = m.anisometrize(y)
            e2 = gs.standard_bins((ll2[0], ll2[1]), latlon=True, geo_scale=g)
            if not (len(e2) == len(edges) and abs(e2[-1] - edges[-1]) <= (2 * tol + 1e-9) * math.pi * g):
                viol(ctx, "probe: standard_bins(latlon) under a symmetry of the sphere",
                     "default bins change when the point set is rotated/reflected by a signed permutation of the 3-D axes "
                     "(e.g. a meridian transect laid onto the equator)",
                     dict(case, permutation=list(pm), signs=list(sg), lat2=[float(v) for v in ll2[0]], lon2=[float(v) for v in ll2[1]],
                          max_edge=float(edges[-1]), max_edge_rotated=float(e2[-1])), "probe:standard-bins-symmetry")


def probe_autofit(ctx, rng, n_cases):
    """Krige(fit_variogram=True) (+ CondSRF on top) on the same lat-lon data in every unit: the fitted model must be the same physical
    model (len_scale / geo_scale, var, nugget), equal to the manual vario_estimate + fit_variogram workflow, and the kriged / conditioned
    fields must coincide"""
    import gstools as gs
    gsc = geo_scales()
    for it in range(n_cases):
        cls = [gs.Exponential, gs.Gaussian][it % 2]
        n = int(rng.integers(60, 100))
        lat = np.degrees(np.arcsin(rng.uniform(-1, 1, n)))
        lon = rng.uniform(-180, 180, n)
        truth = cls(latlon=True, len_scale=float(rng.uniform(0.3, 0.6)), var=float(rng.uniform(0.7, 1.5)))
        seed = int(rng.integers(1, 10 ** 6))
        val = gs.SRF(truth, seed=seed, mode_no=128)((lat, lon))
        tla, tlo = gen_latlon(rng, 6)
        res = {}
        case = dict(model=cls.__name__, lat=hexl(lat), lon=hexl(lon), val=hexl(val), tgt=[hexl(tla), hexl(tlo)])
        try:
            for gname in GEO_NAMES:
                g = gsc[gname]
                ctx.count(("autofit", gname, cls.__name__), hist=dict(probe="Krige auto-fit units", geo_scale=gname))
                m = cls(latlon=True, geo_scale=g, len_scale=0.5 * g)
                k = gs.krige.Ordinary(m, (lat, lon), val, fit_variogram=True)
                f, v = k((tla, tlo))
                cs = gs.CondSRF(k, seed=seed, mode_no=64)((tla, tlo))
                m2 = cls(latlon=True, geo_scale=g, len_scale=0.5 * g)
                bc, gam = gs.vario_estimate((lat, lon), val, latlon=True, geo_scale=g)
                m2.fit_variogram(bc, gam, sill=np.var(val))
                res[gname] = dict(ls=float(m.len_scale / g), var=float(m.var), nug=float(m.nugget), f=f, v=v, cs=cs,
                                  cond=float(np.linalg.cond(raw_krige_system(k, (tla, tlo))[0])) if gname == "radian" else None,
                                  ls2=float(m2.len_scale / g), var2=float(m2.var), nug2=float(m2.nugget))
        except Exception as e:
            viol(ctx, "probe: Krige auto-fit raises", "Krige(fit_variogram=True) on lat-lon data raised %r" % (e,), case, "probe:exception")
            continue
        r0 = res["radian"]
        sc = float(np.abs(val).max() + 1.0)
        for gname in GEO_NAMES:
            r = res[gname]
            summ = {k2: {q: res[k2][q] for q in ("ls", "var", "nug", "ls2", "var2", "nug2")} for k2 in res}
            # same calls, same data: the manual workflow must give the same fit (identical up to rounding)
            if not (abs(r["ls"] - r["ls2"]) <= 1e-9 * r["ls2"] and abs(r["var"] - r["var2"]) <= 1e-9 * (r["var2"] + 1) and abs(r["nug"] - r["nug2"]) <= 1e-9):
                viol(ctx, "probe: Krige auto-fit vs manual vario_estimate + fit_variogram",
                     "Krige(fit_variogram=True) fits another model than vario_estimate(latlon, geo_scale) + fit_variogram on the same data "
                     "(unit %s)" % gname, dict(case, geo_scale=gsc[gname], fits=summ), "probe:autofit-manual")
            # across units the optimiser stops within ~2e-5 (measured) of the same optimum; a unit mix-up is a factor geo_scale
            d = abs(r["ls"] - r0["ls"]) / r0["ls"] + abs(r["var"] - r0["var"]) / (r0["var"] + 1) + abs(r["nug"] - r0["nug"])
            if not d <= 1e-3:
                viol(ctx, "probe: Krige auto-fit unit consistency", "fitted len_scale / geo_scale (var, nugget) depend on the unit (%s vs radian)" % gname,
                     dict(case, geo_scale=gsc[gname], fits=summ), "probe:autofit-units")
                continue
            # fields follow the fitted parameters (sensitivity of kriging ~ 1, of the spectral part ~ 10 (phase ~ radius / len_scale));
            # only decidable for a well conditioned system: Gaussian-type covariances give condition numbers ~ 1e15, where a
            # nugget of 1e-9 vs 1e-15 (optimiser noise) legitimately changes the pseudo-inverse solution
            if r0["cond"] > 1e5:
                ctx.count(None, hist=dict(probe="Krige auto-fit fields skipped (ill-conditioned system)"))
                continue
            tolf = (1e-7 + 100 * d) * sc
            if not (np.abs(r["f"] - r0["f"]).max() <= tolf and np.abs(r["v"] - r0["v"]).max() <= tolf * (r0["var"] + 1)
                    and np.abs(r["cs"] - r0["cs"]).max() <= tolf * 3 + 8 * math.sqrt(max(r["nug"], r0["nug"], 0.0))):   # + nugget noise sqrt(nugget) N(0,1)
                viol(ctx, "probe: Krige auto-fit fields unit consistency", "kriged / conditioned fields after auto-fit depend on the unit (%s vs radian)" % gname,
                     dict(case, geo_scale=gsc[gname], fits=summ, field=hexl(r["f"]), field_radian=hexl(r0["f"])), "probe:autofit-fields")


# ---------------------------------------------------------------------------------------------- holders / histories
def fresh_model(m):
    """a new CovModel built from the PRESENT public parameter values of m"""
    kw = dict(latlon=m.latlon, temporal=m.temporal, geo_scale=m.geo_scale, var=m.var, len_scale=m.len_scale, nugget=m.nugget,
              anis=[float(a) for a in m.anis], angles=[float(a) for a in m.angles])
    if not m.latlon:
        kw["dim"] = m.dim
    for opt in m.opt_arg:
        kw[opt] = getattr(m, opt)
    if not kw["anis"]:
        kw.pop("anis")
    if not kw["angles"]:
        kw.pop("angles")
    return type(m)(**kw)


def latlon_cfg(rng, temporal, classes=None):
    cfg = gen_cfg(rng, force=(True, temporal))
    cfg["ls"] = [cfg["ls"][0]]
    cfg["anis"] = [1.0, 1.0, float(10 ** rng.uniform(-0.5, 0.5))] if temporal else []
    cfg["angles"] = []
    cfg["sdim"] = None
    if classes is not None:
        cfg["cls"] = int(rng.choice(classes))
    return cfg


def other_unit_cfg(rng, cfg):
    """a configuration differing from cfg only in geo_scale (same len_scale NUMBER: 'km -> miles'), or with the length rescaled too,
    and (temporal) possibly in the time ratio"""
    gsc = geo_scales()
    c = dict(cfg)
    names = [n for n in GEO_NAMES if n != cfg["gname"]] + ["miles"]
    nm = names[int(rng.integers(len(names)))]
    g = 3958.8 if nm == "miles" else gsc[nm]
    u = rng.random()
    if u < 0.5:
        c["ls"] = [cfg["ls"][0]]
    else:
        c["ls"] = [cfg["ls"][0] * g / cfg["geo"]]
    c["geo"], c["gname"] = g, nm if nm != "miles" else "3.7"
    if cfg["temporal"] and rng.random() < 0.5:
        c["anis"] = [1.0, 1.0, float(10 ** rng.uniform(-0.5, 0.5))]
    else:
        c["anis"] = list(cfg["anis"])
    return c


def gen_st_points(rng, n, temporal, scale_t=1.0):
    lat, lon = sep_latlon(rng, n, 5.0)
    if rng.random() < 0.3:
        lat[0] = 90.0
        lon[1 % n] = 180.0
    rows = [lat, lon] + ([rng.uniform(0, 2, size=n) * scale_t] if temporal else [])
    return np.vstack(rows)


def krige_tol(kr, tgt, val):
    cnd = float(np.linalg.cond(raw_krige_system(kr, tgt)[0]))
    return max(RTOL_PIPE, 1e-12 * cnd) * (float(np.abs(val).max()) + 1.0), cnd


def corr_holder(ctx, drv, rng, n_cases):
    """operation histories on a Krige object (model replacement by one differing only in geo_scale / length / time ratio, in-place
    changes of the held model, set_condition(), set_condition(new data)); after EVERY operation the cached isometrized conditioning
    positions and the model state are compared with the holder model (which predicts staleness after an in-place change too), and
    after every refreshing operation the kriging result is compared with a FRESH object built from the present values"""
    import gstools as gs
    for it in range(n_cases):
        temporal = bool(it % 2)
        cfg0 = latlon_cfg(rng, temporal)
        cfg0["nugget"] = float(rng.choice([0.0, 0.05]))
        m = make_model(cfg0)
        nc = int(rng.integers(3, 8))
        cond = gen_st_points(rng, nc, temporal, cfg0["ls"][0])
        val = rng.normal(size=nc)
        simple = bool(rng.random() < 0.5)
        mk = (lambda mod, c, v: gs.krige.Simple(mod, c, v, mean=0.25)) if simple else (lambda mod, c, v: gs.krige.Ordinary(mod, c, v))
        kr = mk(m, cond, val)
        base = margs(cfg0) + [np.ascontiguousarray(cond.T)]
        ops, hist = [], []
        cur = dict(cfg0)
        key = cfg_key(cfg0)
        for step in range(int(rng.integers(3, 7))):
            u = rng.random()
            refreshing = True
            try:
                if u < 0.35:
                    c1 = other_unit_cfg(rng, cur)
                    kr.model = make_model(c1)
                    ops += [("z", 0)] + margs(c1)
                    hist.append(["model = (geo_scale %r, len_scale %r, anis %r)" % (c1["geo"], c1["ls"][0], c1["anis"])])
                    cur = c1
                    opk = "replace-model"
                elif u < 0.7:
                    if temporal and rng.random() < 0.6:
                        v = [1.0, 1.0, float(10 ** rng.uniform(-0.5, 0.5))]
                        kr.model.anis = v
                        ops += [("z", 1), ("z", 1), np.array(v)]
                        hist.append(["model.anis = %r" % (v,)])
                    else:
                        v = [float(kr.model.len_scale * rng.uniform(0.5, 2.0))]
                        kr.model.len_scale = v[0]
                        ops += [("z", 1), ("z", 0), np.array(v)]
                        hist.append(["model.len_scale = %r" % (v[0],)])
                    refreshing = False
                    opk = "in-place"
                    if rng.random() < 0.8:
                        _check_holder(ctx, drv, kr, base, ops, hist, cfg0, key, opk)
                        kr.set_condition()
                        ops += [("z", 2)]
                        hist.append(["set_condition()"])
                        refreshing = True
                        opk = "in-place+set_condition()"
                else:
                    nc = int(rng.integers(3, 8))
                    cond = gen_st_points(rng, nc, temporal, cfg0["ls"][0])
                    val = rng.normal(size=nc)
                    kr.set_condition(cond, val)
                    ops += [("z", 3), np.ascontiguousarray(cond.T)]
                    hist.append(["set_condition(new cond_pos, cond_val)", hexl(cond), hexl(val)])
                    opk = "new-data"
            except Exception as e:
                viol(ctx, "probe: Krige history raises", "operation history on a Krige object raised %r" % (e,),
                     dict(config=cfg_json(cfg0), history=hist), "probe:exception")
                break
            ctx.count(("holder", key, opk, simple), hist=dict(op="holder history:" + opk, config=key))
            if not _check_holder(ctx, drv, kr, base, ops, hist, cfg0, key, opk):
                break
            if refreshing:
                tgt = gen_st_points(rng, 4, temporal, cfg0["ls"][0])
                try:
                    f1, v1 = kr(tgt)
                    fr = mk(fresh_model(kr.model), cond, val)
                    f2, v2 = fr(tgt)
                    tol, cnd = krige_tol(fr, tgt, val)
                except Exception as e:
                    viol(ctx, "probe: Krige history raises", "evaluation after an operation history raised %r" % (e,),
                         dict(config=cfg_json(cfg0), history=hist), "probe:exception")
                    break
                if not (np.abs(f1 - f2).max() <= tol and np.abs(v1 - v2).max() <= tol * (kr.model.var + kr.model.nugget)):
                    viol(ctx, "probe: Krige after a history vs a fresh Krige",
                         "kriging after model replacement / in-place change + set_condition() differs from a fresh object built from the "
                         "present model and data (last operation: %s)" % opk,
                         dict(config=cfg_json(cfg0), simple=simple, cond0=hexl(base[8]), history=hist, tgt=hexl(tgt), field=hexl(f1), fresh=hexl(f2),
                              var=hexl(v1), fresh_var=hexl(v2), cond_number=cnd), "probe:krige-history")
                    break


def _check_holder(ctx, drv, kr, base, ops, hist, cfg0, key, opk):
    got = drv.call("holder", *(base + ops))
    st = state_of(kr.model)
    kp = np.asarray(kr._krige_pos).T
    ok = got is not None and state_agree(st, got[:7]) and agree(got[7], kp, np.maximum(np.abs(kp), st[1]))
    if not ok:
        # is the PROPERTY violated on this history?  (cache of a refreshed holder != isometrize of the present model)
        fresh_kp = np.asarray(fresh_model(kr.model).isometrize(kr.cond_pos)).T
        stale = not agree(fresh_kp, kp, np.maximum(np.abs(kp), st[1]))
        viol(ctx, "correspondence: Krige holder history (cached conditioning positions / model state)",
             "after the history the cached isometrized conditioning positions differ from the holder model" +
             ("; they are not those of the present model and data" if stale and not opk == "in-place" else ""),
             dict(config=cfg_json(cfg0), cond0=hexl(base[8]), history=hist, last=opk, impl_krige_pos=hexl(kp),
                  model_krige_pos=None if got is None else hexl(got[7]), present_model=[st[0], st[1], st[2], list(st[3])]),
             "corr:holder" if not (stale and opk != "in-place") else "probe:holder-stale-cache", no_input=not (stale and opk != "in-place"))
    return ok


def distinct_value(rng, draw, seen):
    """a new parameter value with relative distance > 1e-3 from every value used before in the history (see probe_histories)"""
    for _ in range(100):
        v = draw()
        if all(abs(v - sv) > 1e-3 * abs(sv) for sv in seen):
            break
    seen.append(v)
    return v


def probe_histories(ctx, rng, n_cases):
    """SRF and CondSRF objects: model replacement (differing only in geo_scale / length / time ratio), in-place changes (+ the documented
    set_condition() refresh for the kriging part), calls on new / stored positions with new seeds; every result is compared with a
    fresh object built from the present parameter values"""
    import gstools as gs
    for it in range(n_cases):
        temporal = bool(it % 2)
        which = ["SRF", "CondSRF"][(it // 2) % 2]
        cfg0 = latlon_cfg(rng, temporal, classes=[0, 1])      # Gaussian / Exponential: inversion sampling
        cfg0["nugget"] = 0.0
        m = make_model(cfg0)
        nc = int(rng.integers(3, 7))
        cond = gen_st_points(rng, nc, temporal, cfg0["ls"][0])
        val = rng.normal(size=nc)
        seed = int(rng.integers(1, 10 ** 6))
        if which == "SRF":
            obj = gs.SRF(m, seed=seed, mode_no=32)
        else:
            obj = gs.CondSRF(gs.krige.Ordinary(m, cond, val), seed=seed, mode_no=32)
        cur = dict(cfg0)
        hist = []
        key = cfg_key(cfg0)
        # values already used in this history: a later value within rtol 1e-5 of an EARLIER one (not the present one) would run into the
        # recorded C11 finding "isclose-stale" (the generator keeps its private model copy when CovModel.__eq__ (np.isclose) sees no change),
        # which is not a statement about coordinates; new values keep a relative distance > 1e-3 from every earlier value
        seen_vals = [cfg0["ls"][0]] + list(cfg0["anis"][2:])
        called = False
        tgt = None
        for step in range(int(rng.integers(3, 7))):
            u = rng.random()
            try:
                if u < 0.3:
                    c1 = other_unit_cfg(rng, cur)
                    c1["nugget"] = 0.0
                    if c1["anis"][2:] and c1["anis"] != cur["anis"]:
                        c1["anis"] = [1.0, 1.0, distinct_value(rng, lambda: float(10 ** rng.uniform(-0.5, 0.5)), seen_vals)]
                    if any(0 < abs(c1["ls"][0] - sv) <= 1e-3 * abs(sv) for sv in seen_vals):
                        c1["ls"] = [cur["ls"][0]]
                    seen_vals.append(c1["ls"][0])
                    obj.model = make_model(c1)
                    cur = c1
                    hist.append(["model = (geo_scale %r, len_scale %r, anis %r)" % (c1["geo"], c1["ls"][0], c1["anis"])])
                    opk = "replace-model"
                elif u < 0.55:
                    if temporal and rng.random() < 0.6:
                        v = [1.0, 1.0, distinct_value(rng, lambda: float(10 ** rng.uniform(-0.5, 0.5)), seen_vals)]
                        obj.model.anis = v
                        hist.append(["model.anis = %r" % (v,)])
                    else:
                        v = distinct_value(rng, lambda: float(obj.model.len_scale * rng.uniform(0.5, 2.0)), seen_vals)
                        obj.model.len_scale = v
                        hist.append(["model.len_scale = %r" % (v,)])
                    if which == "CondSRF":
                        obj.krige.set_condition()
                        hist.append(["krige.set_condition()"])
                    opk = "in-place"
                else:
                    seed = int(rng.integers(1, 10 ** 6))
                    if called and rng.random() < 0.3:
                        res = obj(seed=seed)
                        hist.append(["call(stored positions, seed=%d)" % seed])
                    else:
                        tgt = gen_st_points(rng, 4, temporal, cfg0["ls"][0])
                        res = obj(tgt, seed=seed)
                        hist.append(["call(new positions, seed=%d)" % seed, hexl(tgt)])
                    called = True
                    opk = "call"
                    fm = fresh_model(obj.model)
                    if which == "SRF":
                        ref = gs.SRF(fm, seed=seed, mode_no=32)(tgt)
                        tol = 1e-8 * np.sqrt(fm.var) * 8
                    else:
                        kf = gs.krige.Ordinary(fm, cond, val)
                        ref = gs.CondSRF(kf, seed=seed, mode_no=32)(tgt)
                        tol, _ = krige_tol(kf, tgt, val)
                        tol = max(tol, 1e-8) * 8 * (1 + np.sqrt(fm.var))
                    if not np.abs(np.asarray(res) - np.asarray(ref)).max() <= tol:
                        viol(ctx, "probe: %s after a history vs a fresh %s" % (which, which),
                             "field after model replacement / in-place change differs from a fresh object built from the present model",
                             dict(config=cfg_json(cfg0), object=which, cond=hexl(cond), val=hexl(val), history=hist, field=hexl(res), fresh=hexl(ref)),
                             "probe:%s-history" % which.lower())
                        break
                ctx.count(("history", which, key, opk), hist=dict(probe="%s history:%s" % (which, opk), config=key))
            except Exception as e:
                viol(ctx, "probe: history raises", "operation history on a %s object raised %r" % (which, e),
                     dict(config=cfg_json(cfg0), object=which, history=hist), "probe:exception")
                break


def probe_units(ctx, drv, rng, n_cases):
    """every consumer of geo_scale that is not covered elsewhere, in all units, against the model: vario/cor/cov_yadrenko; standard_bins with
    each combination of bin_no / max_dist given or not (a given max_dist is in the unit of geo_scale); vario_estimate with the same options
    passed through (bin centres and bin membership in the unit of geo_scale)"""
    import gstools as gs
    gsc = dict(geo_scales(), miles=3958.8)
    names = list(gsc)
    for it in range(n_cases):
        gname = names[it % len(names)]
        g = gsc[gname]
        n = int(rng.integers(6, 25))
        lat, lon = gen_latlon(rng, n, specials=0.1)
        pts = np.ascontiguousarray(np.vstack([lat, lon]).T)
        # yadrenko family
        m = model_classes()[it % 5](latlon=True, geo_scale=g, len_scale=float(g * rng.uniform(0.2, 1)), var=float(rng.uniform(0.5, 2)), nugget=0.1)
        z = rng.uniform(0, math.pi * g, size=5)
        ch = 2 * g * np.sin(z / (2 * g))
        ctx.count(("yadrenko", gname, type(m).__name__), hist=dict(probe="yadrenko family", geo_scale=gname))
        if not (agree(m.cov_yadrenko(z), m.covariance(ch), m.var, 1e-12) and agree(m.vario_yadrenko(z), m.variogram(ch), m.var + m.nugget, 1e-12)
                and agree(m.cor_yadrenko(z), m.correlation(ch), 1.0, 1e-12)):
            viol(ctx, "probe: vario/cov/cor_yadrenko", "a yadrenko function is not the isotropic function of the chord 2 g sin(zeta / 2g)",
                 dict(model=type(m).__name__, geo_scale=g, zeta=hexl(z)), "probe:yadrenko-family")
        # standard_bins option matrix
        rule, tol_b = rule_max_dist(lat, lon, g)
        sturges = int(np.ceil(2 * np.log2(n) + 1))
        for has_no in (False, True):
            for has_md in (False, True):
                bn = int(rng.integers(2, 12)) if has_no else None
                md = float(g * rng.uniform(0.05, 1.5)) if has_md else None
                ctx.count(("standard_bins-options", gname, has_no, has_md), hist=dict(probe="standard_bins options", geo_scale=gname))
                case = dict(geo_scale=g, lat_dec=[float(v) for v in lat], lon_dec=[float(v) for v in lon], bin_no=bn, max_dist=md)
                try:
                    e = gs.standard_bins((lat, lon), latlon=True, geo_scale=g, bin_no=bn, max_dist=md)
                    last_m = drv.call("latlon_bins_last_edge", g, pts, has_md, md if has_md else 0.0) if drv is not None else None
                except Exception as ex:
                    viol(ctx, "probe: standard_bins raises", "standard_bins raised %r" % (ex,), case, "probe:exception")
                    continue
                exp_last = md if has_md else rule
                exp_n = bn if has_no else sturges
                t = 1e-15 if has_md else tol_b
                if not (len(e) == exp_n + 1 and e[0] == 0.0 and abs(e[-1] - exp_last) <= t * max(math.pi * g, exp_last)
                        and agree(e, np.linspace(0, e[-1], exp_n + 1), max(e[-1], 1e-300), 1e-13)):
                    viol(ctx, "probe: standard_bins(latlon) options bin_no / max_dist",
                         "lat-lon bins with bin_no %s / max_dist %s: last edge or count is not the documented one (a given max_dist is in the "
                         "unit of geo_scale)" % ("given" if has_no else "default", "given" if has_md else "default"),
                         dict(case, edges=hexl(e), last_edge=float(e[-1]), expected_last_edge=exp_last, expected_bins=exp_n), "probe:standard-bins-options")
                if last_m is not None and not abs(last_m - e[-1]) <= t * max(math.pi * g, exp_last):
                    viol(ctx, "correspondence: standard_bins(latlon) last edge", "model and standard_bins differ",
                         dict(case, impl=float(e[-1]), model=float(last_m)), "corr:standard_bins-options", no_input=True)
                # the same options through vario_estimate: bin centres in the unit of geo_scale, membership by great-circle distance
                fld = rng.normal(size=n)
                kw = {}
                if has_no:
                    kw["bin_no"] = bn
                if has_md:
                    kw["max_dist"] = md
                try:
                    bc, gam, cnt = gs.vario_estimate((lat, lon), fld, latlon=True, geo_scale=g, return_counts=True, **kw)
                except Exception as ex:
                    viol(ctx, "probe: vario_estimate raises", "vario_estimate raised %r" % (ex,), case, "probe:exception")
                    continue
                edges = np.linspace(0, exp_last, exp_n + 1)
                exp = expected_vario(lat, lon, fld, edges, g)
                if not agree(bc, (edges[:-1] + edges[1:]) / 2, max(exp_last, 1e-300), max(t, 1e-13) * 4):
                    viol(ctx, "probe: vario_estimate(latlon) default bins", "bin centres of vario_estimate(latlon, geo_scale, %r) are not those of the "
                         "documented bins in the unit of geo_scale" % (kw,), dict(case, field=hexl(fld), bin_center=hexl(bc), expected=hexl((edges[:-1] + edges[1:]) / 2)),
                         "probe:vario-std-bins-centres")
                elif exp is not None and not exp["nan"].any() and not np.array_equal(np.asarray(cnt, dtype=int), exp["cnt"]):
                    viol(ctx, "probe: vario_estimate(latlon) default bins", "bin membership of vario_estimate(latlon, geo_scale, %r) differs from binning the "
                         "model's great-circle distances" % (kw,), dict(case, field=hexl(fld), counts=[int(c) for c in cnt], expected=[int(c) for c in exp["cnt"]]),
                         "probe:vario-std-bins-counts")


def probe_structured_bins(ctx, rng, n_cases):
    """standard_bins / vario_estimate for STRUCTURED lat-lon meshes (unequal axes): the same bins as for the equivalent point list, which follow the
    sphere rule, in every unit and for every bin_no / max_dist combination"""
    import gstools as gs
    gsc = dict(geo_scales(), miles=3958.8)
    names = list(gsc)
    for it in range(n_cases):
        gname = names[it % len(names)]
        g = gsc[gname]
        na, nb = int(rng.integers(2, 7)), int(rng.integers(2, 7))
        if na == nb:
            nb += 1
        la0, lo0 = float(rng.uniform(-80, 40)), float(rng.uniform(-200, 200))
        lat_ax = la0 + np.sort(rng.uniform(0, 40, size=na))
        lon_ax = lo0 + np.sort(rng.uniform(0, 60, size=nb))
        LA, LO = np.meshgrid(lat_ax, lon_ax, indexing="ij")
        lat, lon = LA.ravel(), LO.ravel()
        rule, tol_b = rule_max_dist(lat, lon, g)
        for has_no in (False, True):
            for has_md in (False, True):
                bn = int(rng.integers(2, 9)) if has_no else None
                md = float(g * rng.uniform(0.05, 1.0)) if has_md else None
                ctx.count(("structured-bins", gname, has_no, has_md), hist=dict(probe="standard_bins structured lat-lon", geo_scale=gname))
                case = dict(geo_scale=g, lat_axis=[float(v) for v in lat_ax], lon_axis=[float(v) for v in lon_ax], bin_no=bn, max_dist=md)
                try:
                    es = gs.standard_bins((lat_ax, lon_ax), latlon=True, mesh_type="structured", geo_scale=g, bin_no=bn, max_dist=md)
                    eu = gs.standard_bins((lat, lon), latlon=True, geo_scale=g, bin_no=bn, max_dist=md)
                except Exception as ex:
                    viol(ctx, "probe: standard_bins raises", "standard_bins(structured lat-lon) raised %r" % (ex,), case, "probe:exception")
                    continue
                exp_last = md if has_md else rule
                t = 1e-15 if has_md else tol_b
                if not (len(es) == len(eu) and abs(es[-1] - eu[-1]) <= 2 * t * max(math.pi * g, exp_last)
                        and abs(es[-1] - exp_last) <= t * max(math.pi * g, exp_last) and es[0] == 0.0):
                    viol(ctx, "probe: standard_bins(latlon, structured mesh)",
                         "default bins of a structured lat-lon mesh differ from those of the equivalent point list / the sphere rule",
                         dict(case, last_edge_structured=float(es[-1]), last_edge_points=float(eu[-1]), expected_last_edge=exp_last), "probe:standard-bins-structured")
                fld = rng.normal(size=(na, nb))
                kw = {}
                if has_no:
                    kw["bin_no"] = bn
                if has_md:
                    kw["max_dist"] = md
                try:
                    rs = gs.vario_estimate((lat_ax, lon_ax), fld, latlon=True, mesh_type="structured", geo_scale=g, return_counts=True, **kw)
                    ru = gs.vario_estimate((lat, lon), fld.ravel(), latlon=True, geo_scale=g, return_counts=True, **kw)
                except Exception as ex:
                    viol(ctx, "probe: vario_estimate raises", "vario_estimate(structured lat-lon) raised %r" % (ex,), case, "probe:exception")
                    continue
                exp = expected_vario(lat, lon, fld.ravel(), np.linspace(0, eu[-1], len(eu)), g)
                same_bins = agree(rs[0], ru[0], max(exp_last, 1e-300), 8 * max(t, 1e-13))
                if not same_bins or (exp is not None and not exp["nan"].any() and not (np.array_equal(rs[2], ru[2]) and np.array_equal(ru[2], exp["cnt"]))):
                    viol(ctx, "probe: vario_estimate(latlon, structured mesh)",
                         "variogram of a structured lat-lon mesh differs from that of the equivalent point list (bin centres / bin membership)",
                         dict(case, field=hexl(fld), bin_center_structured=hexl(rs[0]), bin_center_points=hexl(ru[0]),
                              counts_structured=[int(c) for c in rs[2]], counts_points=[int(c) for c in ru[2]]), "probe:vario-structured")


def expected_vario(lat, lon, fld, edges, g):
    """bin the MODEL's great-circle distances (chord of the isometrized points -> great circle); None when a pair is too close to an edge"""
    import gstools as gs
    m = gs.Exponential(latlon=True, geo_scale=g, len_scale=g)
    iso = m.isometrize(np.vstack([lat, lon]))
    ch = np.linalg.norm(iso[:, :, None] - iso[:, None, :], axis=0)
    gc = gs.tools.geometric.chordal_to_great_circle(ch, g)
    iu = np.triu_indices(len(lat), 1)
    d = gc[iu]
    inner = edges[1:] if edges[0] <= 0 else edges
    if np.min(np.abs(d[:, None] - inner[None, :])) <= 1e-6 * g:
        return None
    cnt = np.array([int(((d >= edges[b]) & (d < edges[b + 1])).sum()) for b in range(len(edges) - 1)])
    nanp = np.array([kernel_hav_arg(lat[a], lon[a], lat[b], lon[b]) > 1.0 for a, b in zip(*iu)])
    return dict(cnt=cnt, nan=nanp)


# ---------------------------------------------------------------------------------------------- representation / dim 4
def alt_representation(rng, lat, lon):
    """the same points written differently: lon +- 360 k; any longitude at a pole; +-180"""
    lon2 = lon + 360.0 * rng.choice([-2, -1, 1, 2], size=len(lon))
    for k in range(len(lat)):
        if abs(lat[k]) == 90.0:
            lon2[k] = float(rng.uniform(-540, 540))
        elif abs(lon[k]) == 180.0 and rng.random() < 0.7:
            lon2[k] = -lon[k]
    return lon2


def layouts(a):
    """the same array in other memory layouts / container types"""
    a = np.asarray(a, dtype=float)
    big = np.zeros((a.shape[0] * 2, a.shape[1] * 3))
    big[::2, ::3] = a
    return {"fortran": np.asfortranarray(a), "strided": big[::2, ::3], "lists": [list(map(float, r)) for r in a],
            "tuple-of-arrays": tuple(np.array(r) for r in a)}


def probe_representation(ctx, rng, n_cases):
    """every lat-lon entry point is invariant under the representation of a point (lon +- 360 k, longitude at the poles, +-180) to
    rounding level, and EXACTLY in the exact-kriging sense (data returned with variance 0 at a conditioning location written differently);
    results are bit-identical for other memory layouts / containers of the same positions; point counts include n == field_dim"""
    import gstools as gs
    gsc = dict(geo_scales(), miles=3958.8)
    names = list(gsc)
    for it in range(n_cases):
        gname = names[it % len(names)]
        g = gsc[gname]
        temporal = bool((it // 5) % 2)
        fd = 2 + int(temporal)
        n = int([fd, fd + 1, 6, 9][int(rng.integers(4))])
        lat, lon = sep_latlon(rng, n, 8.0)
        lat[0] = float(rng.choice([90.0, -90.0, lat[0]]))
        lon[1] = float(rng.choice([180.0, -180.0, 179.999999, lon[1]]))
        lon[-1] = float(rng.choice([0.0, 360.0, lon[-1]]))
        lonb = alt_representation(rng, lat, lon)
        cls = model_classes()[it % 5]
        ls = float(g * rng.uniform(0.3, 0.9))
        var = float(rng.uniform(0.5, 2.0))
        nug = float(rng.choice([0.0, 0.3]))
        tr = float(10 ** rng.uniform(-0.5, 0.5))
        tt = rng.uniform(0, 2, size=n) * ls * tr
        m = cls(latlon=True, temporal=temporal, geo_scale=g, len_scale=ls, var=var, nugget=nug, anis=[1, 1, tr] if temporal else 1.0)
        A = np.vstack([lat, lon] + ([tt] if temporal else []))
        B = np.vstack([lat, lonb] + ([tt] if temporal else []))
        key = ("representation", gname, temporal, n == fd)
        ctx.count(key, hist=dict(probe="representation invariance", geo_scale=gname, temporal=temporal, n=n))
        case = dict(model=cls.__name__, geo_scale=g, temporal=temporal, len_scale=ls, var=var, nugget=nug, time_ratio=tr,
                    pts=hexl(A), pts_other_representation=hexl(B), lat=[float(v) for v in lat], lon=[float(v) for v in lon], lon_other=[float(v) for v in lonb])
        try:
            # A. isometrize (rounding of lon * pi/180 for |lon| <= 900: ~ 16 eps on the sphere)
            ia, ib = m.isometrize(A), m.isometrize(B)
            if not agree(ia, ib, np.maximum(g, np.abs(ia)), 1e-13 * 64):
                viol(ctx, "probe: isometrize under another representation of the points", "isometrize depends on the longitude representation",
                     dict(case, iso=hexl(ia), iso_other=hexl(ib)), "probe:repr-isometrize")
            for lname, arr in layouts(A).items():
                if not np.array_equal(m.isometrize(arr), ia):
                    viol(ctx, "probe: isometrize for another memory layout", "isometrize of the same positions (%s) differs" % lname,
                         dict(case, layout=lname), "probe:layout-isometrize")
            # B. vario_estimate
            if not temporal and n >= 3:
                fld = rng.normal(size=n)
                edges = np.sort(rng.uniform(0, math.pi * g, size=4))
                edges[0] = 0.0
                exp = expected_vario(lat, lon, fld, edges, g)
                if exp is not None and not exp["nan"].any():
                    ra = gs.vario_estimate((lat, lon), fld, edges.copy(), latlon=True, geo_scale=g, return_counts=True)
                    rb = gs.vario_estimate((lat, lonb), fld, edges.copy(), latlon=True, geo_scale=g, return_counts=True)
                    if not (np.array_equal(ra[2], rb[2]) and agree(ra[1], rb[1], np.maximum(np.abs(ra[1]), 1.0), 1e-11) and np.array_equal(ra[2], exp["cnt"])):
                        viol(ctx, "probe: vario_estimate under another representation of the points", "bin membership / estimate depends on the longitude representation",
                             dict(case, field=hexl(fld), edges=hexl(edges), counts=[int(c) for c in ra[2]], counts_other=[int(c) for c in rb[2]]), "probe:repr-vario")
                    for lname, arr in layouts(A).items():
                        rl = gs.vario_estimate(arr, fld, edges.copy(), latlon=True, geo_scale=g, return_counts=True)
                        if not (np.array_equal(rl[2], ra[2]) and np.array_equal(rl[1], ra[1])):
                            viol(ctx, "probe: vario_estimate for another memory layout", "vario_estimate of the same positions (%s) differs" % lname,
                                 dict(case, layout=lname, field=hexl(fld), edges=hexl(edges)), "probe:layout-vario")
            # C. kriging: data in representation A, targets = the data locations in representation B + the same extra points in both
            val = rng.normal(size=n)
            xlat, xlon = gen_latlon(rng, 3, specials=0.0)
            xt = rng.uniform(0, 2, size=3) * ls * tr
            XA = np.vstack([xlat, xlon] + ([xt] if temporal else []))
            XB = np.vstack([xlat, xlon + 360.0 * rng.choice([-1, 1], size=3)] + ([xt] if temporal else []))
            for kname, mk in (("Simple", lambda c, ex: gs.krige.Simple(m, c, val, mean=0.2, exact=ex)),
                              ("Ordinary", lambda c, ex: gs.krige.Ordinary(m, c, val, exact=ex))):
                for exact in (True, False):
                    ka = mk(A, exact)
                    tol, cnd = krige_tol(ka, XA, val)
                    fa, va = ka(np.hstack([B, XA]))
                    fb, vb = ka(np.hstack([A, XB]))
                    fc, vc = mk(B, exact)(np.hstack([B, XA]))
                    ctx.count(("repr-krige", kname, exact, nug > 0, temporal), hist=dict(probe="kriging representation invariance"))
                    kc = dict(case, krige=kname, exact=exact, val=hexl(val), extra_targets=hexl(XA), cond_number=cnd)
                    if not (np.abs(fa - fb).max() <= tol and np.abs(va - vb).max() <= tol * (var + nug)
                            and np.abs(fa - fc).max() <= tol and np.abs(va - vc).max() <= tol * (var + nug)):
                        viol(ctx, "probe: kriging under another representation of the points",
                             "%s kriging (exact=%s) depends on the longitude representation of targets / data" % (kname, exact),
                             dict(kc, field=hexl(fa), field_other=hexl(fb), field_data_other=hexl(fc), var=hexl(va), var_other=hexl(vb)), "probe:repr-krige")
                    if exact or nug == 0.0:
                        # exact interpolation: data returned with variance 0, also when the location is written differently
                        if not (np.abs(fa[:n] - val).max() <= tol and np.abs(va[:n]).max() <= tol * (var + nug)):
                            viol(ctx, "probe: exact kriging at a data location written differently",
                                 "%s kriging (exact=%s, nugget %g) does not return the data with variance 0 at a conditioning location given with "
                                 "another longitude representation" % (kname, exact, nug),
                                 dict(kc, field_at_data=hexl(fa[:n]), var_at_data=hexl(va[:n])), "probe:repr-exact")
                    for lname, arr in layouts(A).items():
                        fl, vl = mk(arr, exact)(np.hstack([B, XA]))
                        if not (np.array_equal(fl, fa) and np.array_equal(vl, va)):
                            viol(ctx, "probe: kriging for another memory layout", "kriging with the same conditioning positions (%s) differs" % lname,
                                 dict(kc, layout=lname), "probe:layout-krige")
            # D. SRF / CondSRF (inversion-sampled models only: the others use MCMC sampling)
            if it % 5 < 2:
                seed = int(rng.integers(1, 10 ** 6))
                sa = gs.SRF(m, seed=seed, mode_no=32)(A)
                sb = gs.SRF(m, seed=seed, mode_no=32)(B)
                if not agree(sa, sb, np.sqrt(var + nug) * 8, 1e-9):
                    viol(ctx, "probe: SRF under another representation of the points", "SRF depends on the longitude representation",
                         dict(case, seed=seed, field=hexl(sa), field_other=hexl(sb)), "probe:repr-srf")
                kr = gs.krige.Ordinary(m, A, val, exact=True)
                tol, cnd = krige_tol(kr, XA, val)
                ca = gs.CondSRF(kr, seed=seed, mode_no=32)(np.hstack([B, XA]))
                cb = gs.CondSRF(gs.krige.Ordinary(m, A, val, exact=True), seed=seed, mode_no=32)(np.hstack([A, XB]))
                tolc = max(tol, 1e-8) * 8 * (1 + np.sqrt(var + nug))
                if not (np.abs(ca - cb).max() <= tolc and np.abs(ca[:n] - val).max() <= tolc):
                    viol(ctx, "probe: CondSRF under another representation of the points",
                         "CondSRF depends on the longitude representation or does not honour the data at a location written differently",
                         dict(case, seed=seed, val=hexl(val), field=hexl(ca), field_other=hexl(cb), cond_number=cnd), "probe:repr-condsrf")
        except Exception as e:
            viol(ctx, "probe: representation probe raises", "a lat-lon entry point raised %r" % (e,), case, "probe:exception")


def probe_dim4(ctx, rng, n_cases):
    """generated fields of dim >= 4 models (lat-lon + time = 3+1, 3-D + time): (i) sampled directions are unit vectors and isotropic, for every
    dimension and sample count (incl. size == dim); (ii) the radii |k| of the RandMeth wave vectors follow the model's radial spectral law (KS);
    (iii) ensemble variogram over seeds for space, time and mixed lags follows the model (Yadrenko chord / time scaled by the last ratio)"""
    import gstools as gs
    from gstools.random.rng import RNG
    from gstools.field.generator import RandMeth
    for it in range(n_cases):
        seed = int(rng.integers(1, 10 ** 6))
        # (i)
        for dim in (1, 2, 3, 4, 5, 6):
            for size in (1, dim, 7, 3000):
                c = RNG(seed).sample_sphere(dim, size)
                ctx.count(("sphere-sample", dim, size == dim, size >= 1000), hist=dict(probe="sample_sphere", dim=dim))
                nrm = np.linalg.norm(c, axis=0) if c.shape == (dim, size) else None
                if nrm is None or not agree(nrm, np.ones(size), 1.0, 1e-12):
                    viol(ctx, "probe: RNG.sample_sphere unit vectors", "sampled direction vectors do not have shape (dim, size) and unit norm",
                         dict(seed=seed, dim=dim, size=size, shape=list(c.shape), norms=None if nrm is None else hexl(nrm[:20])), "probe:sample-sphere")
                    continue
                if size >= 1000 and dim >= 2:
                    # E c_i^2 = 1/dim, Var c_i^2 = 2 (dim-1) / (dim^2 (dim+2)); 7 standard errors
                    se = math.sqrt(2.0 * (dim - 1) / (dim * dim * (dim + 2)) / size)
                    m2 = (c ** 2).mean(axis=1)
                    if not np.all(np.abs(m2 - 1.0 / dim) <= 7 * se):
                        viol(ctx, "probe: RNG.sample_sphere isotropy", "second moments of the sampled directions are not 1/dim",
                             dict(seed=seed, dim=dim, size=size, second_moments=[float(v) for v in m2], se=se), "probe:sample-sphere-moments")
        # (ii) + (iii)
        for kind in ("latlon+time", "3d+time"):
            cls = [gs.Gaussian, gs.Exponential][it % 2]
            g = geo_scales()[GEO_NAMES[it % 4]] if kind == "latlon+time" else 1.0
            ls = float(g * rng.uniform(0.3, 0.6)) if kind == "latlon+time" else float(rng.uniform(0.5, 2))
            tr = float(10 ** rng.uniform(-0.4, 0.4))
            var = float(rng.uniform(0.7, 1.5))
            if kind == "latlon+time":
                m = cls(latlon=True, temporal=True, geo_scale=g, len_scale=ls, var=var, anis=[1, 1, tr])
            else:
                m = cls(dim=4, temporal=True, len_scale=ls, var=var, anis=[1, float(rng.uniform(0.5, 2)), tr], angles=[float(rng.uniform(-1, 1))])
            nm = 2000
            gen = RandMeth(m, mode_no=nm, seed=seed)
            k = np.asarray(gen._cov_sample)
            r = np.sort(np.linalg.norm(k, axis=0))
            # radial law: cdf of model.spectral_rad_pdf by trapezoids on a log grid (no closed form for dim 4)
            grid = np.logspace(-7, 7, 8001) / m.len_scale
            yy = np.asarray(m.spectral_rad_pdf(grid)) * grid
            cum = np.concatenate([[0.0], np.cumsum(0.5 * (yy[1:] + yy[:-1]) * np.diff(np.log(grid)))])
            cdf = np.interp(r, grid, cum / cum[-1])
            dks = float(max(np.max(np.arange(1, nm + 1) / nm - cdf), np.max(cdf - np.arange(0, nm) / nm)))
            # Kolmogorov bound for independent samples P(D > 0.073) < 1e-9 at n = 2000; the radii come from an MCMC sampler (dim 4 has no
            # inversion sampling), whose autocorrelation lowers the effective sample size (measured D <= 0.04): twice the bound
            crit = 2 * math.sqrt(math.log(2 / 1e-9) / (2 * nm))
            ctx.count(("wave-vectors", kind, cls.__name__), hist=dict(probe="RandMeth |k| law (dim 4)", kind=kind))
            case = dict(kind=kind, model=cls.__name__, geo_scale=g, len_scale=ls, var=var, time_ratio=tr, seed=seed, mode_no=nm)
            if k.shape != (4, nm) or not dks <= crit:
                viol(ctx, "probe: RandMeth wave vectors of a dim-4 model", "the radii |k| of the sampled wave vectors do not follow the model's radial spectral law "
                     "(Kolmogorov distance %.3f > %.3f)" % (dks, crit), dict(case, ks=dks, median_k=float(np.median(r)), model_median=float(np.interp(0.5, cum / cum[-1], grid))),
                     "probe:dim4-wave-vectors")
            # (iii) ensemble variogram: pairs (0,j) with space, time and mixed lags
            if kind == "latlon+time":
                la0, lo0 = float(rng.uniform(-60, 60)), float(rng.uniform(-180, 180))
                dang = np.degrees(np.array([0.5, 1.0, 2.0]) * ls / g)
                pts = np.array([[la0, lo0, 0.0]] + [[la0, lo0 + d / max(math.cos(math.radians(la0)), 0.3), 0.0] for d in dang]
                               + [[la0, lo0, h * ls * tr] for h in (0.5, 1.0, 2.0)] + [[la0 + dang[1] * 0.7, lo0, 0.7 * ls * tr]]).T
            else:
                u = rng.normal(size=3)
                u /= np.linalg.norm(u)
                pts = np.array([[0, 0, 0, 0.0]] + [list(h * ls * u) + [0.0] for h in (0.5, 1.0, 2.0)]
                               + [[0, 0, 0, h * ls * tr] for h in (0.5, 1.0, 2.0)] + [list(0.7 * ls * u) + [0.7 * ls * tr]]).T
            iso = m.isometrize(pts)
            h = np.linalg.norm(iso[:, 1:] - iso[:, :1], axis=0)
            gexp = np.asarray(m.variogram(h))
            N = 400
            srf = gs.SRF(m, mode_no=100)
            acc = np.zeros(pts.shape[1] - 1)
            for s_ in range(N):
                f = srf(pts, seed=seed + 1 + s_)
                acc += 0.5 * (f[1:] - f[0]) ** 2
            gest = acc / N
            # (f_i - f_0)^2 / 2 has mean gamma and variance ~ 2 gamma^2: 8 standard errors + 0.02 var
            tolv = 8 * gexp * math.sqrt(2.0 / N) + 0.02 * var
            ctx.count(("ensemble-variogram", kind, cls.__name__), n=N, hist=dict(probe="ensemble variogram (dim 4)", kind=kind))
            if not np.all(np.abs(gest - gexp) <= tolv):
                viol(ctx, "probe: ensemble variogram of a dim-4 field", "the space / time variogram of SRF realisations over %d seeds does not follow the model "
                     "(chord on the sphere resp. time lag / last ratio)" % N,
                     dict(case, pts=hexl(pts), iso_lags=[float(v) for v in h], estimated=[float(v) for v in gest], expected=[float(v) for v in gexp],
                          tolerance=[float(v) for v in tolv]), "probe:dim4-ensemble")


# ---------------------------------------------------------------------------------------------- run
def run(ctx):
    rng = C.Rng(ctx.seed, "C13")
    thorough = ctx.tier == "thorough"
    SEEN.clear()
    try:   # own fragment of the known findings (known_findings.json is assembled from known_findings.d/*.json)
        import os
        have = {k.get("key") for k in ctx.kf}
        for e in json.load(open(os.path.join(C.VERIF, "known_findings.d", "C13.json"))):
            if e.get("property") == "C13" and e.get("key") not in have:
                ctx.kf.append(e)
    except (OSError, ValueError):
        pass
    ctx.rule = ("cases = (operation or probe) x configuration kind (lat-lon / metric, temporal on/off) x geo_scale in {radian, degree, km, 3.7} "
                "x dimension x point kind (random, pole, date line, wrapped longitude, duplicate, antipode) x kriging variant; a case is "
                "non-trivial unless it is a scalar off-sphere/boundary helper call; distinct = distinct keys of that tuple")
    ctx.trusted = [
        "Coq 8.16.1 kernel (coqc); no native_compute",
        "translators tools/pyx2py.py, tools/pyx2coq.py (dist_haversine is their output for variogram/estimator.pyx)",
        "extraction (ExtrOcamlBasic only), OCaml 4.13, ocaml/proto.ml float instance (glibc libm), ocaml/drv_c13.ml",
        "real instance c13/C13_RInst.v: atan2 and C pow are DEFINED (quadrant case split; integer exponent = integer power) and their "
        "characteristic properties proved (range (-PI,PI], polar decomposition, inverse of the polar map); nisnan := false",
        "covariance functions of the models are oracles (any function cf : R -> R in the theorems; the CovModel under test in the correspondence)",
        "numpy deg2rad/rad2deg/cos/sin/arcsin/arctan2/minimum/maximum, scipy cdist, LAPACK inverse are modelled-not-verified",
    ]
    ctx.not_proved = [
        "IEEE rounding: the geometry theorems are over exact reals (model state / time-appended theorems hold for every number type)",
        "at the poles the longitude is not recoverable (C13_latlon_pos_latlon states this); identity of pos2latlon o latlon2pos is proved for "
        "lat in (-90,90), lon in (-180,180]",
        "that the spatial block of a temporal model's (de)rotation equals the (dim-1)-dimensional matrix is probed, not proved "
        "(proved: block diagonality in every dimension)",
        "the kriging solve itself (LAPACK inverse, kriging sums) is C05's; here the system handed to the solver is proved rotation invariant",
        "SRF / CondSRF: covariance = Yadrenko follows from C13_cov_is_yadrenko once the 3-D generator reproduces the model covariance (C01); "
        "here the lat-lon pipelines are checked to equal the 3-D pipelines at the isometrized positions",
        "bounds checks of the setters (check_arg_bounds) and fit_variogram's optimiser are outside the model",
    ]
    tie_broken = []
    # 1. tie by translation
    gen = C.regenerate(which=["Estimator_gen.v"])
    for k, v in gen.items():
        ctx.tie[k + ":dist_haversine"] = "translated (pyx2coq)" if not v else "TRANSLATION FAILED: " + v
        if v:
            tie_broken.append("translation of estimator.pyx: " + v)
    for f in ("great_circle_to_chordal", "chordal_to_great_circle"):
        ctx.tie[f] = ("translated (py2coq, gen/Formulas_gen.v) + tie theorem C13_tie_%s (model = translated formula, every number type)"
                      " + correspondence" % f)
    for f in ("latlon2pos", "pos2latlon", "set_angles", "set_anis", "rotation_planes",
              "givens_rotation", "matrix_rotate/derotate/isometrize/anisometrize", "set_len_anis", "set_model_angles",
              "CovModel.__init__/set_dim (lat-lon, temporal part)", "CovModel len_scale/anis/angles setters", "CovModel.isometrize/anisometrize",
              "cov_yadrenko", "Krige._get_krige_mat/_get_krige_vecs (covariance system)",
              "Krige holder: model setter / set_condition() / set_condition(new data) and the cached _krige_pos (operation histories)", "standard_bins(latlon) max_dist", "fit._check_vario lag conversion"):
        ctx.tie[f] = "hand model + correspondence"
    # 2. theorems
    proofs_ok = (not tie_broken) and ctx.proofs("props/C13.v")
    # 3. driver
    drv = None
    ora = CovOracle()
    if not tie_broken:
        ok, out = C.build_driver("c13")
        if ok:
            drv = C.Driver("c13", ora)
        else:
            tie_broken.append("extraction/driver build: " + out[-600:])
    import time
    timing = {}

    def stage(name, fn, *a):
        t0 = time.time()
        fn(*a)
        timing[name] = round(time.time() - t0, 1)
    try:
        # 4. correspondence
        if drv is not None:
            stage("corr_sphere", corr_sphere, ctx, drv, rng, 400 if thorough else 40)
            stage("corr_state", corr_state, ctx, drv, rng, 4000 if thorough else 300)
            stage("corr_krige", corr_krige, ctx, drv, ora, rng, 800 if thorough else 60)
            stage("corr_bins_fit", corr_bins_fit, ctx, drv, rng, 400 if thorough else 40)
        # 5. probes
        stage("probe_geometry", probe_geometry, ctx, rng, 2000 if thorough else 160)
        stage("probe_vario", probe_vario, ctx, rng, 2000 if thorough else 160)
        stage("probe_pipelines", probe_pipelines, ctx, rng, 400 if thorough else 40)
        stage("probe_time_axis", probe_time_axis, ctx, rng, 2000 if thorough else 160)
        stage("probe_fit", probe_fit, ctx, rng, 80 if thorough else 16)
        stage("probe_bins", probe_bins, ctx, rng, 200 if thorough else 25)
        stage("probe_autofit", probe_autofit, ctx, rng, 20 if thorough else 4)
        if drv is not None:
            stage("corr_holder", corr_holder, ctx, drv, rng, 300 if thorough else 40)
        stage("probe_histories", probe_histories, ctx, rng, 300 if thorough else 40)
        stage("probe_units", probe_units, ctx, drv, rng, 200 if thorough else 30)
        stage("probe_structured_bins", probe_structured_bins, ctx, rng, 100 if thorough else 15)
        stage("probe_representation", probe_representation, ctx, rng, 200 if thorough else 30)
        stage("probe_dim4", probe_dim4, ctx, rng, 6 if thorough else 1)
        ctx.notes.append("stage seconds: %s" % json.dumps(timing))
        C.log("[C13] stage seconds: %s" % json.dumps(timing))
    finally:
        if drv:
            drv.close()
    if drv is not None:
        ctx.notes.append("driver calls: %d" % drv.calls)
    if (tie_broken or not proofs_ok) and not ctx.violations:
        ctx.violation("proof/tie", "proof obligations or the model/code tie of C13 no longer check: %s" % (
            tie_broken or getattr(ctx, "proof_failure", {}).get("output_tail", "")[-600:]),
            dict(tie_broken=tie_broken, proof=getattr(ctx, "proof_failure", None)), no_input=True)


def replay(ctx, path):
    rec = json.load(open(path))
    print(json.dumps({k: rec[k] for k in ("stage", "what")}, indent=1))
    ctx.seed = int(rec.get("seed", ctx.seed))
    ctx.tier = rec.get("tier", ctx.tier)
    run(ctx)
    return ctx.finish()
