"""C18 — normalizers are invertible monotone maps; the mean/norm/trend pipeline is exact.

stages: theorems props/C18.v (model at R, every lmbda) ; extraction + driver ;
        correspondence model(float) vs gstools.normalizer on generated parameters/data (public API incl. NaN,
        boundaries, out-of-range, infinities; raw formulas; ranges; likelihoods; pipeline on Field/SRF/Krige) ;
        probes of the property statement on the implementation (mpmath reference, round trips, monotonicity,
        derivative, likelihood definition, fit vs brute force, pipeline round trip on real objects)."""
import json
import math
import warnings

import numpy as np

import common as C

EPS = 2.220446049250313e-16
# Tolerance policy (DESIGN 3.4).  Model and implementation execute the same IEEE operations in the same order;
# they differ only in the transcendental kernels (glibc pow/exp/log/expm1/log1p vs numpy's, a few ulp).  An error
# of u ulp in b**lmbda is amplified by the explicit subtraction in (b**lmbda - 1)/lmbda to u*eps*(|b**lmbda|+1)/|lmbda|
# — that "cancellation scale" S (>= |result|) is computed per case below; the test is |a - b| <= ULPS*eps*S.
ULPS = 64
KINDS = {"Normalizer": 0, "LogNormal": 1, "BoxCox": 2, "BoxCoxShift": 3, "YeoJohnson": 4, "Modulus": 5, "Manly": 6}
ATOL0 = 1e-8                      # np.isclose(lmbda, 0)  <=>  |lmbda| <= 1e-8
ATOL2 = 1e-8 + 1e-5 * 2           # np.isclose(lmbda, 2)  <=>  |lmbda - 2| <= 1e-8 + 2e-5
LAMBDAS = [2.5, -2.5, 1.0, -1.0, 0.5, -0.5, 1e-9, -1e-9, 0.0, 2.0, 2 + 1e-9, 2 - 1e-9,
           # the edges of the two isclose windows, and values just in/outside them
           ATOL0, -ATOL0, float(np.nextafter(ATOL0, 1)), -float(np.nextafter(ATOL0, 1)), 3e-8, -1e-5,
           2 + 2e-5, 2 - 2e-5, 2 + ATOL2, float(np.nextafter(2 + ATOL2, 3)), 2 + 2.1e-5, 2 - 2.1e-5, 3.0, 4.5]


def gn():
    from gstools import normalizer
    return normalizer


def make(name, lam, sh):
    cls = getattr(gn(), name)
    par = {}
    if "lmbda" in cls.default_parameter:
        par["lmbda"] = lam
    if "shift" in cls.default_parameter:
        par["shift"] = sh
    return cls(**par)


def configs(rng, tier):
    out = []
    n_rand = 24 if tier == "thorough" else 2
    for name in KINDS:
        cls = getattr(gn(), name)
        lams = list(LAMBDAS) if "lmbda" in cls.default_parameter else [1.0]
        if "lmbda" in cls.default_parameter:
            lams += [float(s * 10.0 ** rng.uniform(-7, 0.7)) for s in rng.choice([-1, 1], n_rand)]
        shifts = [0.0, 1.5, -0.7] if "shift" in cls.default_parameter else [0.0]
        for lam in lams:
            for sh in shifts:
                out.append((name, float(lam), float(sh)))
    return out


def fin(x):
    return float(x) if np.isfinite(x) else None


def data_for(rng, lo, hi, n):
    """values over the open range (lo, hi) over many magnitudes, its boundaries, just outside, NaN, infinities"""
    lo_f, hi_f = np.isfinite(lo), np.isfinite(hi)
    mag = 10.0 ** rng.uniform(-7, 6, n)
    if lo_f and hi_f:
        inside = lo + (hi - lo) * np.concatenate([rng.uniform(0, 1, n // 2), 10.0 ** rng.uniform(-9, -0.4, n - n // 2)])
    elif lo_f:
        inside = lo + mag
    elif hi_f:
        inside = hi - mag
    else:
        inside = mag * rng.choice([-1, 1], n)
    special = [0.0, -0.0, 1.0, -1.0, np.nan, np.inf, -np.inf, 1e-300, -1e-300]
    for b in (lo, hi):
        if np.isfinite(b):
            special += [b, np.nextafter(b, np.inf), np.nextafter(b, -np.inf), b - 1.0, b + 1.0,
                        b - abs(b) * 1e-9 - 1e-12, b + abs(b) * 1e-9 + 1e-12]
    x = np.concatenate([inside, np.array(special, dtype=float)])
    return x[rng.permutation(len(x))]


def scale_of(name, fn, lam, sh, x, res):
    """cancellation scale S of one coded formula at x (see the header); res = the implementation's result"""
    with np.errstate(all="ignore"):
        c0 = bool(np.isclose(lam, 0))
        c2 = bool(np.isclose(lam, 2))
        a = np.abs(res)
        if fn == "derivative" or name in ("Normalizer", "LogNormal", "Manly"):
            return a
        if fn == "normalize":
            if name == "BoxCox":
                return a if c0 else (np.abs(np.power(x, lam)) + 1) / abs(lam)
            if name == "BoxCoxShift":
                return a if c0 else (np.abs(np.power(x + sh, lam)) + 1) / abs(lam)
            if name == "Modulus":
                return a if c0 else (np.power(np.abs(x) + 1, lam) + 1) / abs(lam)
            if name == "YeoJohnson":
                sp = a if c0 else (np.power(np.abs(x) + 1, lam) + 1) / abs(lam)
                sn = a if c2 else (np.power(np.abs(x) + 1, 2 - lam) + 1) / abs(2 - lam)
                return np.where(x >= 0, sp, sn)
        if fn == "denormalize":
            if name == "BoxCox":
                return a
            if name == "BoxCoxShift":
                return np.abs(res + sh) + abs(sh)
            if name in ("Modulus", "YeoJohnson"):
                return a + 2
        raise KeyError((name, fn))


def agree(a, b, S):
    """a, b arrays; NaN pattern and infinities exact, finite values within ULPS*eps*S"""
    a = np.asarray(a, dtype=float).ravel()
    b = np.asarray(b, dtype=float).ravel()
    S = np.broadcast_to(np.asarray(S, dtype=float).ravel() if np.ndim(S) else S, a.shape)
    if a.shape != b.shape:
        return np.zeros(a.shape, bool) if a.size else np.array([False])
    na, nb = np.isnan(a), np.isnan(b)
    ok = (na & nb)
    both = ~na & ~nb
    ia = np.isinf(a) | np.isinf(b)
    with np.errstate(all="ignore"):
        ok |= both & ia & (a == b)
        # an infinite scale means the coded formula overflowed on the way: any finite/inf pair produced alike is compared above
        ok |= both & ~ia & (np.abs(a - b) <= ULPS * EPS * np.where(np.isfinite(S), S, np.inf) + 1e-300)
    return ok


def hexl(a):
    return [C.fhex(v) for v in np.asarray(a, dtype=float).ravel()]


class Quiet:
    def __enter__(self):
        self.w = warnings.catch_warnings()
        self.w.__enter__()
        warnings.simplefilter("ignore")
        self.e = np.errstate(all="ignore")
        self.e.__enter__()

    def __exit__(self, *a):
        self.e.__exit__(*a)
        self.w.__exit__(*a)


# ------------------------------------------------------------------------------------------- correspondence

def corr_scalar(ctx, drv, rng, cfgs):
    """public API (normalize / denormalize / derivative), raw formulas and the range properties"""
    n_pts = 160 if ctx.tier == "thorough" else 24
    bad = 0
    for name, lam, sh in cfgs:
        k = KINDS[name]
        nz = make(name, lam, sh)
        with Quiet():
            nr = tuple(float(v) for v in nz.normalize_range)
            dr = tuple(float(v) for v in nz.denormalize_range)
        mr = drv.call("norm_range", ("n", k), lam, sh)
        md = drv.call("denorm_range", ("n", k), lam, sh)
        key = (name, "lam=%r" % lam, "shift=%r" % sh)
        ctx.count(key + ("ranges",), hist=dict(kind=name, fn="ranges", lam_class=lam_class(lam)))
        if tuple(mr) != nr or tuple(md) != dr:
            bad += 1
            ctx.violation("correspondence: range properties", "model and implementation disagree on normalize_range/denormalize_range",
                          dict(normalizer=name, lmbda=C.fhex(lam), shift=C.fhex(sh), impl=[nr, dr], model=[list(mr), list(md)]),
                          key="corr:ranges:%s" % name, no_input=not range_property_fails(name, lam, sh))
        for fn, (lo, hi) in (("normalize", nr), ("derivative", nr), ("denormalize", dr)):
            x = data_for(rng, lo, hi, n_pts)
            shape = (len(x),)
            if rng.random() < 0.3 and len(x) % 2 == 0:
                shape = (2, len(x) // 2)
            with Quiet():
                try:
                    a = getattr(nz, fn)(x.reshape(shape))
                except Exception as e:  # the implementation must not raise on any float data
                    ctx.violation("correspondence: %s raised" % fn, "%s.%s raised %r" % (name, fn, e),
                                  dict(normalizer=name, lmbda=C.fhex(lam), shift=C.fhex(sh), fn=fn, data=hexl(x)),
                                  key="raise:%s:%s" % (name, fn))
                    continue
                raw = getattr(nz, "_" + fn)(x)
            b = drv.call(fn, ("n", k), lam, sh, x)
            braw = drv.call(fn + "_raw", ("n", k), lam, sh, x)
            S = scale_of(name, fn, lam, sh, x, np.asarray(a, dtype=float).ravel())
            Sraw = scale_of(name, fn, lam, sh, x, np.asarray(raw, dtype=float).ravel())
            ok = agree(a, b, S)
            # the raw formulas only ever see data that passed _check_input
            with np.errstate(all="ignore"):
                valid = ~np.isnan(x) & ((x > lo) & (x < hi) if (np.isfinite(lo) or np.isfinite(hi)) else True)
            if np.shape(raw) == np.shape(x):
                okraw = agree(raw, braw, Sraw) | ~valid
            elif np.ndim(raw) == 0:      # base class _derivative etc. may return a scalar for scalar formulas
                okraw = agree(np.full(x.shape, float(raw)), braw, Sraw) | ~valid
            else:
                okraw = np.array([False])
            nvalid = int(np.isfinite(np.asarray(a, dtype=float)).sum())
            ctx.count(key + (fn,) if nvalid >= 4 else None, n=len(x),
                      hist=dict(kind=name, fn=fn, lam_class=lam_class(lam), data=data_class(x, lo, hi)))
            ctx.sample(dict(normalizer=name, lmbda=lam, shift=sh, fn=fn, x=[float(v) for v in x[:4]],
                            impl=[float(v) for v in np.asarray(a).ravel()[:4]], model=[float(v) for v in b[:4]]))
            if np.shape(a) != shape:
                ctx.violation("correspondence: %s output shape" % fn, "output shape differs from input shape",
                              dict(normalizer=name, fn=fn, shape=list(shape), out=list(np.shape(a))), key="shape:%s" % fn)
            if not ok.all() or not okraw.all():
                bad += 1
                i = int(np.argmin(ok)) if not ok.all() else int(np.argmin(okraw))
                which = fn if not ok.all() else "_" + fn
                av = np.asarray(a if not ok.all() else raw, dtype=float).ravel()[i]
                bv = (b if not ok.all() else braw)[i]
                case = dict(kind="scalar", normalizer=name, lmbda=C.fhex(lam), shift=C.fhex(sh), fn=fn, data=[C.fhex(x[i])],
                            impl=C.fhex(av), model=C.fhex(bv), where=which)
                # is this datum also a counter-example to the property itself?  ask the probes on exactly this input
                prop_fail = probe_point(name, lam, sh, fn, float(x[i]))
                ctx.violation("correspondence: %s.%s" % (name, which),
                              "model and implementation disagree at x=%r: impl=%r model=%r%s" % (float(x[i]), float(av), float(bv),
                                                                                           "; " + prop_fail if prop_fail else ""),
                              case, key="corr:%s:%s" % (name, fn), no_input=not prop_fail)
    return bad


def lam_class(lam):
    if lam == 0 or lam == 2:
        return "special"
    if abs(lam) <= ATOL0:
        return "close0"
    if abs(lam - 2) <= ATOL2:
        return "close2"
    return ("neg" if lam < 0 else "pos(0,2)" if lam < 2 else "gt2")


def data_class(x, lo, hi):
    return "bounded" if (np.isfinite(lo) or np.isfinite(hi)) else "unbounded"


def range_property_fails(name, lam, sh):
    """does the implementation's denormalize_range differ from the image of normalize?  (probe used to classify)"""
    return bool(probe_ranges_one(name, lam, sh))


def loglik_compare(ctx, drv, name, lam, sh, x, tag):
    """one data set: implementation vs model log-likelihoods, and the definition probe when they differ"""
    k = KINDS[name]
    nz = make(name, lam, sh)
    with Quiet():
        a1 = float(nz.kernel_loglikelihood(x))
        a2 = float(nz.loglikelihood(x))
        xv = x[np.isfinite(np.asarray(nz.normalize(x), dtype=float))]
        zz = np.asarray(nz._normalize(xv), dtype=float)
        dd = np.asarray(nz._derivative(xv), dtype=float) * np.ones_like(xv)
    b1 = drv.call("kernel_loglikelihood", ("n", k), lam, sh, x)
    b2 = drv.call("loglikelihood", ("n", k), lam, sh, x)
    nn = len(xv)
    # rtol 1e-9 against the magnitude of the accumulated terms (numpy sums pairwise, the model left to right;
    # z_i differ by the transcendental kernels): n/2*|ln var| + sum |ln d_i| + n/2*(ln 2 pi + 1), and the
    # conditioning of ln(var) with respect to ulp errors in z: n/2 * ULPS*eps*max|S_z| * 2*sqrt(n)/std
    with np.errstate(all="ignore"):
        var = np.var(zz)
        Sz = np.max(scale_of(name, "normalize", lam, sh, xv, zz)) if nn else 0.0
        scale = 0.5 * nn * abs(np.log(var)) + np.sum(np.abs(np.log(np.maximum(1e-16, dd)))) + 0.5 * nn * 2.84 + abs(a1)
        tol = 1e-9 * scale + 0.5 * nn * ULPS * EPS * Sz * 2 * math.sqrt(nn) / math.sqrt(var)
    okk = (np.isnan(a1) and np.isnan(b1)) or abs(a1 - b1) <= tol or a1 == b1
    okl = (np.isnan(a2) and np.isnan(b2)) or abs(a2 - b2) <= tol or a2 == b2
    with np.errstate(all="ignore"):
        dmag = "%+d" % int(np.clip(np.round(np.nanmedian(np.log10(np.maximum(dd, 1e-300)))), -25, 25)) if nn else "-"
    ctx.count((name, lam_class(lam), "loglik", min(nn, 8), tag, dmag), hist=dict(kind=name, fn="loglikelihood", lam_class=lam_class(lam), log10_derivative=dmag))
    pf = probe_loglik_one(nz, x)
    if not (okk and okl):
        ctx.violation("correspondence: %s.loglikelihood" % name,
                      "model and implementation log-likelihood differ: kernel %r vs %r, full %r vs %r (tol %.3g)%s" % (
                          a1, b1, a2, b2, tol, "; " + pf if pf else ""),
                      dict(kind="loglik", normalizer=name, lmbda=C.fhex(lam), shift=C.fhex(sh), data=hexl(x)),
                      key="corr:%s:loglik" % name, no_input=not pf)
    elif pf and tag == "extreme":
        ctx.violation("probe: log-likelihood definition", "%s(lmbda=%r): %s" % (name, lam, pf),
                      dict(kind="loglik", normalizer=name, lmbda=C.fhex(lam), shift=C.fhex(sh), data=hexl(x)), key="loglik-def:%s" % name)


def extreme_lik_data(rng):
    """data / parameter combinations whose derivative spans 1e-20 ... 1e+20: both ends of the guard max(1e-16, derivative) of the code
    (the lower clamp 1e-16 is part of the model; there is no upper clamp)"""
    u = lambda a, b, n=12: 10.0 ** rng.uniform(a, b, n)      # noqa: E731
    out = [("LogNormal", 1.0, 0.0, u(-19, -17)), ("LogNormal", 1.0, 0.0, u(17, 19)), ("LogNormal", 1.0, 0.0, u(-18, 18, 24)),
           ("BoxCox", -1.0, 0.0, u(-11, -9)), ("BoxCox", -1.0, 0.0, u(9, 11)), ("BoxCox", 3.0, 0.0, u(8, 10)), ("BoxCox", 3.0, 0.0, u(-10, -8)),
           ("BoxCox", 0.0, 0.0, u(-19, -17)), ("BoxCoxShift", 3.0, 1.0, u(8, 10)), ("BoxCoxShift", -1.0, 0.5, u(9, 10)),
           ("Manly", 1.0, 0.0, rng.uniform(38, 46, 12)), ("Manly", 1.0, 0.0, rng.uniform(-46, -38, 12)), ("Manly", -1.0, 0.0, rng.uniform(-46, -38, 12)),
           ("Manly", 0.5, 0.0, rng.uniform(-90, 90, 24)),
           ("Modulus", 5.0, 0.0, u(4, 5) * rng.choice([-1, 1], 12)), ("Modulus", -3.0, 0.0, u(4, 5) * rng.choice([-1, 1], 12)),
           ("YeoJohnson", 5.0, 0.0, u(4, 5)), ("YeoJohnson", 5.0, 0.0, -u(4, 5)), ("YeoJohnson", -3.0, 0.0, -u(4, 5)), ("YeoJohnson", -3.0, 0.0, u(4, 5)),
           ("YeoJohnson", 4.5, 0.0, u(3, 6, 16) * rng.choice([-1, 1], 16))]
    return out


def corr_loglik(ctx, drv, rng, cfgs):
    """kernel_loglikelihood / loglikelihood incl. NaN and out-of-range entries (which must be ignored)"""
    reps = 6 if ctx.tier == "thorough" else 1
    for name, lam, sh in cfgs:
        if abs(lam) > 3 or name == "Normalizer" and False:
            continue
        k = KINDS[name]
        nz = make(name, lam, sh)
        for rep in range(reps):
            n = int(rng.integers(3, 40))
            z = rng.normal(0.3, 0.6, n)
            with Quiet():
                lo, hi = (float(v) for v in nz.denormalize_range)
                z = z[(z > lo) & (z < hi)]
                x = np.asarray(nz.denormalize(z), dtype=float)
            x = x[np.isfinite(x)]
            if len(x) < 3:
                continue
            extra = [np.nan]
            nlo = float(nz.normalize_range[0])
            if np.isfinite(nlo):
                extra += [nlo - 1.0, nlo]
            x = np.concatenate([x, extra])
            x = x[rng.permutation(len(x))]
            loglik_compare(ctx, drv, name, lam, sh, x, "generated")
    for name, lam, sh, x in extreme_lik_data(rng):
        loglik_compare(ctx, drv, name, float(lam), float(sh), np.concatenate([np.asarray(x, dtype=float), [np.nan]]), "extreme")


# ------------------------------------------------------------------------------------------- mpmath reference

def mp_maps(name, lam, sh):
    """high-precision version of the CODED maps (same branch decision as the code: np.isclose) -> (N, D, dN)"""
    import mpmath as mp
    mp.mp.dps = 60
    c0 = bool(np.isclose(lam, 0))
    c2 = bool(np.isclose(lam, 2))
    L = mp.mpf(lam)
    s = mp.mpf(sh)

    def bc(l, c, u):       # gbc of the proofs
        return u if c else (mp.exp(l * u) - 1) / l

    def bci(l, c, v):
        return v if c else mp.log(1 + v * l) / l

    if name == "Normalizer":
        return (lambda x: mp.mpf(x)), (lambda y: mp.mpf(y)), (lambda x: mp.mpf(1))
    if name == "LogNormal":
        return (lambda x: mp.log(mp.mpf(x))), (lambda y: mp.exp(mp.mpf(y))), (lambda x: 1 / mp.mpf(x))
    if name in ("BoxCox", "BoxCoxShift"):
        s_ = s if name == "BoxCoxShift" else mp.mpf(0)
        return (lambda x: bc(L, c0, mp.log(mp.mpf(x) + s_)),
                lambda y: mp.exp(bci(L, c0, mp.mpf(y))) - s_,
                lambda x: (mp.mpf(x) + s_) ** (L - 1))
    if name == "Manly":
        return (lambda x: bc(L, c0, mp.mpf(x)), lambda y: bci(L, c0, mp.mpf(y)), lambda x: mp.exp(L * mp.mpf(x)))
    if name in ("YeoJohnson", "Modulus"):
        lN, cN = (2 - L, c2) if name == "YeoJohnson" else (L, c0)

        def N(x):
            x = mp.mpf(x)
            return bc(L, c0, mp.log(1 + x)) if x >= 0 else -bc(lN, cN, mp.log(1 - x))

        def D(y):
            y = mp.mpf(y)
            return mp.exp(bci(L, c0, y)) - 1 if y >= 0 else 1 - mp.exp(bci(lN, cN, -y))

        def dN(x):
            x = mp.mpf(x)
            if name == "Modulus":
                return (abs(x) + 1) ** (L - 1)
            return (abs(x) + 1) ** (mp.sign(x) * (L - 1))
        return N, D, dN
    raise KeyError(name)


def true_derivative(name, lam, sh, x):
    """derivative of the coded map N at x by high-precision differentiation of the mp reference"""
    import mpmath as mp
    N, _, _ = mp_maps(name, lam, sh)
    if x == 0 and name in ("YeoJohnson", "Modulus"):
        h = mp.mpf(10) ** -25
        return (N(h) - N(-h)) / (2 * h)
    return mp.diff(N, mp.mpf(x), h=mp.mpf(10) ** -20 * max(1, abs(x)) if x != 0 else mp.mpf(10) ** -20)


def image_bounds(name, lam, sh):
    """mathematical image of the normalize range under the coded N (lo, hi), from the proofs' closed form"""
    c0 = bool(np.isclose(lam, 0))
    c2 = bool(np.isclose(lam, 2))
    lo, hi = -np.inf, np.inf
    if name in ("BoxCox", "BoxCoxShift", "Manly") and not c0:
        if lam < 0:
            hi = -1 / lam
        else:
            lo = -1 / lam
    if name == "YeoJohnson":
        if lam < 0 and not c0:
            hi = -1 / lam
        if lam > 2 and not c2:
            lo = -1 / (lam - 2)
    if name == "Modulus" and lam < 0 and not c0:
        lo, hi = 1 / lam, -1 / lam
    return lo, hi


# ------------------------------------------------------------------------------------------- probes

def probe_ranges_one(name, lam, sh):
    """image of normalize vs denormalize_range, on the implementation: points of the image must be accepted by
    denormalize (not NaN), points beyond the image must be rejected (NaN)"""
    nz = make(name, lam, sh)
    lo, hi = image_bounds(name, lam, sh)
    msgs = []
    with Quiet():
        dr = tuple(float(v) for v in nz.denormalize_range)
        for b, side in ((lo, 1), (hi, -1)):
            if not np.isfinite(b):
                continue
            inside = b + side * abs(b) * np.array([1e-6, 1e-3, 0.3])
            outside = b - side * abs(b) * np.array([1e-6, 1e-3, 0.5, 3.0])
            di = np.asarray(nz.denormalize(inside), dtype=float)
            do = np.asarray(nz.denormalize(outside), dtype=float)
            if np.isnan(di).any():
                msgs.append("denormalize rejects %r which lies in the image of normalize (image bound %r, coded range %r)" % (
                    float(inside[np.isnan(di)][0]), b, dr))
            if (~np.isnan(do)).any():
                msgs.append("denormalize accepts %r -> %r which lies outside the image of normalize (image bound %r, coded range %r)" % (
                    float(outside[~np.isnan(do)][0]), float(do[~np.isnan(do)][0]), b, dr))
        # direct: normalize(x) for x over the normalize range must be denormalizable
        nlo = float(nz.normalize_range[0])
        xs = (nlo if np.isfinite(nlo) else 0.0) + np.array([1e-2, 0.1, 0.5, 1.0, 2.0, 5.0])
        if not np.isfinite(nlo):
            xs = np.concatenate([-xs, [0.0], xs])
        z = np.asarray(nz.normalize(xs), dtype=float)
        back = np.asarray(nz.denormalize(z), dtype=float)
        # image points that round onto the end point of the open range (b**lmbda below 1 ulp of 1) are not counter-examples
        onb = np.zeros(z.shape, bool)
        for b in (lo, hi):
            if np.isfinite(b):
                onb |= np.abs(z - b) <= 8 * EPS * abs(b)
        m = np.isfinite(z) & np.isnan(back) & ~onb
        if m.any():
            msgs.append("denormalize(normalize(x)) is NaN for x=%r (normalized %r, coded denormalize_range %r)" % (
                float(xs[m][0]), float(z[m][0]), dr))
    return "; ".join(msgs)


def probe_point(name, lam, sh, fn, x):
    """property statement at one datum on the implementation: NaN policy, value against the mp reference,
    round trip.  Returns a message if the PROPERTY fails there, '' otherwise."""
    import mpmath as mp
    nz = make(name, lam, sh)
    N, D, dN = mp_maps(name, lam, sh)
    with Quiet():
        nr = tuple(float(v) for v in nz.normalize_range)
        dr = image_bounds(name, lam, sh)
        rng_ = nr if fn in ("normalize", "derivative") else dr
        out = float(np.asarray(getattr(nz, fn)(np.array([x])), dtype=float)[0])
        inr = (not math.isnan(x)) and (rng_[0] < x < rng_[1]) if any(np.isfinite(rng_)) else not math.isnan(x)
        if not inr:
            return "" if math.isnan(out) else "%s(%r) = %r but the datum is NaN/out of range %r" % (fn, x, out, rng_)
        if math.isinf(x):
            return ""
        ref = {"normalize": N, "denormalize": D, "derivative": dN}[fn](x)
        S = float(scale_of(name, fn, lam, sh, np.array([x]), np.array([float(ref)]))[0])
        if fn == "derivative" and lam_class(lam) in ("close0", "close2"):
            return ""  # reported derivative carries the documented factor in the logarithmic branch
        if math.isnan(out) or abs(mp.mpf(out) - ref) > 4 * ULPS * EPS * S + 1e-300:
            if not math.isfinite(S) or (math.isinf(out) and abs(ref) > 1e300):
                return ""
            return "%s(%r) = %r but the coded formula evaluates to %s (scale %.3g)" % (fn, x, out, mp.nstr(ref, 20), S)
    return ""


def probe_loglik_one(nz, x):
    """log-likelihood against its definition: sum of log N(z_i; mean, var) + sum log T'(x_i) over valid data"""
    with Quiet():
        xv = x[np.isfinite(np.asarray(nz.normalize(x), dtype=float))]
        if len(xv) < 2:
            return ""
        z = np.asarray(nz.normalize(xv), dtype=float)
        d = np.asarray(nz.derivative(xv), dtype=float)
        mu, var = np.mean(z), np.var(z)
        if not var > 0:
            return ""
        ref = np.sum(-0.5 * np.log(2 * np.pi * var) - (z - mu) ** 2 / (2 * var)) + np.sum(np.log(np.maximum(1e-16, d)))
        got = float(nz.loglikelihood(x))
        kern = float(nz.kernel_loglikelihood(x))
        n = len(xv)
        scale = 0.5 * n * abs(np.log(var)) + np.sum(np.abs(np.log(np.maximum(1e-16, d)))) + 0.5 * n * 2.84 + abs(ref)
        msgs = []
        if not abs(got - ref) <= 1e-9 * scale:
            msgs.append("loglikelihood %r differs from its definition %r" % (got, float(ref)))
        if not abs((got - kern) - (-0.5 * n * (np.log(2 * np.pi) + 1))) <= 1e-9 * scale:
            msgs.append("loglikelihood - kernel_loglikelihood = %r, expected -n/2 (ln 2pi + 1) = %r" % (
                got - kern, -0.5 * n * (np.log(2 * np.pi) + 1)))
    return "; ".join(msgs)


def probes_scalar(ctx, rng, cfgs):
    """round trips, monotonicity, derivative, ranges, NaN policy on the implementation against the mp reference"""
    import mpmath as mp
    n_pts = 40 if ctx.tier == "thorough" else 7
    for name, lam, sh in cfgs:
        nz = make(name, lam, sh)
        N, D, dN = mp_maps(name, lam, sh)
        lc = lam_class(lam)
        with Quiet():
            nr = tuple(float(v) for v in nz.normalize_range)
        # --- ranges
        msg = probe_ranges_one(name, lam, sh)
        ctx.count((name, lc, "probe-ranges"), hist=dict(probe="ranges"))
        if msg:
            ctx.violation("probe: image of normalize vs denormalize_range", "%s(lmbda=%r, shift=%r): %s" % (name, lam, sh, msg),
                          dict(kind="ranges", normalizer=name, lmbda=C.fhex(lam), shift=C.fhex(sh)), key="ranges:%s:%s" % (name, "neg" if lam < 0 else "pos"))
        # --- data over the normalize range (moderate magnitudes so that the maps stay finite)
        lo = nr[0] if np.isfinite(nr[0]) else None
        mags = 10.0 ** rng.uniform(-4, 2, n_pts)
        xs = np.sort(lo + mags if lo is not None else np.concatenate([-mags, [0.0], mags]))
        with Quiet():
            z = np.asarray(nz.normalize(xs), dtype=float)
            back = np.asarray(nz.denormalize(z), dtype=float)
            der = np.asarray(nz.derivative(xs), dtype=float)
        for i, x in enumerate(xs):
            x = float(x)
            ctx.count((name, lc, "probe-roundtrip", "x<0" if x < 0 else "x>=0"), hist=dict(probe="roundtrip+derivative"))
            zref = N(x)
            SN = float(scale_of(name, "normalize", lam, sh, np.array([x]), np.array([float(zref)]))[0])
            case = dict(kind="scalar", normalizer=name, lmbda=C.fhex(lam), shift=C.fhex(sh), fn="normalize", data=[C.fhex(x)])
            if not math.isfinite(SN) or not math.isfinite(float(zref)):
                continue
            tolN = 4 * ULPS * EPS * SN + 1e-300
            if math.isnan(z[i]) or abs(mp.mpf(float(z[i])) - zref) > tolN:
                ctx.violation("probe: normalize vs coded formula (mpmath)", "%s(lmbda=%r, shift=%r).normalize(%r) = %r, formula gives %s" % (
                    name, lam, sh, x, float(z[i]), mp.nstr(zref, 20)), case, key="value:%s:normalize" % name)
                continue
            # round trip: |D(z~) - x| <= |D'(z)| * |z~ - z| + error of D itself ; D' = 1 / N'(x)
            dtrue = true_derivative(name, lam, sh, x)
            ilo_, ihi_ = image_bounds(name, lam, sh)
            if min(abs(float(z[i]) - ilo_), abs(float(z[i]) - ihi_)) <= 2 * tolN:
                continue    # the image point is indistinguishable from the open range's end point in doubles
            Dz = D(float(z[i]))
            if isinstance(Dz, mp.mpc):
                continue
            SD = float(scale_of(name, "denormalize", lam, sh, np.array([float(z[i])]), np.array([float(Dz)]))[0])
            tol_rt = float(tolN / abs(dtrue)) + 4 * ULPS * EPS * SD + 1e-300
            if math.isfinite(tol_rt) and (math.isnan(back[i]) or abs(back[i] - x) > tol_rt):
                ctx.violation("probe: denormalize(normalize(x)) = x", "%s(lmbda=%r, shift=%r): denormalize(normalize(%r)) = %r (tolerance %.3g)" % (
                    name, lam, sh, x, float(back[i]), tol_rt), dict(case, fn="roundtrip"), key="roundtrip:%s:%s" % (name, "neg" if lam < 0 else "pos"))
            # derivative: reported vs true derivative of the coded map
            if lc in ("close0", "close2"):
                # theorem C18_derivative_log_branch: reported = true * exp(e), |e| <= |lmbda - special| * |u(x)|
                u = abs(math.log(abs(x) + 1)) if name in ("YeoJohnson", "Modulus") else abs(x) if name == "Manly" else abs(math.log(x + sh))
                dev = (abs(lam) if abs(lam) <= ATOL0 else abs(lam - 2)) if name == "YeoJohnson" else abs(lam)
                if name == "YeoJohnson":
                    dev = max(abs(lam) if abs(lam) <= ATOL0 else 0.0, abs(lam - 2) if abs(lam - 2) <= ATOL2 else 0.0)
                rtol = math.expm1(dev * u) + 1e-9
            elif name == "Normalizer":
                rtol = 1e-9 + 4 * EPS * (abs(x) + 1) / 1e-6      # central difference with dx = 1e-6: cancellation eps*|x|/dx
            else:
                rtol = 1e-9
            if math.isnan(der[i]) or abs(mp.mpf(float(der[i])) - dtrue) > rtol * abs(dtrue):
                ctx.violation("probe: derivative vs numerical derivative", "%s(lmbda=%r, shift=%r).derivative(%r) = %r, d/dx normalize = %s" % (
                    name, lam, sh, x, float(der[i]), mp.nstr(dtrue, 15)), dict(case, fn="derivative"), key="derivative:%s" % name)
        # --- strict monotonicity (floats: non-decreasing, and increasing wherever the exact images differ by more than the error)
        zz = z[np.isfinite(z)]
        if len(zz) > 1:
            Sx = scale_of(name, "normalize", lam, sh, xs[np.isfinite(z)], zz)
            dz = np.diff(zz)
            tol = 4 * ULPS * EPS * (Sx[1:] + Sx[:-1])
            ctx.count((name, lc, "probe-monotone"), hist=dict(probe="monotone"))
            if (dz < -tol).any():
                j = int(np.argmax(dz < -tol))
                ctx.violation("probe: normalize strictly increasing", "%s(lmbda=%r): normalize(%r)=%r > normalize(%r)=%r" % (
                    name, lam, float(xs[j]), float(zz[j]), float(xs[j + 1]), float(zz[j + 1])),
                    dict(kind="scalar", normalizer=name, lmbda=C.fhex(lam), shift=C.fhex(sh), fn="normalize", data=hexl(xs[j:j + 2])),
                    key="monotone:%s" % name)
        # --- normalize(denormalize(y)) = y on the denormalize range
        ilo, ihi = image_bounds(name, lam, sh)
        ys = np.sort(rng.normal(0, 1.0, n_pts))
        ys = ys[(ys > ilo) & (ys < ihi)]
        with Quiet():
            xb = np.asarray(nz.denormalize(ys), dtype=float)
            yb = np.asarray(nz.normalize(xb), dtype=float)
        for i, y in enumerate(ys):
            y = float(y)
            ctx.count((name, lc, "probe-roundtrip2"), hist=dict(probe="norm(denorm(y))"))
            xref = D(y)
            if isinstance(xref, mp.mpc):
                continue
            if not math.isfinite(float(xref)) or not math.isfinite(xb[i]) and abs(xref) > 1e300:
                continue
            SD = float(scale_of(name, "denormalize", lam, sh, np.array([y]), np.array([float(xref)]))[0])
            errx = 4 * ULPS * EPS * SD
            dtrue = true_derivative(name, lam, sh, float(xref))
            SN = float(scale_of(name, "normalize", lam, sh, np.array([float(xref)]), np.array([y]))[0])
            tol = float(abs(dtrue) * errx) + 4 * ULPS * EPS * SN + 1e-300
            if math.isfinite(tol) and (math.isnan(yb[i]) or abs(yb[i] - y) > tol):
                ctx.violation("probe: normalize(denormalize(y)) = y", "%s(lmbda=%r, shift=%r): normalize(denormalize(%r)) = %r via x=%r (tolerance %.3g)" % (
                    name, lam, sh, y, float(yb[i]), float(xb[i]), tol),
                    dict(kind="scalar", normalizer=name, lmbda=C.fhex(lam), shift=C.fhex(sh), fn="denormalize", data=[C.fhex(y)]),
                    key="roundtrip2:%s:%s" % (name, "neg" if lam < 0 else "pos"))
        # --- NaN policy on arrays: NaN and out-of-range entries give NaN, the others are untouched by their neighbours
        x = np.array([np.nan, xs[len(xs) // 2], (nr[0] - 1.0) if np.isfinite(nr[0]) else xs[0], nr[0] if np.isfinite(nr[0]) else xs[-1], np.nan])
        with Quiet():
            o = np.asarray(nz.normalize(x), dtype=float)
            o1 = np.asarray(nz.normalize(x[1:2]), dtype=float)
        ctx.count((name, "probe-nan"), hist=dict(probe="nan policy"))
        # 0-d data (Python floats, as Krige.get_mean passes them) follow the same policy as one-element arrays
        for j, v in enumerate(x):
            for fn in ("normalize", "derivative", "denormalize"):
                with Quiet():
                    ref = float(np.asarray(getattr(nz, fn)(np.array([v])), dtype=float)[0])
                    try:
                        got = np.asarray(getattr(nz, fn)(float(v)), dtype=float)
                    except Exception as e:
                        ctx.violation("probe: 0-d datum", "%s(lmbda=%r).%s(%r) raised %s: %s (a one-element array gives %r)" % (
                            name, lam, fn, float(v), type(e).__name__, e, ref),
                            dict(kind="scalar", normalizer=name, lmbda=C.fhex(lam), shift=C.fhex(sh), fn=fn, data=[C.fhex(v)], zero_d=True),
                            key="zero-d:raise")
                        continue
                if got.shape != () or not C.bit_equal(got, ref):
                    ctx.violation("probe: 0-d datum", "%s(lmbda=%r).%s(%r) = %r, a one-element array gives %r" % (name, lam, fn, float(v), got.tolist(), ref),
                                  dict(kind="scalar", normalizer=name, lmbda=C.fhex(lam), shift=C.fhex(sh), fn=fn, data=[C.fhex(v)], zero_d=True),
                                  key="zero-d:value")
        exp_nan = np.array([True, False, np.isfinite(nr[0]), np.isfinite(nr[0]), True])
        if (np.isnan(o) != exp_nan).any() or not (o[1] == o1[0]):
            ctx.violation("probe: NaN policy of _check_input", "%s(lmbda=%r): normalize(%r) = %r" % (name, lam, x.tolist(), o.tolist()),
                          dict(kind="scalar", normalizer=name, lmbda=C.fhex(lam), shift=C.fhex(sh), fn="normalize", data=hexl(x)), key="nan:%s" % name)


def probes_likelihood(ctx, rng):
    """log-likelihood = its definition; fit = maximiser of kernel_loglikelihood (brute force over a lmbda grid)"""
    names = ["BoxCox", "YeoJohnson", "Modulus", "Manly", "BoxCoxShift"]
    reps = 8 if ctx.tier == "thorough" else 2
    grid = np.linspace(-4.5, 4.5, 1801 if ctx.tier == "thorough" else 361)
    for name in names:
        for rep in range(reps):
            # true parameters inside the default start bracket (-2, 2) of the scalar search, and (odd reps) well outside it:
            # the bracket is only where the search starts, the maximum-likelihood estimate is not confined to it
            lam0 = float(rng.uniform(-0.8, 1.8)) if rep % 2 == 0 else float(rng.choice([-1, 1]) * rng.uniform(2.5, 3.3))
            n = int(rng.integers(120, 260)) if rep % 2 else int(rng.integers(60, 200))
            gen = make(name, lam0, 0.0)
            with Quiet():
                lo, hi = (float(v) for v in gen.denormalize_range)
                zs = rng.normal(0.5, 0.35, 8 * n)
                if name in ("Manly",):
                    zs = rng.normal(0.0, 0.6, 8 * n)
                if np.isfinite(lo) and np.isfinite(hi):
                    zs = rng.normal(0.5 * (lo + hi), 0.2 * (hi - lo), 8 * n)
                elif np.isfinite(hi) and hi < 1.3:
                    zs = rng.normal(hi - 0.5, 0.2, 8 * n)
                elif np.isfinite(lo) and lo > -0.3:
                    zs = rng.normal(lo + 0.6, 0.2, 8 * n)
                zs = zs[(zs > lo + 0.05 * min(1.0, abs(lo))) & (zs < hi - 0.05 * min(1.0, abs(hi)))][:n]
                data = np.asarray(gen.denormalize(zs), dtype=float)
            data = data[np.isfinite(data)]
            if len(data) < 20:
                continue
            nz = make(name, 1.0, 0.0)
            msg = probe_loglik_one(make(name, lam0, 0.0), np.concatenate([data, [np.nan]]))
            ctx.count((name, "probe-loglik-def", rep), hist=dict(probe="loglik definition"))
            if msg:
                ctx.violation("probe: log-likelihood definition", "%s(lmbda=%r): %s" % (name, lam0, msg),
                              dict(kind="loglik", normalizer=name, lmbda=C.fhex(lam0), shift=C.fhex(0.0), data=hexl(data)), key="loglik-def:%s" % name)
            with Quiet():
                try:
                    res = nz.fit(data, skip=["shift"]) if name == "BoxCoxShift" else nz.fit(data)
                except Exception as e:
                    ctx.violation("probe: fit raised", "%s.fit raised %r" % (name, e), dict(kind="fit", normalizer=name, data=hexl(data)), key="fit-raise:%s" % name)
                    continue
                lam_fit = float(nz.lmbda)
                f_fit = float(nz.kernel_loglikelihood(data))
                vals = np.array([float(make(name, float(g), 0.0).kernel_loglikelihood(data)) for g in grid])
            ctx.count((name, "probe-fit", rep), hist=dict(probe="fit vs brute force"))
            ctx.sample(dict(probe="fit", normalizer=name, true_lmbda=lam0, fitted=lam_fit, grid_best=float(grid[np.nanargmax(vals)]), n=len(data)))
            best = float(np.nanmax(vals))
            # Brent's abscissa tolerance (1.5e-8 relative) changes a smooth maximum by O(1e-16 * f''); 1e-7*(1+|f|) leaves room
            # for the evaluation noise of the likelihood itself (sum of n logs).
            if not (f_fit >= best - 1e-7 * (1 + abs(best))):
                ctx.violation("probe: fit maximises the log-likelihood", "%s.fit -> lmbda=%r with kernel log-likelihood %r, but lmbda=%r on the grid gives %r" % (
                    name, lam_fit, f_fit, float(grid[np.nanargmax(vals)]), best),
                    dict(kind="fit", normalizer=name, data=hexl(data), fitted=C.fhex(lam_fit)), key="fit:%s" % name)
            if res.get("lmbda") != nz.lmbda or abs(lam_fit - float(nz._opti.x)) > 0:
                ctx.violation("probe: fit result bookkeeping", "%s.fit returned %r but holds lmbda=%r (optimiser %r)" % (name, res, nz.lmbda, nz._opti.x),
                              dict(kind="fit", normalizer=name, data=hexl(data)), key="fit-book:%s" % name)


# ------------------------------------------------------------------------------------------- fit

class SpyOpt:
    """stands in for scipy.optimize inside gstools.normalizer.base: records every trial point the objective is
    called with; mode 'real' forwards to scipy, mode 'fake' is an arbitrary optimiser (random trials, random result)"""

    def __init__(self, real, mode, rng):
        self.real, self.mode, self.rng = real, mode, rng
        self.trials, self.x, self.called = [], None, False

    def _run(self, realfn, fun, args, n, kw):
        from scipy.optimize import OptimizeResult
        self.called = True

        def f2(par, *a):
            self.trials.append(np.atleast_1d(np.asarray(par, dtype=float)).copy())
            return fun(par, *a)
        if self.mode == "real":
            out = realfn(f2, args=args, **kw)
        else:
            for _ in range(int(self.rng.integers(1, 6))):
                t = self.rng.normal(0.5, 1.0, n)
                f2(t if n > 1 else float(t[0]), *args)
            x = self.rng.normal(0.5, 1.0, n)
            out = OptimizeResult(x=x if n > 1 else float(x[0]), success=True)
        self.x = np.atleast_1d(np.asarray(out.x, dtype=float))
        return out

    def minimize_scalar(self, fun, args=(), **kw):
        return self._run(self.real.minimize_scalar, fun, args, 1, kw)

    def minimize(self, fun, args=(), **kw):
        return self._run(self.real.minimize, fun, args, len(np.atleast_1d(kw["x0"])), kw)


def fit_classes():
    N = gn()

    class Tri(N.BoxCoxShift):
        """a user-defined three-parameter normalizer (supported API): 'alpha' sorts before 'lmbda' and 'shift'"""
        default_parameter = {"shift": 0, "lmbda": 1, "alpha": 1.0}
    return [N.BoxCox, N.YeoJohnson, N.Manly, N.BoxCoxShift, Tri, N.LogNormal]


def cond_scale(name, lam, sh, cval, ct, cm, cond):
    """error scale of normalize(cval - ct) - cm: cancellation scale of the formula, the mean, and the rounding of the
    detrended datum carried through the derivative"""
    nz = make(name, lam, sh)
    with Quiet():
        f = np.asarray(cval, dtype=float) - ct
        dz = np.abs(np.asarray(nz.derivative(f), dtype=float))
        Sn = scale_of(name, "normalize", lam, sh, f, np.asarray(cond, dtype=float) + cm)
    return np.where(np.isfinite(dz), dz, 0.0) * (np.abs(cval) + np.abs(ct)) + np.where(np.isfinite(Sn), Sn, np.inf) + np.abs(cm) + np.abs(cond)


def corr_fit(ctx, drv, rng):
    """fit bookkeeping vs the model's fit_book for recorded real optimiser runs and for arbitrary optimisers, all
    skip subsets; the property part: skipped parameters untouched, free parameters = optimiser result, dict = state"""
    import itertools
    from gstools.normalizer import base as B
    reps = 3 if ctx.tier == "thorough" else 1
    real = B.spo
    try:
        for cls in fit_classes():
            names = sorted(cls.default_parameter)
            subsets = [list(c) for r in range(len(names) + 1) for c in itertools.combinations(names, r)]
            for skip in subsets:
                for mode in ("real", "fake"):
                    for rep in range(reps):
                        init = {"lmbda": float(rng.uniform(-0.5, 1.5)), "shift": float(rng.uniform(0.5, 2.0)), "alpha": float(rng.normal())}
                        nz = cls(**{k: init[k] for k in names})
                        data = np.exp(rng.normal(0.2, 0.4, int(rng.integers(15, 40))))
                        st0 = np.array([float(getattr(nz, k)) for k in names])
                        spy = SpyOpt(real, mode, rng)
                        B.spo = spy
                        with Quiet():
                            try:
                                res = nz.fit(data, skip=list(skip) if rng.random() < 0.8 or skip else None)
                            except Exception as e:
                                B.spo = real
                                ctx.violation("probe: fit raised", "%s.fit(skip=%r) raised %r" % (cls.__name__, skip, e),
                                              dict(kind="fit", normalizer=cls.__name__, skip=skip, data=hexl(data)), key="fit-raise:%s" % cls.__name__)
                                continue
                        B.spo = real
                        st1 = np.array([float(getattr(nz, k)) for k in names])
                        mask = np.array([1 if k in skip else 0 for k in names], dtype=np.int64)
                        nfree = int((mask == 0).sum())
                        trials = np.array(spy.trials, dtype=float).reshape(len(spy.trials), nfree) if spy.trials else np.zeros((0, 0))
                        xfin = spy.x if spy.x is not None else np.array([])
                        if len(names) == 0:
                            mst, has, mdict = st0, False, np.array([])
                        else:
                            mst, has, mdict = drv.call("fit_book", mask, trials, xfin, st0)
                        ctx.count(("fit-book", cls.__name__, tuple(skip), mode), hist=dict(fn="fit bookkeeping", fit_skip="%d of %d" % (len(skip), len(names)), optimiser=mode))
                        # the property
                        pf = []
                        for i, k in enumerate(names):
                            if k in skip and not C.bit_equal(st1[i], st0[i]):
                                pf.append("skipped parameter %s changed from %r to %r" % (k, st0[i], st1[i]))
                        free = [k for k in names if k not in skip]
                        if free:
                            if not C.bit_equal(np.array([st1[names.index(k)] for k in free]), xfin):
                                pf.append("free parameters %r hold %r but the optimiser returned %r" % (
                                    free, [st1[names.index(k)] for k in free], xfin.tolist()))
                            if sorted(res) != names or not C.bit_equal(np.array([float(res[k]) for k in names]), st1):
                                pf.append("returned dict %r differs from the object state %r" % (res, dict(zip(names, st1.tolist()))))
                        else:
                            if res != {} or spy.called or not C.bit_equal(st0, st1):
                                pf.append("nothing to fit, but fit returned %r / state %r -> %r" % (res, st0.tolist(), st1.tolist()))
                        okm = C.bit_equal(st1, mst) and (bool(has) == bool(free)) and (not has or C.bit_equal(mdict, st1))
                        if pf or not okm:
                            ctx.violation("correspondence: fit bookkeeping" if not pf else "probe: fit bookkeeping",
                                          "%s.fit(skip=%r) with %s optimiser: %s" % (cls.__name__, skip, mode, "; ".join(pf) or
                                                                                  "state %r, model %r" % (st1.tolist(), np.asarray(mst).tolist())),
                                          dict(kind="fit", normalizer=cls.__name__, names=names, skip=skip, optimiser=mode, init=hexl(st0),
                                               trials=[hexl(t) for t in spy.trials], result=hexl(xfin), state=hexl(st1), data=hexl(data)),
                                          key="fit-book:%s" % ("skipped-changed" if pf else "model"), no_input=not pf)
    finally:
        B.spo = real


def fit_data(rng, name, lam0, sh0, n):
    gen = make(name, lam0, sh0)
    with Quiet():
        lo, hi = (float(v) for v in gen.denormalize_range)
        zs = rng.normal(0.0 if name == "Manly" else 0.5, 0.6 if name == "Manly" else 0.35, 6 * n)
        zs = zs[(zs > lo + 0.05) & (zs < hi - 0.05)][:n]
        data = np.asarray(gen.denormalize(zs), dtype=float)
    return data[np.isfinite(data)]


def probe_fit_scale(ctx, rng):
    """fit on data of large magnitude against a numerically stable reference of the same Box-Cox profile likelihood
    (scipy.stats.boxcox_llf): the estimate must maximise it over a lmbda grid whatever the unit of the data"""
    from scipy import stats
    N = gn()
    grid = np.linspace(-4.5, 4.5, 361)
    for scale in (1.0, 1e3, 1e6, 1e9):
        for rep in range(2 if ctx.tier == "thorough" else 1):
            data = np.exp(rng.normal(0.0, 0.5, int(rng.integers(100, 200)))) * scale
            nz = N.BoxCox()
            with Quiet():
                nz.fit(data)
                lfit = float(nz.lmbda)
                own = float(nz.kernel_loglikelihood(data))
                ref_fit = float(stats.boxcox_llf(lfit, data))
                vals = np.array([float(stats.boxcox_llf(float(g), data)) for g in grid])
            best = float(np.nanmax(vals))
            ctx.count(("probe-fit-scale", scale, rep), hist=dict(probe="fit vs stable reference, data scale %g" % scale))
            if not (ref_fit >= best - 1e-6 * (1 + abs(best))):
                ctx.violation("probe: fit maximises the log-likelihood (data scale)", "BoxCox().fit(data of magnitude %g) -> lmbda=%r; the profile log-likelihood "
                              "(stable evaluation) there is %r, at lmbda=%r it is %r; gstools' own kernel_loglikelihood at the fitted lmbda is %r "
                              "(the variance of the normalized data collapses in double precision for lmbda << 0, Brent's bracket search steps to lmbda = -8.47)" % (
                                  scale, lfit, ref_fit, float(grid[int(np.nanargmax(vals))]), best, own),
                              dict(kind="fit", normalizer="BoxCox", data=hexl(data), fitted=C.fhex(lfit)), key="fit:BoxCox:large-scale-data")


def probes_fit_skip(ctx, rng):
    """BoxCoxShift.fit with each single parameter skipped, all skipped, none skipped (explicit start values through
    keyword arguments); parameter-free classes; fit through Krige / vario_estimate / remove_trend_norm_mean"""
    import gstools as gs
    N = gn()
    reps = 4 if ctx.tier == "thorough" else 1

    def kll(lam, sh, data):
        with Quiet():
            return float(N.BoxCoxShift(lmbda=lam, shift=sh).kernel_loglikelihood(data))

    def book(nz, res, names, fixed, what, case):
        msgs = []
        for k, v in fixed.items():
            if not C.bit_equal(float(getattr(nz, k)), v):
                msgs.append("skipped parameter %s changed from %r to %r" % (k, v, float(getattr(nz, k))))
        if sorted(res) != sorted(names) or any(not C.bit_equal(float(res[k]), float(getattr(nz, k))) for k in names if k in res):
            msgs.append("returned dict %r differs from the state %r" % (res, {k: float(getattr(nz, k)) for k in names}))
        if msgs:
            ctx.violation("probe: fit keeps skipped parameters / dict = state", "%s: %s" % (what, "; ".join(msgs)), case, key="fit-book:skipped-changed")
        return not msgs

    for rep in range(reps):
        lam0, sh0 = float(rng.uniform(-0.4, 1.4)), float(rng.uniform(0.3, 2.0))
        data = fit_data(rng, "BoxCoxShift", lam0, sh0, int(rng.integers(80, 200)))
        if len(data) < 30:
            continue
        case = dict(kind="fit", normalizer="BoxCoxShift", lmbda=C.fhex(lam0), shift=C.fhex(sh0), data=hexl(data))
        names = ["lmbda", "shift"]
        # --- skip lmbda: bounded 1-D search over shift (start interval through keyword arguments)
        lo_s = float(-data.min() + 0.05 * (data.max() - data.min()))
        hi_s = lo_s + 5.0
        nz = N.BoxCoxShift(lmbda=lam0, shift=sh0 + 0.3)
        with Quiet():
            try:
                res = nz.fit(data, skip=["lmbda"], bounds=(lo_s, hi_s), method="bounded", bracket=None)
            except Exception as e:
                ctx.violation("probe: fit raised", "BoxCoxShift.fit(skip=['lmbda'], bounds=...) raised %r" % (e,), case, key="fit-raise:BoxCoxShift")
                res = None
        ctx.count(("probe-fit-skip", "lmbda", rep), hist=dict(probe="fit skip=[lmbda]"))
        if res is not None and book(nz, res, names, {"lmbda": lam0}, "BoxCoxShift.fit(skip=['lmbda'])", case):
            sfit = float(nz.shift)
            f_fit = kll(lam0, sfit, data)
            # the bounded scalar search returns a local maximum; the likelihood in the shift can have a second mode next to
            # -min(data), so the brute-force comparison is over the neighbourhood of the result (and the result must beat the start)
            grid = np.linspace(max(lo_s, sfit - 0.25), min(hi_s, sfit + 0.25), 401)
            best = max(kll(lam0, float(g), data) for g in grid)
            if not (lo_s <= sfit <= hi_s) or not f_fit >= best - 1e-6 * (1 + abs(best)):
                ctx.violation("probe: fit maximises the log-likelihood", "BoxCoxShift.fit(skip=['lmbda']) -> shift=%r (kernel log-likelihood %r), "
                              "but a shift within 0.25 of it gives %r with lmbda held at %r" % (sfit, f_fit, best, lam0),
                              dict(case, fitted=C.fhex(sfit)), key="fit:BoxCoxShift:skip-lmbda")
        # --- skip shift with an explicit bracket
        nz = N.BoxCoxShift(lmbda=1.0, shift=sh0)
        with Quiet():
            res = nz.fit(data, skip=["shift"], bracket=(-1.0, 1.5))
        ctx.count(("probe-fit-skip", "shift", rep), hist=dict(probe="fit skip=[shift]"))
        if book(nz, res, names, {"shift": sh0}, "BoxCoxShift.fit(skip=['shift'], bracket=(-1, 1.5))", case):
            lfit = float(nz.lmbda)
            f_fit = kll(lfit, sh0, data)
            grid = np.linspace(-3, 3, 241)
            best = max(kll(float(g), sh0, data) for g in grid)
            if not f_fit >= best - 1e-7 * (1 + abs(best)):
                ctx.violation("probe: fit maximises the log-likelihood", "BoxCoxShift.fit(skip=['shift']) -> lmbda=%r (%r), grid gives %r" % (lfit, f_fit, best),
                              dict(case, fitted=C.fhex(lfit)), key="fit:BoxCoxShift")
        # --- everything skipped
        nz = N.BoxCoxShift(lmbda=lam0, shift=sh0)
        with Quiet():
            res = nz.fit(data, skip=["lmbda", "shift"])
        ctx.count(("probe-fit-skip", "all", rep), hist=dict(probe="fit skip=all"))
        if res != {} or not (C.bit_equal(float(nz.lmbda), lam0) and C.bit_equal(float(nz.shift), sh0)):
            ctx.violation("probe: fit keeps skipped parameters / dict = state", "fit with every parameter skipped returned %r, state lmbda=%r shift=%r" % (
                res, nz.lmbda, nz.shift), case, key="fit-book:skipped-changed")
        # --- nothing skipped: simplex search from explicit start values; must not end below its start
        nz = N.BoxCoxShift(lmbda=0.3, shift=0.1)
        x0 = [lam0 + 0.1, sh0 + 0.1]
        with Quiet():
            res = nz.fit(data, x0=x0, method="Nelder-Mead")
        ctx.count(("probe-fit-skip", "none", rep), hist=dict(probe="fit skip=[]"))
        if book(nz, res, names, {}, "BoxCoxShift.fit(x0=..., method='Nelder-Mead')", case):
            f_fit, f_0 = kll(float(nz.lmbda), float(nz.shift), data), kll(x0[0], x0[1], data)
            xo = np.atleast_1d(nz._opti.x)
            if not (C.bit_equal(xo, [float(nz.lmbda), float(nz.shift)]) and f_fit >= f_0 - 1e-9 * (1 + abs(f_0))):
                ctx.violation("probe: fit maximises the log-likelihood", "BoxCoxShift.fit(x0=%r) -> (lmbda, shift)=(%r, %r) optimiser %r: "
                              "kernel log-likelihood %r, at the start values %r" % (x0, nz.lmbda, nz.shift, xo.tolist(), f_fit, f_0),
                              case, key="fit:BoxCoxShift:2d")
    # --- parameter-free classes
    for cls in (N.LogNormal, N.Normalizer):
        with Quiet():
            res = cls().fit(np.array([1.0, 2.0, 3.5]))
        ctx.count(("probe-fit-skip", cls.__name__), hist=dict(probe="fit without parameters"))
        if res != {}:
            ctx.violation("probe: fit keeps skipped parameters / dict = state", "%s.fit returned %r" % (cls.__name__, res),
                          dict(kind="fit", normalizer=cls.__name__), key="fit-book:skipped-changed")
    # --- fit through the public users equals the direct call on the detrended data
    for rep in range(reps):
        for cls in (N.BoxCox, N.YeoJohnson, N.BoxCoxShift):
            dim = 2
            npt = int(rng.integers(25, 60))
            pos = [rng.uniform(0, 10, npt) for _ in range(dim)]
            trend = lambda x, y: 0.05 * x + 0.5            # noqa: E731
            val = np.exp(rng.normal(0.3, 0.5, npt)) + 0.2 + trend(*pos)
            det = val - trend(*pos)
            kw = dict(shift=0.4) if cls is N.BoxCoxShift else {}
            desc = dict(kind="fit-users", normalizer=cls.__name__, pos=[hexl(p) for p in pos], val=hexl(val))
            with Quiet():
                try:
                    direct = cls(**kw)
                    dres = direct.fit(det.copy())
                    kr = gs.krige.Ordinary(gs.Exponential(dim=2, len_scale=3.0), pos, val.copy(), normalizer=cls(**kw), trend=trend, fit_normalizer=True)
                    _, _, vn = gs.vario_estimate(pos, val.copy(), np.linspace(0, 5, 6), normalizer=cls(**kw), trend=trend, fit_normalizer=True)
                    _, rn = gs.normalizer.remove_trend_norm_mean(pos, val.copy(), normalizer=cls(**kw), trend=trend, fit_normalizer=True)
                except Exception as e:
                    ctx.violation("probe: fit through public users raised", "%s: %r" % (cls.__name__, e), desc, key="fit-users-raise")
                    continue
            ctx.count(("probe-fit-users", cls.__name__, rep), hist=dict(probe="fit via Krige/vario_estimate/remove_trend_norm_mean"))
            for who, nzu in (("Krige(fit_normalizer=True)", kr.normalizer), ("vario_estimate(fit_normalizer=True)", vn),
                             ("remove_trend_norm_mean(fit_normalizer=True)", rn)):
                got = {k: float(getattr(nzu, k)) for k in sorted(cls.default_parameter)}
                ref = {k: float(v) for k, v in dres.items()}
                if sorted(got) != sorted(ref) or any(not C.bit_equal(got[k], ref[k]) for k in ref):
                    ctx.violation("probe: fit through public users = direct fit", "%s with %s: parameters %r, direct fit on the detrended data %r" % (
                        who, cls.__name__, got, ref), desc, key="fit-users:%s" % who.split("(")[0])


# ------------------------------------------------------------------------------------------- pipeline

def eval_on(fv, pos_pts, dim, value_type, drv):
    """independent evaluation of a mean/trend (None, constant, constant vector, callable) at the points, shape
    (n,) or (dim, n).  Constant vectors are cut/padded by the MODEL's single_val_vec."""
    n = pos_pts.shape[1]
    if fv is None:
        fv = 0.0
    if callable(fv):
        r = np.asarray(fv(*pos_pts), dtype=float)
        return np.broadcast_to(r, (dim, n) if value_type == "vector" else (n,)).astype(float)
    v = np.atleast_1d(np.asarray(fv, dtype=float)).ravel()
    if value_type == "vector":
        v = np.asarray(drv.call("single_val_vec", v, ("n", dim)), dtype=float) if drv is not None else np.pad(v[:dim], (0, max(0, dim - len(v))), "edge")
        return np.repeat(v[:, None], n, axis=1)
    return np.full(n, v[0])


def points_of(pos, mesh_type, dim):
    if mesh_type == "structured":
        g = np.meshgrid(*pos, indexing="ij")
        return np.array([a.ravel() for a in g])
    return np.asarray(pos, dtype=float).reshape(dim, -1)


def pipeline_cases(rng, tier):
    lin = lambda *c: 0.3 + 0.2 * c[0] - 0.1 * c[-1]          # noqa: E731
    quad = lambda *c: 0.05 * c[0] ** 2                       # noqa: E731
    vec = lambda *c: np.array([0.1 * c[0] + k for k in range(len(c))])   # noqa: E731
    norms = [("Normalizer", 1.0, 0.0), ("LogNormal", 1.0, 0.0), ("BoxCox", 0.5, 0.0), ("BoxCox", -0.5, 0.0), ("BoxCox", 0.0, 0.0),
             ("BoxCoxShift", 0.7, 1.5), ("YeoJohnson", 0.5, 0.0), ("YeoJohnson", 2.5, 0.0), ("YeoJohnson", -1.0, 0.0),
             ("YeoJohnson", 2.0, 0.0), ("Modulus", -0.5, 0.0), ("Modulus", 1.5, 0.0), ("Manly", 0.4, 0.0), ("Manly", -1.0, 0.0),
             ("Manly", 1e-9, 0.0)]
    cases = []
    reps = 8 if tier == "thorough" else 1
    for rep in range(reps):
        for nm in norms:
            for obj in ("SRF", "Krige", "Field", "CondSRF") if tier == "thorough" else ("SRF", "Krige", "Field"):
                dim = int(rng.integers(1, 4))
                mesh = "structured" if rng.random() < 0.5 else "unstructured"
                mean = [None, 0.4, lin][int(rng.integers(3))]
                trend = [None, -0.3, quad, lin][int(rng.integers(4))]
                cases.append(dict(obj=obj, norm=nm, dim=dim, mesh=mesh, mean=mean, trend=trend, value_type="scalar",
                                  seed=int(rng.integers(1, 10 ** 6))))
        # vector fields (normalizers with unbounded ranges)
        for nm in [("Normalizer", 1.0, 0.0), ("Manly", 0.3, 0.0), ("YeoJohnson", 1.5, 0.0), ("Modulus", 0.5, 0.0)]:
            dim = int(rng.integers(2, 4))
            mesh = "structured" if rng.random() < 0.5 else "unstructured"
            mean = [None, 0.4, tuple(0.2 - 0.3 * j for j in range(dim)), vec][int(rng.integers(4))]
            trend = [None, tuple(1.0 + j for j in range(dim)), vec, 0.7][int(rng.integers(4))]
            cases.append(dict(obj="SRF", norm=nm, dim=dim, mesh=mesh, mean=mean, trend=trend, value_type="vector",
                              seed=int(rng.integers(1, 10 ** 6))))
    # point counts 1, 2, dim, dim + 1 (the number of points coinciding with the dimension / the number of vector components) and
    # structured grids whose axis lengths equal dim or 1: vector and scalar fields, callable and constant mean / trend
    vec2 = lambda *c: np.array([0.1 * c[0] + 0.7 * k - 0.05 * c[-1] for k in range(len(c))])   # noqa: E731
    unb = [("Normalizer", 1.0, 0.0), ("Manly", 0.3, 0.0), ("YeoJohnson", 1.5, 0.0), ("Modulus", 0.5, 0.0)]
    for dim in (2, 3):
        for npt in (1, 2, dim, dim + 1):
            nm = unb[int(rng.integers(len(unb)))]
            mt = [(vec2, vec), (vec, tuple(1.0 + j for j in range(dim))), (tuple(0.2 - 0.3 * j for j in range(dim)), vec2)][int(rng.integers(3))]
            cases.append(dict(obj="SRF", norm=nm, dim=dim, mesh="unstructured", npt=npt, mean=mt[0], trend=mt[1], value_type="vector",
                              seed=int(rng.integers(1, 10 ** 6))))
            nm = norms[int(rng.integers(len(norms)))]
            cases.append(dict(obj=["SRF", "Krige", "Field"][int(rng.integers(3))], norm=nm, dim=dim, mesh="unstructured", npt=npt,
                              mean=[0.4, lin][int(rng.integers(2))], trend=[quad, lin][int(rng.integers(2))], value_type="scalar",
                              seed=int(rng.integers(1, 10 ** 6))))
        for axes in ([dim] * dim, [1] + [dim] * (dim - 1), [dim] + [1] * (dim - 1), [dim + 1] + [dim] * (dim - 1)):
            nm = unb[int(rng.integers(len(unb)))]
            cases.append(dict(obj="SRF", norm=nm, dim=dim, mesh="structured", axes=axes, mean=vec2, trend=vec, value_type="vector",
                              seed=int(rng.integers(1, 10 ** 6))))
            nm = norms[int(rng.integers(len(norms)))]
            cases.append(dict(obj=["SRF", "Krige", "Field"][int(rng.integers(3))], norm=nm, dim=dim, mesh="structured", axes=axes,
                              mean=lin, trend=quad, value_type="scalar", seed=int(rng.integers(1, 10 ** 6))))
    return cases


def describe_fv(fv):
    return "callable" if callable(fv) else repr(fv)


def pipeline(ctx, drv, rng):
    import gstools as gs
    from gstools.normalizer import apply_mean_norm_trend, remove_trend_norm_mean
    for cs in pipeline_cases(rng, ctx.tier):
        name, lam, sh = cs["norm"]
        k = KINDS[name]
        dim, mesh, vt = cs["dim"], cs["mesh"], cs["value_type"]
        nz = make(name, lam, sh)
        model = gs.Gaussian(dim=dim, var=0.15, len_scale=1.5)
        if mesh == "structured":
            axes = cs.get("axes") or [int(rng.integers(2, 5)) for _ in range(dim)]
            pos = [np.linspace(0.1 * j, 3, int(a)) if a > 1 else np.array([1.3 + 0.2 * j]) for j, a in enumerate(axes)]
        else:
            npt = cs.get("npt") or int(rng.integers(3, 12))
            pos = [rng.uniform(0, 3, npt) for _ in range(dim)]
        pts = points_of(pos, mesh, dim)
        desc = dict(kind="pipeline", obj=cs["obj"], normalizer=name, lmbda=C.fhex(lam), shift=C.fhex(sh), dim=dim, mesh=mesh,
                    value_type=vt, mean=describe_fv(cs["mean"]), trend=describe_fv(cs["trend"]), seed=cs["seed"],
                    pos=[hexl(p) for p in pos])
        try:
            with Quiet():
                kw = dict(mean=cs["mean"], normalizer=nz, trend=cs["trend"])
                if cs["obj"] == "SRF":
                    o = gs.SRF(model, seed=cs["seed"], generator="VectorField" if vt == "vector" else "RandMeth", **kw)
                    raw = np.array(o(pos, mesh_type=mesh, post_process=False, seed=cs["seed"]))
                    out = np.array(o(pos, mesh_type=mesh, seed=cs["seed"]))
                elif cs["obj"] in ("Krige", "CondSRF"):
                    nc = 5
                    cpos = [rng.uniform(0, 3, nc) for _ in range(dim)]
                    cmean = eval_on(cs["mean"], np.array(cpos), dim, "scalar", None)
                    ctrend = eval_on(cs["trend"], np.array(cpos), dim, "scalar", None)
                    zc = rng.normal(0, 0.3, nc)
                    cval = np.asarray(nz.denormalize(zc + cmean), dtype=float) + ctrend
                    keep = np.isfinite(cval)        # Krige drops NaN conditions; keep the points inside the denormalize range
                    if keep.sum() < 2:
                        zc = np.zeros(nc) - cmean + 0.1 * rng.normal(0, 1, nc)
                        cval = np.asarray(nz.denormalize(zc + cmean), dtype=float) + ctrend
                        keep = np.isfinite(cval)
                    cpos = [c[keep] for c in cpos]
                    cmean, ctrend, zc, cval = cmean[keep], ctrend[keep], zc[keep], cval[keep]
                    nc = int(keep.sum())
                    kr = gs.krige.Krige(model, cpos, cval, **kw)
                    # the kriging conditions are remove_trend_norm_mean of the data
                    cond = np.asarray(kr._krige_cond, dtype=float)[:nc]
                    mcond = drv.call("remove_field", ("n", k), lam, sh, cmean, ctrend, cval)
                    ctx.count(("pipeline", "krige_cond", name), hist=dict(pipeline="krige conditions"))
                    if not agree(cond, mcond, cond_scale(name, lam, sh, cval, ctrend, cmean, cond)).all():
                        ctx.violation("correspondence: Krige conditions", "_krige_cond differs from normalize(cond_val - trend) - mean of the model",
                                      dict(desc, cond_val=hexl(cval), impl=hexl(cond), model=hexl(mcond)), key="corr:krige_cond",
                                      no_input=bool(np.allclose(cond, zc, rtol=1e-6, atol=1e-8)))
                    if cs["obj"] == "Krige":
                        raw = np.array(kr(pos, mesh_type=mesh, post_process=False, return_var=False))
                        out = np.array(kr(pos, mesh_type=mesh, return_var=False))
                    else:
                        o = gs.CondSRF(kr, seed=cs["seed"])
                        raw = np.array(o(pos, mesh_type=mesh, post_process=False, seed=cs["seed"]))
                        out = np.array(o(pos, mesh_type=mesh, seed=cs["seed"]))
                else:
                    o = gs.field.Field(model, **kw)
                    shape = tuple(len(p) for p in pos) if mesh == "structured" else (len(pos[0]),)
                    raw = rng.normal(0, 0.4, shape)
                    raw.ravel()[0] = np.nan
                    out = np.array(o(pos, field=raw.copy(), mesh_type=mesh))
                means = eval_on(cs["mean"], pts, dim, vt, drv)
                trends = eval_on(cs["trend"], pts, dim, vt, drv)
                # implementation, functional form, applied twice to the same caller-held array: same result, array untouched
                held = raw.copy()
                pk = dict(mean=cs["mean"], normalizer=nz, trend=cs["trend"], mesh_type=mesh, value_type=vt, check_shape=False)
                out2 = np.array(apply_mean_norm_trend(pos, held, **pk))
                out3 = np.array(apply_mean_norm_trend(pos, held, **pk))
                held_o = out.copy()
                back = np.array(remove_trend_norm_mean(pos, held_o, **pk))
                back3 = np.array(remove_trend_norm_mean(pos, held_o, **pk))
                if not (C.bit_equal(out2, out3) and C.bit_equal(held, raw) and C.bit_equal(back, back3) and C.bit_equal(held_o, out)):
                    which = "apply_mean_norm_trend" if not (C.bit_equal(out2, out3) and C.bit_equal(held, raw)) else "remove_trend_norm_mean"
                    ctx.violation("probe: pipeline called twice on the same array", "%s gives a different result on its second call with the same "
                                  "caller-held array (the first call changed the array): the output is not a function of the raw field" % which,
                                  dict(desc, raw=hexl(raw), first=hexl(out2), second=hexl(out3), held_after=hexl(held)), key="pipeline-twice:%s" % which)
                dz = np.asarray(nz.derivative(out - trends.reshape(out.shape)), dtype=float)
        except Exception as e:
            ctx.violation("pipeline: implementation raised", "%s with %s raised %r" % (cs["obj"], name, e), desc, key="pipeline-raise:%s" % cs["obj"])
            continue
        mo = drv.call("apply_field", ("n", k), lam, sh, means.ravel(), trends.ravel(), raw.ravel())
        mb = drv.call("remove_field", ("n", k), lam, sh, means.ravel(), trends.ravel(), out.ravel())
        nvalid = int(np.isfinite(out).sum())
        ctx.count(("pipeline", cs["obj"], name, lam, mesh, vt, describe_fv(cs["mean"])[:8], describe_fv(cs["trend"])[:8]) if nvalid >= 2 else None,
                  n=out.size, hist=dict(pipeline=cs["obj"], pipe_norm=name, mesh=mesh, value_type=vt, dim=dim,
                                        mean=describe_fv(cs["mean"])[:8], trend=describe_fv(cs["trend"])[:8]))
        Sout = np.abs(out.ravel() - trends.ravel()) + np.abs(trends.ravel()) + abs(sh) + 2
        # (1) the object's output is apply_mean_norm_trend of its raw field, and both equal the model
        if not (C.bit_equal(out, out2)):
            ctx.violation("probe: post_process output = apply_mean_norm_trend(raw)", "%s output differs from apply_mean_norm_trend of its own raw field" % cs["obj"],
                          dict(desc, raw=hexl(raw), out=hexl(out), functional=hexl(out2)), key="pipeline-post:%s" % cs["obj"])
        okm = agree(out, mo, Sout)
        if not okm.all():
            i = int(np.argmin(okm))
            # property: out = trend + denormalize(mean + raw) using the public normalizer
            with Quiet():
                ref = trends.ravel() + np.asarray(nz.denormalize(means.ravel() + raw.ravel()), dtype=float)
            propfail = not agree(out, ref, Sout).all()
            ctx.violation("correspondence: pipeline output", "%s: output[%d]=%r, model trend + denormalize(mean + raw) = %r" % (
                cs["obj"], i, float(out.ravel()[i]), float(mo[i])), dict(desc, raw=hexl(raw), out=hexl(out), model=hexl(mo)),
                key="corr:pipeline:%s" % cs["obj"], no_input=not propfail)
        # (2) remove_trend_norm_mean: implementation vs model, and round trip back to the raw field
        Sback = (np.abs(dz.ravel()) * Sout * 1.0 + np.abs(back.ravel()) + np.abs(means.ravel()) + 1)
        okb = agree(back, mb, np.where(np.isfinite(Sback), Sback, np.inf))
        if not okb.all():
            i = int(np.argmin(okb))
            ctx.violation("correspondence: remove_trend_norm_mean", "remove_trend_norm_mean[%d]=%r, model %r" % (i, float(back.ravel()[i]), float(mb[i])),
                          dict(desc, out=hexl(out), impl=hexl(back), model=hexl(mb)), key="corr:pipeline-remove", no_input=True)
        # round trip: |back - raw| <= N'(f) * err(f) + err(N) ;  err(f) ~ eps * Sout
        m = np.isfinite(out.ravel())
        with Quiet():
            nlo = float(nz.normalize_range[0])
            if np.isfinite(nlo):
                # a denormalized value within a few ulp(|trend| + |out|) of the open range's end point is absorbed by the
                # trend in doubles (out - trend lands on/below the end point): no information left to invert
                dv = np.asarray(nz.denormalize(means.ravel() + raw.ravel()), dtype=float)
                m &= ~(np.abs(dv - nlo) <= ULPS * EPS * Sout)
        with np.errstate(all="ignore"):
            SN = scale_of(name, "normalize", lam, sh, (out.ravel() - trends.ravel())[m], (raw.ravel() + means.ravel())[m])
            tol = 4 * ULPS * EPS * (np.abs(dz.ravel()[m]) * Sout[m] + SN + np.abs(means.ravel()[m]) + np.abs(raw.ravel()[m]))
            err = np.abs(back.ravel()[m] - raw.ravel()[m])
        if (np.isnan(back.ravel()[m]).any()) or (err > tol).any():
            i = int(np.argmax(np.where(np.isnan(err), np.inf, err - tol)))
            ctx.violation("probe: remove_trend_norm_mean(apply_mean_norm_trend(raw)) = raw", "%s with %s(lmbda=%r): raw=%r -> out=%r -> back=%r (tolerance %.3g)" % (
                cs["obj"], name, lam, float(raw.ravel()[m][i]), float(out.ravel()[m][i]), float(back.ravel()[m][i]), float(tol[i])),
                dict(desc, raw=hexl(raw), out=hexl(out), back=hexl(back)), key="pipeline-roundtrip:%s" % name)
        # NaN raw values (out of the denormalize range or NaN input) stay NaN and do not affect their neighbours
        if np.isnan(raw).any() and not np.isnan(out.ravel()[np.isnan(raw.ravel())]).all():
            ctx.violation("probe: NaN raw value gives NaN output", "a NaN raw value produced a number", dict(desc, raw=hexl(raw), out=hexl(out)), key="pipeline-nan")


# ------------------------------------------------------------------------------------------- histories

def fv_of(spec):
    """mean / trend from its JSON-able description: None | ["const", c] | ["lin", a, b] (a + b * first coordinate)"""
    if spec is None:
        return None
    if spec[0] == "const":
        return float(spec[1])
    a, b = float(spec[1]), float(spec[2])
    return lambda *c: a + b * np.asarray(c[0], dtype=float)


def rand_fv(rng, scale):
    r = rng.random()
    if r < 0.25:
        return None
    if r < 0.6:
        return ["const", float(scale * rng.uniform(-1, 1))]
    return ["lin", float(scale * rng.uniform(-1, 1)), float(scale * 0.2 * rng.uniform(-1, 1))]


def rand_norm(rng):
    return [("Normalizer", 1.0, 0.0), ("LogNormal", 1.0, 0.0), ("BoxCox", float(rng.uniform(-1, 2)), 0.0),
            ("BoxCox", 0.0, 0.0), ("BoxCoxShift", float(rng.uniform(-0.5, 1.5)), float(rng.uniform(0, 1))),
            ("YeoJohnson", float(rng.uniform(-0.5, 2.5)), 0.0), ("Modulus", float(rng.uniform(0.2, 2)), 0.0),
            ("Manly", float(rng.uniform(-0.3, 0.5)), 0.0)][int(rng.integers(8))]


def norm_of_obj(nz):
    return (type(nz).__name__, float(getattr(nz, "lmbda", 1.0)), float(getattr(nz, "shift", 0.0)))


HOLDERS = ["Krige", "Simple", "Ordinary", "Universal", "Detrended", "CondSRF", "SRF", "Field"]
KRIGE_LIKE = ("Krige", "Simple", "Ordinary", "Universal", "Detrended", "CondSRF")


def h_build(holder, sp):
    """a FRESH object from the present parameters sp"""
    import gstools as gs
    model = getattr(gs, sp["model"][0])(dim=sp["dim"], var=sp["model"][1], len_scale=sp["model"][2])
    nz = make(*sp["norm"])
    mean, trend = fv_of(sp["mean"]), fv_of(sp["trend"])
    cpos = [np.array(c, dtype=float) for c in sp["cond_pos"]]
    cval = np.array(sp["cond_val"], dtype=float)
    if holder == "SRF":
        return gs.SRF(model, mean=mean, normalizer=nz, trend=trend, seed=sp["seed"])
    if holder == "Field":
        return gs.field.Field(model, mean=mean, normalizer=nz, trend=trend)
    if holder in ("Krige", "CondSRF"):
        kr = gs.krige.Krige(model, cpos, cval, mean=mean, normalizer=nz, trend=trend, unbiased=sp["unbiased"],
                            drift_functions="linear" if sp["drift"] else None)
    elif holder == "Simple":
        kr = gs.krige.Simple(model, cpos, cval, mean=mean, normalizer=nz, trend=trend)
    elif holder == "Ordinary":
        kr = gs.krige.Ordinary(model, cpos, cval, normalizer=nz, trend=trend)
        kr.mean = mean
    elif holder == "Universal":
        kr = gs.krige.Universal(model, cpos, cval, "linear", normalizer=nz, trend=trend)
        kr.mean = mean
    else:
        kr = gs.krige.Detrended(model, cpos, cval, trend if callable(trend) else (lambda *c: 0.0 * np.asarray(c[0]) + (trend or 0.0)))
        kr.normalizer = nz
        kr.mean = mean
    if holder == "CondSRF":
        return gs.CondSRF(kr, seed=sp["seed"])
    return kr


def h_eval(holder, obj, sp, ev, use_stored):
    """one evaluation with the options ev; positions explicit or the stored ones.  Returns a tuple of arrays."""
    pos = None if use_stored else [np.array(c, dtype=float) for c in ev["pos"]]
    kw = dict(mesh_type=ev["mesh"]) if not use_stored else dict(mesh_type=ev["mesh"])
    pp = ev.get("post_process", True)
    if holder == "SRF":
        return (np.array(obj(pos, seed=sp["seed"], post_process=pp, **kw)),)
    if holder == "CondSRF":
        return (np.array(obj(pos, seed=sp["seed"], post_process=pp, **kw)),)
    if holder == "Field":
        raw = np.array(ev["raw"], dtype=float).reshape(ev["shape"])
        return (np.array(obj(pos, field=raw.copy(), post_process=pp, **kw)),)
    r = obj(pos, return_var=ev["return_var"], chunk_size=ev["chunk"], post_process=pp, **kw)
    return tuple(np.array(a) for a in r) if ev["return_var"] else (np.array(r),)


def krige_of(holder, obj):
    return obj.krige if holder == "CondSRF" else obj


def h_apply(holder, obj, sp, op, rng_state=None):
    """apply a setter-type operation to the object and to the present parameters sp"""
    k = op["op"]
    if k == "mean":
        obj.mean = fv_of(op["value"])
        sp["mean"] = op["value"]
    elif k == "trend":
        obj.trend = fv_of(op["value"])
        sp["trend"] = op["value"]
    elif k == "norm":
        obj.normalizer = make(*op["value"])
        sp["norm"] = tuple(op["value"])
    elif k == "norm_inplace":
        nz = obj.normalizer
        if hasattr(nz, "lmbda"):
            nz.lmbda = op["value"]
        sp["norm"] = norm_of_obj(nz)
    elif k == "set_condition":
        kr = krige_of(holder, obj)
        if op["vals"] is None:
            kr.set_condition(fit_normalizer=op["fit"])
        else:
            kr.set_condition([np.array(c, dtype=float) for c in sp["cond_pos"]], np.array(op["vals"], dtype=float), fit_normalizer=op["fit"])
            sp["cond_val"] = list(op["vals"])
        sp["norm"] = norm_of_obj(kr.normalizer)


def gen_history(rng, holder, tier):
    dim = int(rng.integers(1, 3))
    nc = int(rng.integers(4, 8))
    cond_pos = [np.sort(rng.uniform(0, 6, nc)) + 0.37 * j for j in range(dim)]
    sp = dict(dim=dim, model=[["Exponential", "Gaussian", "Spherical"][int(rng.integers(3))], float(rng.uniform(0.2, 0.8)), float(rng.uniform(1.0, 2.5))],
              cond_pos=[c.tolist() for c in cond_pos], cond_val=np.exp(rng.normal(0.6, 0.35, nc)).clip(0.8, 6).tolist(),
              mean=rand_fv(rng, 0.5), trend=rand_fv(rng, 0.25), norm=rand_norm(rng), seed=int(rng.integers(1, 10 ** 6)),
              unbiased=bool(rng.random() < 0.5), drift=bool(rng.random() < 0.3))
    if holder == "Detrended" and (sp["trend"] is None or sp["trend"][0] != "lin"):
        sp["trend"] = ["lin", float(0.2 * rng.uniform(-1, 1)), float(0.05 * rng.uniform(-1, 1))]

    def new_eval():
        mesh = "structured" if rng.random() < 0.4 else "unstructured"
        if mesh == "structured":
            pos = [np.linspace(0.2, 5.5, int(rng.integers(2, 5))) + 0.1 * j for j in range(dim)]
            shape = [len(p) for p in pos]
        else:
            npt = int(rng.integers(3, 9))
            pos = [rng.uniform(0, 6, npt) for _ in range(dim)]
            shape = [npt]
        ev = dict(op="eval", pos=[p.tolist() for p in pos], mesh=mesh, shape=shape, return_var=bool(rng.random() < 0.5),
                  chunk=[None, 2, 3][int(rng.integers(3))], post_process=bool(rng.random() < 0.85), stored=False)
        if holder == "Field":
            ev["raw"] = rng.normal(0, 0.4, int(np.prod(shape))).tolist()
        return ev
    ops = [new_eval()]
    n = int(rng.integers(3, 8 if tier == "thorough" else 6))
    for _ in range(n):
        r = rng.random()
        if r < 0.35:
            ev = new_eval()
            if rng.random() < 0.5:   # same positions as the last evaluation, taken from the object (pos=None)
                last = [o for o in ops if o["op"] == "eval"][-1]
                ev.update(pos=last["pos"], mesh=last["mesh"], shape=last["shape"], stored=True)
                if holder == "Field":
                    ev["raw"] = rng.normal(0, 0.4, int(np.prod(last["shape"]))).tolist()
            ops.append(ev)
        elif r < 0.5:
            ops.append(dict(op="mean", value=rand_fv(rng, 0.5)))
        elif r < 0.65:
            v = rand_fv(rng, 0.25)
            if holder == "Detrended" and (v is None or v[0] != "lin"):
                v = ["lin", float(0.2 * rng.uniform(-1, 1)), float(0.05 * rng.uniform(-1, 1))]
            ops.append(dict(op="trend", value=v))
        elif r < 0.78:
            ops.append(dict(op="norm", value=list(rand_norm(rng))))
        elif r < 0.88:
            ops.append(dict(op="norm_inplace", value=float(rng.uniform(0.1, 1.5))))
        elif holder in KRIGE_LIKE:
            newv = None if rng.random() < 0.4 else np.exp(rng.normal(0.6, 0.35, nc)).clip(0.8, 6).tolist()
            ops.append(dict(op="set_condition", vals=newv, fit=bool(rng.random() < 0.3)))
        else:
            ops.append(dict(op="mean", value=rand_fv(rng, 0.5)))
        # every setter is followed sooner or later by an evaluation: make sure the history ends with one
    last = [o for o in ops if o["op"] == "eval"][-1]
    fin = new_eval()
    if rng.random() < 0.6:
        fin.update(pos=last["pos"], mesh=last["mesh"], shape=last["shape"], stored=True)
        if holder == "Field":
            fin["raw"] = rng.normal(0, 0.4, int(np.prod(last["shape"]))).tolist()
    if rng.random() < 0.5:
        fin["return_var"] = last["return_var"]
    ops.append(fin)
    return sp, ops


def same_out(a, b):
    return len(a) == len(b) and all(x.shape == y.shape and C.close(x, y, rtol=1e-11, atol=1e-13) for x, y in zip(a, b))


def run_history(holder, sp0, ops, drv=None):
    """execute the history on ONE object; after every evaluation compare with a fresh object built from the present
    parameters, with the model pipeline, and (kriging) the conditions with the model.  Returns (message | None, n_evals)."""
    sp = json.loads(json.dumps(sp0))
    sp["norm"] = tuple(sp["norm"])
    nev = 0
    with Quiet():
        obj = h_build(holder, sp)
        for i, op in enumerate(ops):
            if op["op"] != "eval":
                try:
                    h_apply(holder, obj, sp, op)
                except Exception as e:
                    return "operation %d (%s) raised %s: %s" % (i, op["op"], type(e).__name__, e), nev
                continue
            nev += 1
            err_h = err_f = None
            try:
                out = h_eval(holder, obj, sp, op, op["stored"])
            except Exception as e:
                err_h = type(e).__name__
            try:
                fresh = h_build(holder, sp)
                ref = h_eval(holder, fresh, sp, op, False)
            except Exception as e:
                err_f = type(e).__name__
            if err_h or err_f:
                if err_h != err_f:
                    return "evaluation %d: the object after its history %s, a fresh object with the present parameters %s" % (
                        i, "raised " + err_h if err_h else "returned", "raised " + err_f if err_f else "returned"), nev
                continue
            if not same_out(out, ref):
                j = 0 if not (out[0].shape == ref[0].shape and C.close(out[0], ref[0], rtol=1e-11, atol=1e-13)) else 1
                d = np.abs(np.asarray(out[j], float) - np.asarray(ref[j], float)) if out[j].shape == ref[j].shape else np.array([np.inf])
                return ("evaluation %d (%s, return_var=%s, chunk=%s, stored pos=%s, post_process=%s): %s after the history differs from a fresh "
                        "object built from the present mean=%r normalizer=%r trend=%r (max abs difference %.3g; e.g. %r vs %r)" % (
                            i, holder, op.get("return_var"), op.get("chunk"), op["stored"], op.get("post_process", True),
                            "field" if j == 0 else "kriging variance", sp["mean"], sp["norm"], sp["trend"], float(np.nanmax(d)),
                            float(np.asarray(out[j]).ravel()[int(np.nanargmax(d))]) if d.size and np.isfinite(d).any() else None,
                            float(np.asarray(ref[j]).ravel()[int(np.nanargmax(d))]) if d.size and np.isfinite(d).any() else None)), nev
            # model pipeline with the PRESENT parameters: out = trend + denormalize(mean + raw)
            if drv is not None and op.get("post_process", True):
                try:
                    raw = h_eval(holder, h_build(holder, sp), sp, dict(op, post_process=False), False)[0]
                except Exception:
                    raw = None
                if raw is not None:
                    pts = points_of([np.array(c, dtype=float) for c in op["pos"]], op["mesh"], sp["dim"])
                    means = eval_on(fv_of(sp["mean"]), pts, sp["dim"], "scalar", None)
                    trends = eval_on(fv_of(sp["trend"]), pts, sp["dim"], "scalar", None)
                    name, lam, sh = sp["norm"]
                    mo = drv.call("apply_field", ("n", KINDS[name]), lam, sh, means.ravel(), trends.ravel(), raw.ravel())
                    Sout = np.abs(out[0].ravel() - trends.ravel()) + np.abs(trends.ravel()) + abs(sh) + 2
                    if not agree(out[0], mo, Sout).all():
                        j = int(np.argmin(agree(out[0], mo, Sout)))
                        return "evaluation %d (%s): output[%d] = %r but trend + denormalize(mean + raw) with the present parameters is %r" % (
                            i, holder, j, float(out[0].ravel()[j]), float(mo[j])), nev
            # kriging conditions = remove_trend_norm_mean of the data with the PRESENT parameters
            if drv is not None and holder in KRIGE_LIKE:
                kr = krige_of(holder, obj)
                cpts = np.array(sp["cond_pos"], dtype=float)
                cm = eval_on(fv_of(sp["mean"]), cpts, sp["dim"], "scalar", None)
                ct = eval_on(fv_of(sp["trend"]), cpts, sp["dim"], "scalar", None)
                name, lam, sh = sp["norm"]
                cond = np.asarray(kr._krige_cond, dtype=float)[:len(sp["cond_val"])]
                mc = drv.call("remove_field", ("n", KINDS[name]), lam, sh, cm, ct, np.array(sp["cond_val"], dtype=float))
                if not agree(cond, mc, cond_scale(name, lam, sh, np.array(sp["cond_val"], dtype=float), ct, cm, cond)).all():
                    return "after operation %d: _krige_cond = %r but normalize(cond_val - trend) - mean with the present parameters is %r" % (
                        i, cond.tolist(), np.asarray(mc).tolist()), nev
    return None, nev


def template_histories(rng, holder, tier):
    """systematic cells: evaluate (each option combination) / one setter of each kind / evaluate again with the same options"""
    out = []
    setters = ["mean", "trend", "norm", "norm_inplace"] + (["set_condition", "set_condition_fit", "set_condition_noargs"] if holder in KRIGE_LIKE else [])
    rvs = (True, False) if holder in KRIGE_LIKE and holder != "CondSRF" else (True,)
    for st in setters:
        for rv in rvs:
            for stored in (True, False):
                sp, ops0 = gen_history(rng, holder, tier)
                if st == "norm_inplace" and sp["norm"][0] in ("Normalizer", "LogNormal"):
                    sp["norm"] = ("BoxCox", 0.7, 0.0)
                ev = dict(ops0[0], return_var=rv, post_process=True, chunk=[None, 2][int(rng.integers(2))])
                nc = len(sp["cond_val"])
                if st in ("mean", "trend"):
                    v = ["lin", float(0.3 * rng.uniform(0.3, 1)), float(0.05 * rng.uniform(0.3, 1))]
                    op = dict(op=st, value=v)
                elif st == "norm":
                    op = dict(op="norm", value=["YeoJohnson", float(rng.uniform(0.3, 0.8)), 0.0] if sp["norm"][0] != "YeoJohnson" else ["BoxCox", 0.5, 0.0])
                elif st == "norm_inplace":
                    op = dict(op="norm_inplace", value=float(sp["norm"][1] + 0.4))
                elif st == "set_condition":
                    op = dict(op="set_condition", vals=np.exp(rng.normal(0.6, 0.35, nc)).clip(0.8, 6).tolist(), fit=False)
                elif st == "set_condition_fit":
                    if sp["norm"][0] in ("Normalizer", "LogNormal", "BoxCoxShift"):
                        sp["norm"] = ("BoxCox", 0.7, 0.0)
                    op = dict(op="set_condition", vals=np.exp(rng.normal(0.6, 0.35, nc)).clip(0.8, 6).tolist(), fit=True)
                else:
                    op = dict(op="set_condition", vals=None, fit=False)
                ev2 = dict(ev, stored=stored)
                if holder == "Field":
                    ev2["raw"] = rng.normal(0, 0.4, int(np.prod(ev["shape"]))).tolist()
                out.append((sp, [ev, op, ev2]))
    return out


def histories(ctx, drv, rng):
    """operation histories on every holder of the pipeline: systematic (option x setter) cells and random sequences"""
    per = 10 if ctx.tier == "thorough" else 3
    for holder in HOLDERS:
        todo = [gen_history(rng, holder, ctx.tier) for _ in range(per)]
        if ctx.tier == "thorough" or holder in ("Krige", "Universal", "CondSRF", "SRF", "Field"):
            todo += template_histories(rng, holder, ctx.tier)
        for rep, (sp, ops) in enumerate(todo):
            msg, nev = run_history(holder, sp, ops, drv)
            kinds = tuple(o["op"] if o["op"] != "eval" else ("eval-stored" if o["stored"] else "eval") for o in ops)
            ctx.count(("history", holder, kinds, sp["norm"][0]), n=max(1, nev),
                      hist=dict(history_holder=holder, history_len=len(ops), history_ops=" ".join(sorted(set(kinds)))))
            if len(ctx.samples) < 8 and rep == 0 and holder in ("Krige", "CondSRF"):
                ctx.samples.append(dict(history=holder, ops=[o["op"] for o in ops], normalizer=list(sp["norm"])))
            if msg:
                # shrink: drop operations while the failure persists
                cur = list(ops)
                changed = True
                while changed and len(cur) > 1:
                    changed = False
                    for j in range(len(cur) - 1):
                        trial = cur[:j] + cur[j + 1:]
                        if not any(o["op"] == "eval" for o in trial):
                            continue
                        if trial[0]["op"] == "eval" and trial[0].get("stored"):
                            continue
                        ok_stored = True
                        seen_eval = False
                        for o in trial:
                            if o["op"] == "eval":
                                if o["stored"] and not seen_eval:
                                    ok_stored = False
                                seen_eval = True
                        if not ok_stored:
                            continue
                        m2, _ = run_history(holder, sp, trial, drv)
                        if m2:
                            cur, msg, changed = trial, m2, True
                            break
                ctx.violation("probe: history independence (%s)" % holder,
                              "%s after the operations %s: %s" % (holder, [o["op"] for o in cur], msg),
                              dict(kind="history", holder=holder, params=sp, ops=cur), key="history:%s" % ("krige" if holder in KRIGE_LIKE else holder))


# ------------------------------------------------------------------------------------------- public accessors

def acc_get_mean(ctx, drv, rng):
    """Krige.get_mean(post_process) and krige(pos, only_mean=True) on every kriging class x normalizer x mean/trend kind against
    the model: get_mean = denormalize(raw mean + mean), only_mean field = trend + get_mean, raw mean = 0 without unbiasedness"""
    import gstools as gs
    reps = 3 if ctx.tier == "thorough" else 1
    norms = [("Normalizer", 1.0, 0.0), ("LogNormal", 1.0, 0.0), ("BoxCox", 0.5, 0.0), ("BoxCox", 0.0, 0.0), ("BoxCox", -0.7, 0.0),
             ("BoxCoxShift", 0.6, 0.8), ("YeoJohnson", 0.4, 0.0), ("YeoJohnson", 2.6, 0.0), ("Modulus", 1.4, 0.0), ("Modulus", -0.6, 0.0),
             ("Manly", 0.3, 0.0), ("Manly", -0.4, 0.0)]
    classes = ["Simple", "Ordinary", "Universal", "ExtDrift", "Detrended", "Krige-unbiased", "Krige-biased"]
    for rep in range(reps):
        for cls in classes:
            for nm in norms:
                name, lam, sh = nm
                dim = int(rng.integers(1, 3))
                nc = int(rng.integers(4, 8))
                cpos = [np.sort(rng.uniform(0, 6, nc)) + 0.37 * j for j in range(dim)]
                cval = np.exp(rng.normal(0.6, 0.35, nc)).clip(0.8, 6)
                msp = [None, ["const", float(rng.uniform(0.1, 0.6))], ["lin", 0.2, 0.05]][int(rng.integers(3))]
                tsp = [None, ["const", float(rng.uniform(-0.3, 0.3))], ["lin", 0.1, 0.03]][int(rng.integers(3))]
                if cls == "Detrended":
                    msp, tsp = None, ["lin", 0.1, 0.03]
                if cls == "Ordinary" and msp is not None and msp[0] == "lin":
                    msp = None
                model = gs.Exponential(dim=dim, var=0.5, len_scale=2.0)
                nz = make(name, lam, sh)
                mean, trend = fv_of(msp), fv_of(tsp)
                desc = dict(kind="get_mean", cls=cls, normalizer=name, lmbda=C.fhex(lam), shift=C.fhex(sh), mean=msp, trend=tsp,
                            cond_pos=[c.tolist() for c in cpos], cond_val=cval.tolist(), dim=dim)
                tpos = [rng.uniform(0, 6, 4) for _ in range(dim)]
                edrift = None
                with Quiet():
                    try:
                        if cls == "Simple":
                            kr = gs.krige.Simple(model, cpos, cval, mean=mean, normalizer=nz, trend=trend)
                        elif cls == "Ordinary":
                            kr = gs.krige.Ordinary(model, cpos, cval, normalizer=nz, trend=trend)
                            if msp is not None:
                                kr.mean = mean
                        elif cls == "Universal":
                            kr = gs.krige.Universal(model, cpos, cval, "linear", normalizer=nz, trend=trend)
                            if msp is not None:
                                kr.mean = mean
                        elif cls == "ExtDrift":
                            kr = gs.krige.ExtDrift(model, cpos, cval, rng.normal(size=nc), normalizer=nz, trend=trend)
                            edrift = rng.normal(size=4)
                            if msp is not None:
                                kr.mean = mean
                        elif cls == "Detrended":
                            kr = gs.krige.Detrended(model, cpos, cval, trend)
                            kr.normalizer = nz
                        else:
                            kr = gs.krige.Krige(model, cpos, cval, mean=mean, normalizer=nz, trend=trend, unbiased=(cls == "Krige-unbiased"))
                        gm_t = kr.get_mean()
                        gm_f = kr.get_mean(post_process=False)
                        kwd = dict(ext_drift=edrift) if edrift is not None else {}
                        om_t = np.asarray(kr(tpos, only_mean=True, **kwd), dtype=float)
                        om_f = np.asarray(kr(tpos, only_mean=True, post_process=False, **kwd), dtype=float)
                        # getters return what the object was given
                        def same_fv(got, given):
                            if callable(given):
                                return got is given
                            return (got is None or got == 0.0) if given is None else (got == given)
                        getters_ok = (kr.normalizer is nz) and same_fv(kr.mean, mean) and (cls == "Detrended" or same_fv(kr.trend, trend))
                    except Exception as e:
                        ctx.violation("probe: get_mean / only_mean raised", "%s with %s: %r" % (cls, name, e), desc, key="get_mean-raise:%s" % cls)
                        continue
                ctx.count(("get_mean", cls, name, lam_class(lam), "none" if msp is None else msp[0], "none" if tsp is None else tsp[0]),
                          hist=dict(accessor="get_mean/only_mean", acc_class=cls, acc_norm=name))
                drift = cls in ("Universal", "ExtDrift")
                const_mean = msp is None or msp[0] == "const"
                mval = 0.0 if msp is None else (float(msp[1]) if msp[0] == "const" else None)
                pts = np.array(tpos, dtype=float).reshape(dim, -1)
                trends = eval_on(trend, pts, dim, "scalar", None)
                means = eval_on(mean, pts, dim, "scalar", None)
                msgs = []
                if not getters_ok:
                    msgs.append("the mean / normalizer / trend getters do not return what was given (mean %r, trend %r)" % (kr.mean, kr.trend))
                # only_mean field (post-processed) = trend + denormalize(mean + raw only_mean field): the pipeline, for every class
                mo = drv.call("apply_field", ("n", KINDS[name]), lam, sh, means, trends, om_f.ravel())
                So = np.abs(om_t.ravel() - trends) + np.abs(trends) + abs(sh) + 2
                if not agree(om_t, mo, So).all():
                    msgs.append("krige(pos, only_mean=True) = %r but trend + denormalize(mean + raw mean field %r) = %r" % (om_t.tolist(), om_f.tolist(), np.asarray(mo).tolist()))
                if drift:
                    if gm_t is not None or gm_f is not None:
                        msgs.append("get_mean with drift terms returned %r / %r, documented: None" % (gm_t, gm_f))
                else:
                    unbiased = cls in ("Ordinary", "Krige-unbiased")
                    if gm_f is None or not np.ndim(gm_f) == 0:
                        msgs.append("get_mean(post_process=False) = %r" % (gm_f,))
                    else:
                        gm_f = float(gm_f)
                        if not unbiased and gm_f != 0.0:
                            msgs.append("get_mean(post_process=False) = %r for a kriging system without unbiasedness condition (raw mean 0)" % gm_f)
                        if not C.close(om_f, np.full(om_f.shape, gm_f), rtol=1e-9, atol=1e-12):
                            msgs.append("get_mean(post_process=False) = %r but krige(pos, only_mean=True, post_process=False) = %r" % (gm_f, om_f.tolist()))
                        if const_mean:
                            ref = float(np.asarray(drv.call("denormalize", ("n", KINDS[name]), lam, sh, np.array([gm_f + mval])))[0])
                            got = float("nan") if gm_t is None else float(gm_t)
                            Sg = abs(ref) + abs(sh) + 2
                            if gm_t is None or not agree(np.array([got]), np.array([ref]), Sg).all():
                                msgs.append("get_mean() = %r but denormalize(raw mean %r + mean %r) = %r" % (gm_t, gm_f, mval, ref))
                            elif not agree(om_t, got + trends, So).all():
                                msgs.append("krige(pos, only_mean=True) = %r but get_mean() + trend = %r" % (om_t.tolist(), (got + trends).tolist()))
                        elif gm_t is not None:
                            msgs.append("get_mean() = %r with a non-constant mean, documented: None" % (gm_t,))
                if msgs:
                    ctx.violation("probe: get_mean / only_mean vs the pipeline", "%s(mean=%r, normalizer=%s(lmbda=%r), trend=%r): %s" % (cls, msp, name, lam, tsp, "; ".join(msgs)),
                                  desc, key="get_mean:%s" % ("drift" if drift else "const" if const_mean else "callable"))


def acc_input_classes(ctx, rng):
    """Normalizer methods with every input class (0-d array, numpy / Python scalars, lists, tuples, one-element and nested lists,
    int and float32 arrays, masked arrays): same values as the float64 array of the same data; likelihoods and fit likewise"""
    cfgs = [("LogNormal", 1.0, 0.0), ("BoxCox", 0.5, 0.0), ("BoxCox", -1.0, 0.0), ("BoxCoxShift", 0.7, 1.2), ("YeoJohnson", 0.4, 0.0),
            ("YeoJohnson", -1.0, 0.0), ("Modulus", -0.5, 0.0), ("Manly", 0.3, 0.0), ("Manly", -1.0, 0.0), ("Normalizer", 1.0, 0.0)]
    for name, lam, sh in cfgs:
        nz = make(name, lam, sh)
        base = np.array([0.5, 2.0, -1.0, 3.0, 0.25, 7.0, np.nan, -0.3])
        ints = np.array([1, 2, 3, -1, 5])
        variants = [("list", base.tolist(), base), ("tuple", tuple(base.tolist()), base), ("nested list", base.reshape(2, 4).tolist(), base.reshape(2, 4)),
                    ("one-element list", [2.0], np.array([2.0])), ("int array", ints, ints.astype(float)), ("int list", ints.tolist(), ints.astype(float)),
                    ("float32 array", base.astype(np.float32), base.astype(np.float32).astype(float)),
                    ("0-d array", np.array(2.0), np.array(2.0)), ("numpy float", np.float64(2.0), np.array(2.0)), ("python float", 2.0, np.array(2.0)),
                    ("python int", 2, np.array(2.0)), ("0-d NaN", np.array(np.nan), np.array(np.nan)), ("numpy float32 scalar", np.float32(0.5), np.array(0.5)),
                    ("masked array without masked entries", np.ma.array(base[:6]), base[:6]),
                    ("non-contiguous view", np.stack([base, base])[:, ::2], np.stack([base, base])[:, ::2].copy()),
                    ("Fortran-ordered 2-D array", np.asfortranarray(base.reshape(2, 4)), base.reshape(2, 4)),
                    ("transposed view", base.reshape(2, 4).T, base.reshape(2, 4).T.copy()),
                    ("(n, 1) column", base.reshape(-1, 1), base.reshape(-1, 1).copy()),
                    ("empty array", np.array([]), np.array([]))]
        for vname, v, ref_in in variants:
            ctx.count(("input-class", name, vname), hist=dict(accessor="input class", input_class=vname))
            case = dict(kind="input-class", normalizer=name, lmbda=C.fhex(lam), shift=C.fhex(sh), input_class=vname, data=hexl(ref_in))
            for fn in ("normalize", "denormalize", "derivative"):
                with Quiet():
                    ref = np.asarray(getattr(nz, fn)(np.array(ref_in, dtype=float)), dtype=float)
                    try:
                        got = np.asarray(getattr(nz, fn)(v), dtype=float)
                    except Exception as e:
                        ctx.violation("probe: input classes", "%s(lmbda=%r).%s(<%s>) raised %s: %s; the float64 array of the same data gives %r" % (
                            name, lam, fn, vname, type(e).__name__, e, ref.tolist()), dict(case, fn=fn), key="input-class:raise")
                        continue
                if got.shape != ref.shape or not C.bit_equal(got, ref):
                    ctx.violation("probe: input classes", "%s(lmbda=%r).%s(<%s> %r) = %r, the float64 array of the same data gives %r" % (
                        name, lam, fn, vname, v if np.size(v) < 9 else "...", got.tolist(), ref.tolist()), dict(case, fn=fn), key="input-class:value")
            if np.size(ref_in) >= 1:
                for fn in ("kernel_loglikelihood", "loglikelihood", "likelihood"):
                    with Quiet():
                        ref = float(getattr(nz, fn)(np.array(ref_in, dtype=float)))
                        try:
                            got = float(getattr(nz, fn)(v))
                        except Exception as e:
                            ctx.violation("probe: input classes", "%s(lmbda=%r).%s(<%s>) raised %s: %s; the float64 array gives %r" % (
                                name, lam, fn, vname, type(e).__name__, e, ref), dict(case, fn=fn), key="input-class:raise")
                            continue
                    if not (C.bit_equal(got, ref) or C.close(got, ref, rtol=1e-12)):
                        ctx.violation("probe: input classes", "%s(lmbda=%r).%s(<%s>) = %r, the float64 array of the same data gives %r" % (
                            name, lam, fn, vname, got, ref), dict(case, fn=fn), key="input-class:value")
            if np.size(ref_in) >= 5 and "lmbda" in type(nz).default_parameter:
                with Quiet():
                    a, b = make(name, lam, sh), make(name, lam, sh)
                    sk = ["shift"] if name == "BoxCoxShift" else None
                    try:
                        ra, rb = a.fit(np.array(ref_in, dtype=float), skip=sk), b.fit(v, skip=sk)
                    except Exception as e:
                        ctx.violation("probe: input classes", "%s.fit(<%s>) raised %r" % (name, vname, e), dict(case, fn="fit"), key="input-class:raise")
                        continue
                if not C.bit_equal(float(ra["lmbda"]), float(rb["lmbda"])):
                    ctx.violation("probe: input classes", "%s.fit(<%s>) -> %r, on the float64 array of the same data -> %r" % (name, vname, rb, ra),
                                  dict(case, fn="fit"), key="input-class:value")


def acc_helpers(ctx, drv, rng):
    """apply_mean_norm_trend / remove_trend_norm_mean called directly: check_shape on/off, stacked fields, both mesh types, lists"""
    from gstools.normalizer import apply_mean_norm_trend, remove_trend_norm_mean
    reps = 4 if ctx.tier == "thorough" else 1
    for rep in range(reps):
        for nm in [("Normalizer", 1.0, 0.0), ("BoxCox", 0.5, 0.0), ("YeoJohnson", -0.5, 0.0), ("Manly", 0.4, 0.0), ("Modulus", 0.6, 0.0), ("LogNormal", 1.0, 0.0)]:
            for mesh in ("structured", "unstructured"):
                for stacked in (False, True):
                    for check_shape in (True, False):
                        name, lam, sh = nm
                        dim = int(rng.integers(1, 4))
                        if mesh == "structured":
                            pos = [np.linspace(0, 3, int(rng.integers(2, 4))) + 0.1 * j for j in range(dim)]
                            shape = tuple(len(q) for q in pos)
                        else:
                            npt = int(rng.integers(2, 7))
                            pos = [rng.uniform(0, 3, npt) for _ in range(dim)]
                            shape = (npt,)
                        nf = int(rng.integers(1, 4)) if stacked else 1
                        raw = rng.normal(0.2, 0.4, (nf,) + shape)
                        msp, tsp = rand_fv(rng, 0.5), rand_fv(rng, 0.25)
                        mean, trend = fv_of(msp), fv_of(tsp)
                        nz = make(name, lam, sh)
                        fld = raw if stacked else raw[0]
                        if fld.ndim >= 2 and rng.random() < 0.5:      # memory layout must not matter
                            fld = np.asfortranarray(fld)
                        if not check_shape and mesh == "structured" and stacked:
                            pass
                        desc = dict(kind="helpers", normalizer=name, lmbda=C.fhex(lam), shift=C.fhex(sh), mesh=mesh, stacked=stacked,
                                    check_shape=check_shape, mean=msp, trend=tsp, pos=[hexl(q) for q in pos], raw=hexl(raw), shape=list(raw.shape))
                        pk = dict(mean=mean, normalizer=nz, trend=trend, mesh_type=mesh, check_shape=check_shape, stacked=stacked)
                        with Quiet():
                            try:
                                out = np.asarray(apply_mean_norm_trend(pos, fld.copy(), **pk), dtype=float)
                                back = np.asarray(remove_trend_norm_mean(pos, out.copy(), **pk), dtype=float)
                                out_cls = np.asarray(apply_mean_norm_trend(pos, fld.copy(), **dict(pk, normalizer=type(nz) if name in ("Normalizer", "LogNormal") else nz)), dtype=float)
                            except Exception as e:
                                ctx.violation("probe: pipeline helpers raised", "apply/remove (%s, stacked=%s, check_shape=%s) raised %r" % (mesh, stacked, check_shape, e),
                                              desc, key="helpers-raise")
                                continue
                        ctx.count(("helpers", name, mesh, stacked, check_shape, dim), hist=dict(accessor="apply/remove helpers", helper_opts="%s stacked=%s check_shape=%s" % (mesh, stacked, check_shape)))
                        pts = points_of(pos, mesh, dim)
                        means = eval_on(mean, pts, dim, "scalar", None)
                        trends = eval_on(trend, pts, dim, "scalar", None)
                        msgs = []
                        if out.shape != fld.shape or not C.bit_equal(out, out_cls):
                            msgs.append("output shape %r for field shape %r / normalizer given as class differs" % (out.shape, fld.shape))
                        else:
                            for j in range(nf):
                                o_j = (out[j] if stacked else out).ravel()
                                r_j = raw[j].ravel()
                                b_j = (back[j] if stacked else back).ravel()
                                mo = drv.call("apply_field", ("n", KINDS[name]), lam, sh, means, trends, r_j)
                                mb = drv.call("remove_field", ("n", KINDS[name]), lam, sh, means, trends, o_j)
                                So = np.abs(o_j - trends) + np.abs(trends) + abs(sh) + 2
                                with Quiet():
                                    dz = np.abs(np.asarray(nz.derivative(o_j - trends), dtype=float))
                                Sb = np.where(np.isfinite(dz), dz, np.inf) * So + np.abs(b_j) + np.abs(means) + 1
                                if not agree(o_j, mo, So).all():
                                    i = int(np.argmin(agree(o_j, mo, So)))
                                    msgs.append("apply_mean_norm_trend field %d [%d] = %r, trend + denormalize(mean + raw) = %r" % (j, i, float(o_j[i]), float(mo[i])))
                                    break
                                if not agree(b_j, mb, Sb).all():
                                    i = int(np.argmin(agree(b_j, mb, Sb)))
                                    msgs.append("remove_trend_norm_mean field %d [%d] = %r, normalize(field - trend) - mean = %r" % (j, i, float(b_j[i]), float(mb[i])))
                                    break
                        if msgs:
                            ctx.violation("probe: pipeline helpers vs the model", "%s, stacked=%s, check_shape=%s, %s(lmbda=%r): %s" % (mesh, stacked, check_shape, name, lam, "; ".join(msgs)),
                                          desc, key="helpers:%s" % ("stacked" if stacked else "single"))


def acc_copies_interference(ctx, rng):
    """an object's results are a function of ITS OWN parameters: other objects created / fitted / evaluated in between do not
    change them, class-level defaults are never written, copy.deepcopy and pickle round trips behave like the original"""
    import copy
    import pickle
    import gstools as gs
    N = gn()
    data = np.exp(rng.normal(0.2, 0.5, 40))
    x = np.array([0.3, 1.0, 2.5, -0.4, np.nan, 7.0])

    def outputs(nz):
        with Quiet():
            return [np.asarray(getattr(nz, fn)(x), dtype=float) for fn in ("normalize", "denormalize", "derivative")] + \
                   [np.asarray(nz.loglikelihood(data), dtype=float)]
    for cls in (N.BoxCox, N.BoxCoxShift, N.YeoJohnson, N.Modulus, N.Manly, N.LogNormal, N.Normalizer):
        name = cls.__name__
        defaults = dict(cls.default_parameter)
        ranges0 = (cls.normalize_range, cls.denormalize_range) if not isinstance(cls.__dict__.get("normalize_range"), property) and \
            not isinstance(cls.__dict__.get("denormalize_range"), property) else None
        par = {k: (0.6 if k == "lmbda" else 0.4) for k in defaults}
        a = cls(**par)
        ref = outputs(a)
        case = dict(kind="interference", normalizer=name, params=par)
        ctx.count(("interference", name), hist=dict(accessor="interference / copies"))
        with Quiet():
            # other objects of the same and of other classes are created, fitted, changed, evaluated
            b = cls()
            if defaults:
                b.fit(data, skip=["shift"] if "shift" in defaults else None)
                b.lmbda = 5.0
            outputs(b)
            for other in (N.BoxCox, N.YeoJohnson, N.Manly):
                o = other(data=data)
                outputs(o)
            kr = gs.krige.Ordinary(gs.Exponential(dim=1, len_scale=2.0), [np.linspace(0, 5, 6)], np.exp(rng.normal(0, 0.3, 6)), normalizer=cls, fit_normalizer=bool(defaults))
            kr([np.linspace(0, 5, 4)])
        msgs = []
        if not all(C.bit_equal(u, v) for u, v in zip(outputs(a), ref)):
            msgs.append("results changed after other normalizers / kriging objects were created, fitted and evaluated")
        if dict(cls.default_parameter) != defaults or any(float(getattr(cls(), k)) != float(v) for k, v in defaults.items()):
            msgs.append("class defaults changed: default_parameter %r (was %r), a new instance has %r" % (
                cls.default_parameter, defaults, {k: getattr(cls(), k) for k in defaults}))
        if ranges0 is not None and (cls.normalize_range, cls.denormalize_range) != ranges0:
            msgs.append("class-level ranges changed")
        if any(float(getattr(a, k)) != float(v) for k, v in par.items()):
            msgs.append("parameters of the object changed: %r" % {k: getattr(a, k) for k in par})
        # copies
        for how, mk in (("copy.deepcopy", copy.deepcopy), ("pickle round trip", lambda o: pickle.loads(pickle.dumps(o)))):
            try:
                c = mk(a)
            except Exception as e:
                msgs.append("%s raised %r" % (how, e))
                continue
            if not all(C.bit_equal(u, v) for u, v in zip(outputs(c), ref)) or not (c == a) or type(c) is not type(a):
                msgs.append("%s of the normalizer behaves differently from the original" % how)
            if defaults:
                c.lmbda = -2.0
                if not all(C.bit_equal(u, v) for u, v in zip(outputs(a), ref)):
                    msgs.append("changing the %s changed the original" % how)
        if msgs:
            ctx.violation("probe: results depend only on the object's own parameters", "%s: %s" % (name, "; ".join(msgs)), case, key="interference:normalizer")
    # holders: deepcopy evaluates like the original; an unrelated object in between does not matter
    for holder in ("SRF", "Krige", "CondSRF", "Field"):
        sp, ops = gen_history(rng, holder, "quick")
        ev = dict(ops[0], post_process=True, stored=False)
        ctx.count(("interference", holder), hist=dict(accessor="interference / copies"))
        with Quiet():
            try:
                ref = h_eval(holder, h_build(holder, sp), sp, ev, False)
                obj = h_build(holder, sp)
                sp2, ops2 = gen_history(rng, "Krige", "quick")
                other = h_build("Krige", sp2)
                other.set_condition(fit_normalizer=hasattr(other.normalizer, "lmbda") and sp2["norm"][0] != "BoxCoxShift")
                h_eval("Krige", other, sp2, dict(ops2[0], stored=False), False)
                got = h_eval(holder, obj, sp, ev, False)
                cp = copy.deepcopy(h_build(holder, sp))
                got_c = h_eval(holder, cp, sp, ev, False)
                if hasattr(cp.normalizer, "lmbda"):
                    cp.normalizer.lmbda = float(cp.normalizer.lmbda) + 0.7
                got_after = h_eval(holder, obj, sp, ev, False)
            except Exception as e:
                ctx.violation("probe: results depend only on the object's own parameters", "%s: raised %r" % (holder, e),
                              dict(kind="interference", holder=holder, params=sp, ev=ev), key="interference:raise")
                continue
        bad = [w for w, g in (("after an unrelated Krige object was fitted and evaluated", got), ("for a copy.deepcopy of the object", got_c),
                              ("after the normalizer of a deep copy was changed", got_after)) if not same_out(g, ref)]
        if bad:
            ctx.violation("probe: results depend only on the object's own parameters", "%s: evaluation differs from a fresh object %s" % (holder, "; ".join(bad)),
                          dict(kind="interference", holder=holder, params=sp, ev=ev), key="interference:%s" % holder)


# ------------------------------------------------------------------------------------------- run / replay

def isclose_corr(ctx, drv, rng):
    vals = list(LAMBDAS) + [float(v) for v in rng.normal(0, 1e-8, 20)] + [float(2 + v) for v in rng.normal(0, 2e-5, 20)] + [np.inf, -np.inf, np.nan]
    for v in vals:
        for b in (0.0, 2.0):
            ctx.count(None, hist=dict(fn="isclose"))
            with Quiet():
                a = bool(np.isclose(v, b))
            m = drv.call("isclose", float(v), b)
            if a != m:
                ctx.violation("correspondence: np.isclose", "np.isclose(%r, %r) = %r, model %r" % (v, b, a, m),
                              dict(kind="isclose", a=C.fhex(v), b=b), key="corr:isclose", no_input=True)


def dedupe(ctx):
    """one replay file per violation key (the first input found); further inputs with the same key are counted"""
    orig = ctx.violation
    seen = {}

    def violation(stage, what, case, key=None, no_input=False):
        if key is not None and key in seen:
            seen[key] += 1
            return False
        seen[key] = 1
        return orig(stage, what, case, key=key, no_input=no_input)
    ctx.violation = violation
    ctx.dup_counts = seen


def evalfunc_corr(ctx, drv, rng):
    """tools/misc.py eval_func with constant (vector) values: cut / padded with the last entry (model: single_val_vec)"""
    from gstools.tools.misc import eval_func
    for dim in (1, 2, 3):
        for ln in range(1, dim + 2):
            v = rng.normal(size=ln)
            pos = rng.normal(size=(dim, 4))
            ctx.count(("eval_func", dim, ln), hist=dict(fn="eval_func", dim=dim))
            with Quiet():
                a = np.asarray(eval_func(v, pos, dim, "unstructured", "vector", True), dtype=float) if ln > 1 else \
                    np.asarray(eval_func(v, pos, dim, "unstructured", "vector", False), dtype=float)
            m = np.asarray(drv.call("single_val_vec", v, ("n", dim)), dtype=float)
            ok = a.shape == (dim, 4) and all(C.bit_equal(a[:, j], m) for j in range(4))
            if not ok:
                ctx.violation("correspondence: eval_func constant vector", "eval_func(%r, dim=%d) = %r, model %r" % (v.tolist(), dim, a.tolist(), m.tolist()),
                              dict(kind="eval_func", value=hexl(v), dim=dim), key="corr:eval_func", no_input=True)
            # scalar value type: a constant is broadcast
            with Quiet():
                b = eval_func(float(v[0]), pos, dim, "unstructured", "scalar", True)
                c = np.asarray(eval_func(float(v[0]), pos, dim, "unstructured", "scalar", False), dtype=float)
            if not (b == float(v[0]) and c.shape == (4,) and (c == float(v[0])).all()):
                ctx.violation("correspondence: eval_func constant", "eval_func(%r) = %r / %r" % (float(v[0]), b, c.tolist()),
                              dict(kind="eval_func", value=hexl(v[:1]), dim=dim), key="corr:eval_func", no_input=True)


def run(ctx, only=None):
    rng = C.Rng(ctx.seed, "C18")
    dedupe(ctx)
    ctx.rule = ("cases = normalizer class x lmbda (both signs, special values 0 and 2, both np.isclose windows and their edges, random) x shift "
                "x entry point x data over the valid range incl. boundaries/NaN/inf/out-of-range; a scalar case is non-trivial when >= 4 "
                "data are valid; pipeline cases = object (SRF/Krige/CondSRF/Field) x normalizer x mesh x mean/trend kind x value type; "
                "distinct = distinct (class, lmbda, shift, entry point) / pipeline configuration keys")
    ctx.trusted = [
        "Coq 8.16.1 kernel (coqc); no native_compute; standard-library axioms as printed (sig_not_dec, sig_forall_dec, "
        "functional_extensionality_dep, Classical_Prop.classic); C18_nan_policy and C18_loglik_ignores_invalid are closed",
        "the hand-written Gallina model coq/c18/C18_Model.v (tied to /repo by execution on every run)",
        "extraction (ExtrOcamlBasic only), OCaml 4.13, ocaml/proto.ml float instance; ocaml/drv_c18.ml maps expm1/log1p to glibc",
        "real-number reading of the operations: Rpower x y = exp (y ln x), expm1 x = exp x - 1, log1p x = ln (1 + x); IEEE rounding not modelled",
        "numpy ufuncs (power, exp, log, expm1, log1p, isclose), scipy.optimize.minimize_scalar: modelled / probed, not verified",
    ]
    ctx.not_proved = [
        "that the optimiser inside Normalizer.fit finds the maximiser of the log-likelihood (scipy Brent/BFGS are oracles; the bookkeeping around them is proved): probed by brute force with the skipped parameters held fixed",
        "floating-point error of the coded formulas (theorems are over R; probes bound it with the cancellation scale)",
        "infinite data: modelled (isinf test) and compared, but the theorems at R have no infinities",
        "eval_func / mesh handling of callables: exercised through Field, SRF, Krige, CondSRF outputs, modelled only as position-wise values",
    ]
    ctx.tie["normalizer/methods.py: _normalize/_denormalize/_derivative of LogNormal, BoxCox, BoxCoxShift, YeoJohnson, Modulus, Manly (18 functions)"] = (
        "translated (py2coq, regenerated on this run) and proved equal to the hand model: 12 for every number type, 6 (log1p/expm1) at R "
        "(theorems C18_tie_*); additionally hand model executed against the implementation")
    ctx.tie["normalizer/methods.py: the six *_range properties that are functions"] = "translated (py2coq) and proved equal to the hand model for every number type (C18_tie_*_range); additionally compared by execution"
    ctx.tie["normalizer/methods.py: class-attribute ranges; base class Normalizer formulas"] = "hand model + correspondence"
    ctx.tie["normalizer/base.py: _check_input, normalize, denormalize, derivative, (kernel_)loglikelihood"] = "hand model + correspondence"
    ctx.tie["holders of the pipeline (Field, SRF, Krige + subclasses, CondSRF): setters, set_condition, evaluation options, caches"] = (
        "state-machine model C18_History.v (result = function of the present parameters) instantiated by operation histories: every "
        "evaluation compared with a fresh object, the model pipeline and the model's kriging conditions")
    ctx.tie["normalizer/tools.py: apply_mean_norm_trend / remove_trend_norm_mean; field/base.py post_field; krige/base.py _krige_cond"] = "hand model + correspondence"
    ctx.tie["normalizer/base.py: fit (bookkeeping: free/skipped names, write-back, returned dict)"] = "hand model fit_book + correspondence (recorded and arbitrary optimisers)"
    ctx.tie["normalizer/base.py: fit (optimum)"] = "probed only (brute-force maximisation with the skipped parameters held fixed)"
    proofs_ok = ctx.proofs("props/C18.v")
    tie_broken = []
    ok, out = C.build_driver("c18")
    drv = None
    if ok:
        drv = C.Driver("c18")
    else:
        tie_broken.append("extraction/driver build: " + out[-400:])
    try:
        cfgs = configs(rng, ctx.tier)
        if drv is not None:
            isclose_corr(ctx, drv, rng)
            evalfunc_corr(ctx, drv, rng)
            nbad = corr_scalar(ctx, drv, rng, cfgs)
            corr_loglik(ctx, drv, rng, [c for c in cfgs if lam_class(c[1]) != "gt2" or c[1] <= 3])
            pipeline(ctx, drv, rng)
            corr_fit(ctx, drv, rng)
            histories(ctx, drv, rng)
            acc_get_mean(ctx, drv, rng)
            acc_helpers(ctx, drv, rng)
            ctx.notes.append("model calls: %d; scalar correspondence disagreements: %d" % (drv.calls, nbad))
        sub = cfgs if ctx.tier == "thorough" else [c for i, c in enumerate(cfgs) if c[1] in LAMBDAS[:14] or i % 3 == 0]
        probes_scalar(ctx, rng, sub)
        probes_likelihood(ctx, rng)
        probes_fit_skip(ctx, rng)
        probe_fit_scale(ctx, rng)
        acc_input_classes(ctx, rng)
        acc_copies_interference(ctx, rng)
    finally:
        if drv:
            drv.close()
    more = {k: v for k, v in ctx.dup_counts.items() if v > 1}
    if more:
        ctx.notes.append("further failing inputs with an already reported key: %s" % json.dumps({str(k): v - 1 for k, v in more.items()}))
    if (tie_broken or not proofs_ok) and not ctx.violations:
        ctx.violation("proof/tie", "proof obligations or the model/code tie of C18 no longer check: %s" % (
            tie_broken or getattr(ctx, "proof_failure", {}).get("output_tail", "")[-600:]),
            dict(tie_broken=tie_broken, proof=getattr(ctx, "proof_failure", None)), no_input=True)


def replay(ctx, path):
    """re-run the recorded case on the current tree (implementation, model, property probe), then the whole check"""
    rec = json.load(open(path))
    print(json.dumps({k: rec.get(k) for k in ("stage", "what", "key")}, indent=1))
    cs = rec.get("case") or {}
    if cs.get("kind") == "scalar":
        name, lam, sh = cs["normalizer"], float.fromhex(cs["lmbda"]), float.fromhex(cs["shift"])
        x = np.array([float.fromhex(v) if v not in ("nan", "inf", "-inf") else float(v) for v in cs["data"]])
        nz = make(name, lam, sh)
        ok, _ = C.build_driver("c18")
        drv = C.Driver("c18") if ok else None
        with Quiet():
            for fn in ("normalize", "denormalize", "derivative"):
                a = getattr(nz, fn)(x)
                b = drv.call(fn, ("n", KINDS[name]), lam, sh, x) if drv else None
                print("%s(lmbda=%r, shift=%r).%s(%r) = %r   model: %r" % (name, lam, sh, fn, x.tolist(), np.asarray(a).tolist(),
                                                                       None if b is None else np.asarray(b).tolist()))
            print("denormalize(normalize(x)) =", np.asarray(nz.denormalize(nz.normalize(x))).tolist(),
                  " ranges:", nz.normalize_range, nz.denormalize_range)
            for v in x:
                for fn in ("normalize", "denormalize", "derivative"):
                    msg = probe_point(name, lam, sh, fn, float(v))
                    if msg:
                        print("property fails here:", msg)
        if drv:
            drv.close()
    elif cs.get("kind") == "history":
        ok, _ = C.build_driver("c18")
        drv = C.Driver("c18") if ok else None
        msg, _ = run_history(cs["holder"], cs["params"], cs["ops"], drv)
        print("history %s on %s now: %s" % ([o["op"] for o in cs["ops"]], cs["holder"], msg or "passes"))
        if drv:
            drv.close()
    elif cs.get("kind") == "ranges":
        name, lam, sh = cs["normalizer"], float.fromhex(cs["lmbda"]), float.fromhex(cs["shift"])
        print("range probe now:", probe_ranges_one(name, lam, sh) or "passes")
    run(ctx)
    return ctx.finish()
