"""C02 — shipped covariance models are positive semi-definite where they claim validity.

stages: corpus of past failures ; theorems props/C02.v (easy Bochner in any dimension, closure under linear maps / the
        sphere embedding / Riemann mixtures, Linear valid in 1-D, sign of the code's analytic spectra inside the
        bounds, |rho| <= 1) ;
        extracted model (bounds, check_dim, bound checks, elementary cor, analytic spectra) vs /repo ;
        probes of the property statement on the implementation: min eigenvalue of covariance matrices
        (lattices, clusters with near-coincident points, sphere, space-time), sign of the radial spectrum
        (own Bessel quadrature for the compact models, the model's spectral_density otherwise),
        correlation 1 at lag 0 and |rho| <= 1 on a lag grid from 1e-16 to 1e3 length scales."""
import itertools
import json
import os
import warnings

import numpy as np
from scipy import integrate
from scipy import special as sps

import common as C

NAMES = ["Gaussian", "Exponential", "Matern", "Integral", "Stable", "Rational", "Cubic", "Linear", "Circular",
         "Spherical", "HyperSpherical", "SuperSpherical", "JBessel", "TPLGaussian", "TPLExponential", "TPLStable",
         "TPLSimple"]
ONAME = {"nu": 0, "alpha": 1, "hurst": 2, "len_low": 3}
ANALYTIC = ["Gaussian", "Exponential", "Matern", "Integral", "HyperSpherical", "JBessel", "TPLGaussian", "TPLExponential"]
COMPACT = ["Cubic", "Linear", "Circular", "Spherical", "HyperSpherical", "SuperSpherical", "TPLSimple"]
ELEMENTARY = ["Gaussian", "Exponential", "Stable", "Rational", "Cubic", "Linear", "Spherical", "Circular", "TPLSimple"]

# eigenvalue tolerance (relative to n * var).  eigvalsh is backward stable: error <= c n eps ||C||_2 <= c n^2 eps var
# (1e-12 n var for n = 100); the special-function based correlations are accurate to 1e-13..1e-10 per entry, which
# moves an eigenvalue by at most ||E||_2 <= n 1e-10 var.  1e-8 n var is 100x above that, while every genuine
# invalidity seen on this code base is at 1e-5..1e-2 n var (JBessel underflow -1.7e-2, Linear in 2-D -5.6e-4,
# TPL zero-snap -2e-4, Cubic in 4-D -1e-5 on the tuned lattice form).
EIG_TOL = 1e-8


def oracle(code, a):
    if code == 0:
        return float(sps.gamma(a[0]))
    if code == 8:
        return float(sps.loggamma(a[0]))
    if code == 2:
        return float(sps.jv(a[0], a[1]))
    if code == 3:
        return float(sps.hyp2f1(a[0], a[1], a[2], a[3]))
    if code == 9:                      # gstools.tools.special.inc_gamma_low (the translator's meaning of ORA_INCGAMMA_LOW)
        from gstools.tools.special import inc_gamma_low
        return float(inc_gamma_low(a[0], a[1]))
    raise ValueError("oracle code %d" % code)


def make(gs, name, **kw):
    """construct a model with every warning captured.  -> (model, dimension-warning?, other warning texts)"""
    with warnings.catch_warnings(record=True) as w:
        warnings.simplefilter("always")
        m = getattr(gs, name)(**kw)
    msgs = [str(x.message) for x in w]
    dim_warn = any("is not appropriate for this model" in s for s in msgs)
    return m, dim_warn, [s for s in msgs if "is not appropriate" not in s]


def bounds_rows(b):
    rows = []
    for k, v in b.items():
        t = v[2] if len(v) > 2 else "cc"
        rows.append([float(ONAME[k]), float(v[0]), float(v[1]), float(t[0] == "c"), float(t[1] == "c")])
    return np.array(rows, dtype=float).reshape(len(rows), 5) if rows else np.zeros((0, 0))


def param_values(bd, rng, name, key):
    """values of one optional argument: AT the closed edges / next to the open ones, and inside"""
    lo, hi = float(bd[0]), float(bd[1])
    t = bd[2] if len(bd) > 2 else "cc"
    span = (hi - lo) if np.isfinite(hi) else 4.0
    vals = []
    if key == "alpha" and name in ("Stable", "TPLStable"):
        vals.append(("lo", 0.05))      # open bound 0; below ~0.002*hurst the code's recursion depth is exceeded (known finding)
    else:
        vals.append(("lo", lo if t[0] == "c" else lo + 1e-3 * span))
    if np.isfinite(hi):
        vals.append(("hi", hi if t[1] == "c" else hi - 1e-3 * span))
    vals.append(("in", lo + float(rng.uniform(0.02, 0.98)) * span))
    vals.append(("in", lo + span * float(10.0 ** rng.uniform(-2.5, -0.3))))
    if key == "len_low":
        vals.append(("small", 1e-6))
    if name == "Matern":
        vals += [("nu<=20", 20.0), ("nu>20", 20.000001), ("in", 0.5), ("in", 2.5)]
    if name == "Integral":
        vals += [("in", 1.0), ("noninteger-large", 49.9)]
    if name == "JBessel":
        vals += [("lo+", lo + 0.02), ("wave", max(lo, 0.5))]
    if name in ("Stable", "TPLStable") and key == "alpha":
        vals += [("in", 0.3), ("in", 1.0)]
    return vals


def _ulps(v):
    return [("", v), ("-ulp", float(np.nextafter(v, -np.inf))), ("+ulp", float(np.nextafter(v, np.inf)))]


def special_sets(name, dim, b):
    """'special relations' stream: parameter values where the special-function code switches branches (integer / half-integer
    orders, documented thresholds, the dimension-dependent bound), written as the decimal values a user would type -- so the
    derived order is an integer in exact arithmetic but possibly 1 ulp off in floating point -- plus 1-ulp neighbours.
    Always appended to the sampled sets (not subject to the sampling limit); values outside the bounds are dropped."""
    out = []
    if name == "TPLStable":
        # s = 1 + 2 hurst / alpha: integer for ratio 1, 2, 3, 4, 5; half-integer 1.5, 2.5
        pairs = [(0.6, 0.4), (0.3, 0.2), (0.15, 0.1), (0.45, 0.3), (0.9, 0.6), (0.75, 0.5), (0.99, 0.66), (0.2, 0.4), (0.35, 0.7),
                 (0.3, 0.6), (0.7, 1.4), (0.55, 1.1), (0.3, 0.3), (0.7, 0.7), (0.7, 0.35), (0.9, 0.45), (0.5, 0.2), (0.6, 0.2),
                 (0.45, 0.6), (0.75, 0.6), (0.5, 2.0), (0.5, 1.0)]
        for i, (h, a) in enumerate(pairs):
            for tag, hv in (_ulps(h) if i % 3 == 0 else [("", h)]):
                out.append((("hurst:%g%s" % (h, tag), "alpha:%g" % a, "len_low:%g" % (0.0 if i % 2 == 0 else 0.5)),
                            dict(hurst=hv, alpha=a, len_low=0.0 if i % 2 == 0 else 0.5)))
    elif name == "TPLExponential":      # s = 1 + 2 hurst: integer at hurst = 1/2, half-integer at 1/4, 3/4
        for h in (0.5, 0.25, 0.75, 0.15 + 0.35, 0.1 * 5):
            for tag, hv in _ulps(h):
                out.append((("hurst:%g%s" % (h, tag), "len_low:0"), dict(hurst=hv, len_low=0.0)))
        out.append((("hurst:0.5", "len_low:0.5"), dict(hurst=0.5, len_low=0.5)))
    elif name == "TPLGaussian":         # s = 1 + hurst: half-integer at hurst = 1/2
        for tag, hv in _ulps(0.5):
            out.append((("hurst:0.5%s" % tag, "len_low:0"), dict(hurst=hv, len_low=0.0)))
        out.append((("hurst:0.5", "len_low:0.5"), dict(hurst=0.5, len_low=0.5)))
    elif name == "Integral":            # s = 1 + nu/2 and (nu + d)/2: integer, half-integer, 1 ulp off, decimal products
        for v in (2.0, 4.0, 1.0, 3.0, 6.0, 10.0, 30.0, 48.0, 0.1 * 3 * 10, 0.7 * 10 - 1.0, 0.2 * 3 * 10, 1.1 * 10 - 5):
            for tag, vv in _ulps(v):
                out.append((("nu:%.17g%s" % (v, tag),), dict(nu=vv)))
        out += [(("nu:50-ulp",), dict(nu=float(np.nextafter(50.0, 0)))), (("nu:%d-d" % (4 - dim % 2),), dict(nu=float(4 - dim % 2)))]
    elif name == "Matern":
        for v in (0.5, 1.5, 2.5, 20.0, 0.1 * 5, 0.3 * 5):
            for tag, vv in _ulps(v):
                out.append((("nu:%.17g%s" % (v, tag),), dict(nu=vv)))
    elif name in ("Stable", "Rational"):
        for v in (1.0, 2.0, 0.5, 0.1 * 10, 0.2 * 10, 1.5, 0.3):
            for tag, vv in _ulps(v):
                out.append((("alpha:%.17g%s" % (v, tag),), dict(alpha=vv)))
    elif name in ("SuperSpherical", "JBessel", "TPLSimple"):
        lo = float(b["nu"][0])
        for v in (lo, lo + 0.5, lo + 1.0, 1.0, 1.5, 2.0, 2.5, 3.0):
            for tag, vv in _ulps(v):
                out.append((("nu:%.17g%s" % (v, tag),), dict(nu=vv)))

    def inside(k, v):
        bd = b[k]
        t = bd[2] if len(bd) > 2 else "cc"
        return (v >= bd[0] if t[0] == "c" else v > bd[0]) and (v <= bd[1] if t[1] == "c" else v < bd[1])
    seen, res = set(), []
    for sig, p in out:
        key = tuple(sorted(p.items()))
        if key not in seen and all(inside(k, v) for k, v in p.items()):
            seen.add(key)
            res.append((("special",) + tuple(sig), p))
    return res


def param_sets(m0, rng, name, limit, special=True):
    b = m0.default_opt_arg_bounds()
    if not b:
        return [((), {})]
    return _sampled_sets(b, rng, name, limit) + (special_sets(name, m0.dim, b) if special else [])


def _sampled_sets(b, rng, name, limit):
    keys = list(b)
    grids = [param_values(b[k], rng, name, k) for k in keys]
    combos = list(itertools.product(*grids))
    if len(combos) > limit:
        idx = rng.choice(len(combos), size=limit, replace=False)
        # always keep the all-lower-edge and all-upper-edge corners
        combos = [combos[0], tuple(g[1] if len(g) > 1 else g[0] for g in grids)] + [combos[i] for i in idx]
    out = []
    for c in combos:
        sig = tuple("%s:%s" % (k, tag) for k, (tag, _) in zip(keys, c))
        out.append((sig, {k: float(v) for k, (_, v) in zip(keys, c)}))
    return out


def dim_configs(thorough):
    cfg = [dict(dim=1), dict(dim=2), dict(dim=3), dict(dim=4), dict(spatial_dim=3, temporal=True)]
    if thorough:
        cfg += [dict(spatial_dim=2, temporal=True), dict(spatial_dim=1, temporal=True), dict(dim=5)]
    return cfg


def cfg_tag(c):
    return "st%d+t" % c["spatial_dim"] if c.get("temporal") else "d%d" % c["dim"]


# ------------------------------------------------------------------------------------ point sets
def point_set(rng, kind, dim, n, ell):
    if kind == "lattice":
        m = max(2, int(round(n ** (1.0 / dim))))
        g = np.stack(np.meshgrid(*[np.arange(m)] * dim, indexing="ij"), 0).reshape(dim, -1).T.astype(float)
        if len(g) > n:
            g = g[rng.choice(len(g), size=n, replace=False)]
        return g * ell * float(rng.choice([0.25, 0.6, 1.0]))
    if kind == "cluster":
        # tight cluster, far points, exact duplicate, and chains of near-coincident points 1e-3 .. 1e-12 ell apart
        a = rng.normal(size=(n // 3, dim)) * 0.05 * ell
        b = rng.normal(size=(n // 3, dim)) * 2.0 * ell
        base = rng.normal(size=dim) * ell
        e = np.zeros(dim)
        e[0] = 1.0
        chain = [base]
        for dlt in (1e-3, 1e-6, 0.9e-8, 1.8e-8, 1e-10, 1e-12):
            chain.append(base + dlt * ell * e)
        chain.append(base.copy())
        return np.vstack([a, b, np.array(chain)])
    return rng.uniform(-1, 1, size=(n, dim)) * ell * float(rng.choice([0.5, 3.0]))


def cov_matrix_spatial(m, X):
    """covariance matrix through the implementation's cov_spatial (isometrize: rotation + anisotropy)"""
    n = len(X)
    diff = (X[:, None, :] - X[None, :, :]).reshape(n * n, -1).T
    return np.asarray(m.cov_spatial(tuple(diff)), dtype=float).reshape(n, n)


def min_eig(Cm):
    if not np.all(np.isfinite(Cm)):
        return float("nan")
    return float(np.linalg.eigvalsh(0.5 * (Cm + Cm.T))[0])


# ------------------------------------------------------------------------------------ spectra
def radial_spectrum_quad(cor, d, k, rng_hi=1.0):
    """d-dimensional radial Fourier transform (up to the positive factor (2 pi)^(-d/2)) of a correlation with
    support [0, rng_hi]:  k^(1-d/2) int_0^R r^(d/2) cor(r) J_{d/2-1}(k r) dr"""
    f = lambda r: r ** (d / 2.0) * float(cor(np.array([r]))[0]) * sps.jv(d / 2.0 - 1.0, k * r)
    v, err = integrate.quad(f, 0.0, rng_hi, limit=400, epsabs=1e-13, epsrel=1e-11)
    return v * k ** (1.0 - d / 2.0), err * k ** (1.0 - d / 2.0)


def lattice_witness(m, dim, kstar, ell):
    """explicit weighted point set for a negative spectrum at |k| = kstar: an anisotropic lattice, long and fine along
    x1 with weights cos(kstar x1) * Gaussian window.  The quadratic form c^T C c is evaluated exactly by grouping
    equal lag vectors (autocorrelation of the weights), every covariance value coming from m.covariance.
    Returns dict with the Rayleigh quotient c^T C c / c^T c (an upper bound of the minimum eigenvalue)."""
    lam = 2 * np.pi / kstar
    a1 = lam / 6.0
    s1 = 5.0 * lam
    n1 = int(2 * 3 * s1 / a1) + 1
    x1 = (np.arange(n1) - n1 // 2) * a1
    w1 = np.cos(kstar * x1) * np.exp(-0.5 * (x1 / s1) ** 2)
    at = 0.3 * ell
    nt = 5
    xt = (np.arange(nt) - nt // 2) * at
    wt = np.exp(-0.5 * (xt / (0.55 * ell)) ** 2)
    ac1 = np.correlate(w1, w1, mode="full")            # lags -(n1-1)..(n1-1)
    act = np.correlate(wt, wt, mode="full")
    l1 = np.arange(-(n1 - 1), n1) * a1
    lt = np.arange(-(nt - 1), nt) * at
    grids = np.meshgrid(l1, *([lt] * (dim - 1)), indexing="ij")
    A = ac1.reshape((-1,) + (1,) * (dim - 1))
    for j in range(dim - 1):
        shp = [1] * dim
        shp[j + 1] = -1
        A = A * act.reshape(shp)
    r = np.sqrt(sum(g ** 2 for g in grids))
    cov = np.asarray(m.covariance(r.ravel()), dtype=float).reshape(r.shape)
    q = float((A * cov).sum())
    cc = float((w1 ** 2).sum() * (wt ** 2).sum() ** (dim - 1))
    return dict(points="lattice: x1 = (i - %d) * %.17g, i < %d ; other axes (j - %d) * %.17g, j < %d" % (n1 // 2, a1, n1, nt // 2, at, nt),
                weights="cos(%.17g x1) exp(-x1^2 / (2 * %.17g^2)) * prod exp(-xj^2 / (2 * %.17g^2))" % (kstar, s1, 0.55 * ell),
                n_points=int(n1 * nt ** (dim - 1)), quadratic_form=q, rayleigh_quotient=q / cc)


# ------------------------------------------------------------------------------------ the check
def run(ctx, only=None):
    import gstools as gs
    from gstools.covmodel.tools import check_arg_in_bounds
    from gstools.tools import special as gsp
    rng = C.Rng(ctx.seed, "C02")
    thorough = ctx.tier == "thorough"
    # known findings of this property that the coordinator has not merged into known_findings.json yet
    try:
        mine = json.load(open(os.path.join(C.VERIF, "known_findings.d", "C02.json")))
        have = {k["key"] for k in ctx.kf}
        ctx.kf += [k for k in mine if k["key"] not in have]
    except Exception:
        pass
    ctx.rule = ("17 classes x dims 1-4 (+ 3+time, thorough: 2+time, 1+time, 5) accepted without dimension warning x optional "
                "arguments AT closed bound edges / 1e-3 inside open ones / inside (Matern across 20, JBessel next to d/2-1, "
                "Integral 49.9) x len_scale x anis x angles x point sets (lattice, uniform, cluster with near-coincident chains "
                "1e-3..1e-12 len_scale and an exact duplicate; sphere lat-lon incl. poles/date line; space-time). non-trivial = "
                ">= 8 points or a full lag/wave-number grid; distinct = distinct (probe, class, dim config, parameter signature, "
                "point-set kind / transformation) keys")
    ctx.trusted = [
        "Coq 8.16.1 kernel; stdlib Reals axioms + Classical_Prop.classic (Coquelicot RInt) as printed per theorem",
        "sign facts assumed of scipy's special functions (explicit theorem hypotheses): gamma(x) > 0 for x > 0; gstools inc_gamma_low(s, x) >= 0 for s > 0, x >= 0; "
        "hyp2f1(a, b, c, x) >= 0 for a, b, c > 0 and 0 <= x < 1.  J_nu enters squared: nothing assumed.",
        "translator tools/py2coq.py (formula subset semantics) for the Coq-checked ties C02_tie_*",
        "hand model c02/C02_Model.v tied by executing the extraction (ExtrOcamlBasic, OCaml floats, scipy oracle co-process) "
        "against /repo on this run",
        "numpy.linalg.eigvalsh, scipy.integrate.quad + scipy.special.jv (own radial transform of the compact models)",
    ]
    ctx.not_proved = [
        "that each analytic spectral formula IS the Fourier transform of the correlation (property C04); the sign theorems "
        "are about the formula the code evaluates",
        "validity of eight of the nine models without analytic spectrum (Stable, Rational, Cubic, Circular, Spherical, "
        "SuperSpherical, TPLStable, TPLSimple): Askey/Schoenberg-type results are out of reach here; eigenvalue and "
        "spectrum-sign probes only (Linear IS proved valid in 1-D, the only dimension it accepts)",
        "TPLGaussian / TPLExponential spectra for len_low > 0 (a difference of two spectra: its sign needs monotonicity in "
        "the length scale, not just sign facts); probed",
        "|rho| <= 1 for the special-function correlations (Matern, Integral, HyperSpherical, SuperSpherical, JBessel, TPL*): probed",
        "floating point: theorems are over R; rounding enters through the eigenvalue tolerance -1e-8 n var",
    ]
    ctx.tie["opt_bounds/opt_default/check_dim/arg_error"] = "hand model + correspondence only (dict-valued / warning-raising code is not translatable): every class x dim, warnings captured"
    ctx.tie["cor of Gaussian Exponential Stable Rational Cubic Linear Circular Spherical TPLSimple"] = (
        "translated (py2coq -> gen/Formulas_gen.v on this run) and proved equal to the hand model for every number type "
        "(C02_tie_*_cor); the hand model is additionally executed against /repo")
    ctx.tie["spectral_density of Gaussian Exponential Matern Integral HyperSpherical JBessel, tpl_exp_spec_dens, tpl_gau_spec_dens, "
            "TPLExponential/TPLGaussian.spectral_density"] = (
        "translated and proved equal to the hand model for every number type (C02_tie_*_spectral_density, C02_tie_tpl_*); "
        "hand model additionally executed against /repo (scipy / gstools special functions shared through the oracle)")

    import time
    t0 = time.time()
    proofs_ok = ctx.proofs("props/C02.v")
    C.log("[C02] stage proofs   %6.1fs (includes waiting for the shared coq build lock)" % (time.time() - t0))
    tie_broken = []
    drv = None
    t0 = time.time()
    ok, out = C.build_driver("c02")
    C.log("[C02] stage driver   %6.1fs" % (time.time() - t0))
    if ok:
        drv = C.Driver("c02", oracle)
    else:
        tie_broken.append("extraction/driver: " + out[-400:])

    def corr_fail(what, case):
        tie_broken.append(what)
        ctx.sample(dict(correspondence_mismatch=what, case=case), limit=12)
        C.log("[C02] correspondence mismatch: %s %s" % (what, json.dumps(case, default=str)[:300]))

    try:
        stages = [("corpus", lambda: corpus(ctx, gs)),
                  ("corr", lambda: correspondence(ctx, gs, gsp, check_arg_in_bounds, drv, rng, thorough, corr_fail) if drv is not None else None),
                  ("dims", lambda: probe_dims(ctx, gs, rng, thorough)),
                  ("reject", lambda: probe_reject(ctx, gs, rng, thorough, drv, corr_fail)),
                  ("even", lambda: probe_even(ctx, gs, rng, thorough, drv, corr_fail)),
                  ("history", lambda: probe_history(ctx, gs, rng, thorough)),
                  ("cor", lambda: probe_cor(ctx, gs, rng, thorough)),
                  ("spectrum", lambda: probe_spectrum(ctx, gs, rng, thorough)),
                  ("eig", lambda: probe_eig(ctx, gs, rng, thorough)),
                  ("sphere", lambda: probe_sphere(ctx, gs, rng, thorough)),
                  ("consts", lambda: probe_constants(ctx, gs, rng, thorough))]
        for tag, fn in stages:
            if only in (None, tag):
                t0 = time.time()
                fn()
                C.log("[C02] stage %-8s %6.1fs  evaluations so far %d" % (tag, time.time() - t0, ctx.evaluations))
    finally:
        if drv:
            drv.close()
    if getattr(ctx, "more_violations", 0):
        ctx.notes.append("%d further failing inputs were found beyond the first 6 per class and not written out" % ctx.more_violations)
    if (tie_broken or not proofs_ok) and not [v for v in ctx.violations if not v["no_input"]]:
        ctx.violation("proof/tie", "proof obligations or the model/code tie of C02 no longer check: %s" % (
            "; ".join(tie_broken[:4]) or getattr(ctx, "proof_failure", {}).get("output_tail", "")[-600:]),
            dict(tie_broken=tie_broken[:20], proof=getattr(ctx, "proof_failure", None)), no_input=True)


# ------------------------------------------------------------------------------------ correspondence
def correspondence(ctx, gs, gsp, check_arg_in_bounds, drv, rng, thorough, fail):
    dims = [1, 2, 3, 4, 5, 7] if thorough else [1, 2, 3, 4, 6]
    for ci, name in enumerate(NAMES):
        for dim in dims:
            m, warned, other = make(gs, name, dim=dim)
            ctx.count(("corr-bounds", name, dim), hist=dict(stage="corr-bounds", cls=name, dim=dim))
            cd = drv.call("check_dim", ("n", ci), ("z", dim))
            if cd != (not warned) or cd != bool(m.check_dim(dim)):
                fail("check_dim(%s, %d): model %s, implementation check_dim %s, warning %s" % (name, dim, cd, m.check_dim(dim), warned),
                     dict(cls=name, dim=dim))
            rows = bounds_rows(m.default_opt_arg_bounds())
            mb = drv.call("opt_bounds", ("n", ci), ("z", dim))
            if rows.shape != mb.shape or not C.bit_equal(rows, mb):
                fail("default_opt_arg_bounds(%s, dim=%d)" % (name, dim), dict(cls=name, dim=dim, impl=rows.tolist(), model=mb.tolist()))
            inst = bounds_rows({k: m.opt_arg_bounds[k] for k in m.default_opt_arg_bounds()})
            if inst.shape != mb.shape or not C.bit_equal(inst, mb):
                fail("installed opt_arg_bounds(%s, dim=%d)" % (name, dim), dict(cls=name, dim=dim, impl=inst.tolist(), model=mb.tolist()))
            dflt = m.default_opt_arg()
            drows = np.array([[float(ONAME[k]), float(v)] for k, v in dflt.items()]).reshape(len(dflt), 2) if dflt else np.zeros((0, 0))
            md = drv.call("opt_default", ("n", ci), ("z", dim))
            if drows.shape != md.shape or not C.bit_equal(drows, md):
                fail("default_opt_arg(%s, dim=%d)" % (name, dim), dict(cls=name, dim=dim, impl=drows.tolist(), model=md.tolist()))
            # bound checks at / next to the edges
            for k, bd in m.default_opt_arg_bounds().items():
                lo, hi = float(bd[0]), float(bd[1])
                vs = [lo, np.nextafter(lo, -np.inf), np.nextafter(lo, np.inf), lo - 1.0, lo + 0.37]
                if np.isfinite(hi):
                    vs += [hi, np.nextafter(hi, -np.inf), np.nextafter(hi, np.inf), hi + 1.0, 0.5 * (lo + hi)]
                else:
                    vs += [1e300, 3.0]
                for v in vs:
                    v = float(v)
                    e_impl = int(check_arg_in_bounds(m, k, val=v))
                    e_mod = drv.call("arg_error", ("n", ci), ("z", dim), ("z", ONAME[k]), v)
                    ctx.count(None, hist=dict(stage="corr-arg_error", cls=name))
                    if e_impl != e_mod:
                        fail("check_arg_in_bounds(%s, dim=%d, %s=%r): model %s impl %s" % (name, dim, k, v, e_mod, e_impl),
                             dict(cls=name, dim=dim, arg=k, val=C.fhex(v)))
                # end to end: the constructor rejects exactly the values with a non-zero code (dims without side effects)
                if dim <= 4:
                    for v in (lo, hi if np.isfinite(hi) else 2.0, np.nextafter(lo, -np.inf)):
                        v = float(v)
                        e_mod = drv.call("arg_error", ("n", ci), ("z", dim), ("z", ONAME[k]), v)
                        try:
                            make(gs, name, dim=dim, **{k: v})
                            raised = False
                        except ValueError:
                            raised = True
                        if raised != (e_mod != 0):
                            fail("constructor %s(dim=%d, %s=%r) raised=%s but bound code %s" % (name, dim, k, v, raised, e_mod),
                                 dict(cls=name, dim=dim, arg=k, val=C.fhex(v)))
        # space-time / lat-lon dimension handling
        for kw, d_expect in ((dict(spatial_dim=3, temporal=True), 4), (dict(latlon=True), 3), (dict(latlon=True, temporal=True), 4),
                             (dict(spatial_dim=2, temporal=True), 3)):
            m, warned, _ = make(gs, name, **kw)
            cd = drv.call("check_dim", ("n", ci), ("z", d_expect))
            ctx.count(("corr-dim", name, tuple(sorted(kw.items()))), hist=dict(stage="corr-dim", cls=name))
            if m.dim != d_expect or cd != (not warned):
                fail("dimension handling %s(%s): dim %s (expected %d), warning %s, model check_dim %s" % (name, kw, m.dim, d_expect, warned, cd),
                     dict(cls=name, kw=kw))
    # ---- elementary correlations
    hs = [0.0, 1e-300, 1e-16, 1e-14, 1e-12, 1e-10, 1e-8, 1e-6, 1e-3, 0.1, 0.5, 0.999999, 1.0, 1.0000001, 2.5, 30.0, 1e3]
    hs += [float(x) for x in 10.0 ** rng.uniform(-6, 1.5, size=12 if thorough else 5)]
    for name in ELEMENTARY:
        m0, _, _ = make(gs, name, dim=1)
        for sig, p in param_sets(m0, rng, name, 12):
            m, _, _ = make(gs, name, dim=1, **p)
            for h in hs:
                impl = float(np.asarray(m.cor(np.array([h], dtype=float)))[0])
                args = {"Stable": [p.get("alpha")], "Rational": [p.get("alpha")], "TPLSimple": [p.get("nu")]}.get(name, [])
                mod = drv.call("cor_" + name.lower(), *[float(a) for a in args], float(h))
                ctx.count(("corr-cor", name, sig, h) if h > 0 else None, hist=dict(stage="corr-cor", cls=name))
                if not C.close(impl, mod, rtol=1e-9):
                    fail("cor %s %s at h=%r: model %r impl %r" % (name, p, h, mod, impl), dict(cls=name, params=p, h=C.fhex(h)))
    # ---- analytic spectral densities
    for name in ANALYTIC:
        for dim in (1, 2, 3, 4):
            m0, _, _ = make(gs, name, dim=dim)
            for sig, p in param_sets(m0, rng, name, 10 if thorough else 6):
                for L in ([0.3, 1.0, 7.5] if thorough else [float(rng.choice([0.3, 1.0, 7.5]))]):
                    m, _, _ = make(gs, name, dim=dim, len_scale=L, **p)
                    ell = float(m.len_rescaled)
                    ks = [0.0, 1e-9, 0.99e-8, 1.01e-8, 1e-4, 0.1 / ell, 0.5 / ell, 0.99999 / ell, 1.0 / ell, 1.00001 / ell,
                          1.5 / ell, 0.6 / ell, 0.64 / ell, 3.0 / ell, 10.0 / ell, 40.0 / ell]
                    ks += [float(x) / ell for x in 10.0 ** rng.uniform(-3, 1.7, size=4)]
                    impl = np.asarray(m.spectral_density(np.array(ks, dtype=float)), dtype=float)
                    for k, si in zip(ks, impl):
                        if name in ("Gaussian", "Exponential", "HyperSpherical"):
                            mod = drv.call("sd_" + name.lower(), ("z", dim), ell, float(k))
                        elif name in ("Matern", "Integral", "JBessel"):
                            mod = drv.call("sd_" + name.lower(), ("z", dim), ell, p["nu"], float(k))
                        else:
                            fn = "sd_tplexp" if name == "TPLExponential" else "sd_tplgau"
                            mod = drv.call(fn, ("z", dim), ell, p["hurst"], float(m.len_low_rescaled), float(k))
                        scale = None
                        if name.startswith("TPL") and m.len_low_rescaled != 0.0:
                            # condition of the difference (fac_up*S_up - fac_low*S_low)/(fac_up - fac_low), from the code's own parts
                            f = gsp.tpl_exp_spec_dens if name == "TPLExponential" else gsp.tpl_gau_spec_dens
                            ll, H = float(m.len_low_rescaled), p["hurst"]
                            fu, fl = (ell + ll) ** (2 * H), ll ** (2 * H)
                            scale = (abs(fu * float(f(np.array([k]), dim, ell + ll, H)[0])) + abs(fl * float(f(np.array([k]), dim, ll, H)[0]))) / abs(fu - fl)
                        ctx.count(("corr-sd", name, dim, sig, round(float(k * ell), 6)), hist=dict(stage="corr-sd", cls=name, dim=dim))
                        if not C.close(si, mod, rtol=1e-9, scale=scale):
                            fail("spectral_density %s dim=%d %s len_rescaled=%r k=%r: model %r impl %r" % (name, dim, p, ell, k, mod, float(si)),
                                 dict(cls=name, dim=dim, params=p, ell=C.fhex(ell), k=C.fhex(k)))


# ------------------------------------------------------------------------------------ probes
LAGS = np.concatenate([[0.0], 10.0 ** np.arange(-16, 3.01, 0.25)])


def configs(gs, rng, thorough, limit, ulp=True):
    """(class, dim config, dim, parameter signature, parameters) for every configuration accepted without dimension warning"""
    for name in NAMES:
        for cfg in dim_configs(thorough):
            m0, warned, _ = make(gs, name, **cfg)
            if warned:
                continue
            for sig, p in param_sets(m0, rng, name, limit):
                if not ulp and any("ulp" in x for x in sig):
                    continue          # 1-ulp neighbours of the special values: cor probe / correspondence / thorough tier only
                yield name, cfg, m0.dim, sig, p


def probe_dims(ctx, gs, rng, thorough):
    """class x construction-option cells and dim-setter histories: a model object whose present dimension its own class
    rejects (check_dim(model.dim) False) must have produced the invalid-dimension warning on the way there.  On a missing
    warning the (class, options) cell is the failing input; for compact classes the negative lobe of the radial spectrum in
    that dimension and an explicit weighted lattice (evaluated with the object's own covariance) are attached."""
    cells = [dict(dim=d) for d in (1, 2, 3, 4, 5)]
    cells += [dict(spatial_dim=sd, temporal=True) for sd in (1, 2, 3, 4)] + [dict(spatial_dim=sd) for sd in (1, 2, 3, 4)]
    cells += [dict(latlon=True), dict(latlon=True, temporal=True), dict(latlon=True, dim=1), dict(latlon=True, dim=2, temporal=True),
              dict(latlon=True, temporal=True, spatial_dim=2), dict(latlon=True, dim=4), dict(dim=2, temporal=True)]
    for name in NAMES:
        for cell in cells:
            hist = [None] + ([1, 2, 3, 4] if set(cell) == {"dim"} else [3] if "latlon" in cell else [])   # then: model.dim = d (setter)
            for setd in hist:
                case = dict(probe="dims", cls=name, cell=cell, then_set_dim=setd)

                def one():
                    m, warned, _ = make(gs, name, **cell)
                    if setd is not None:
                        with warnings.catch_warnings(record=True) as w:
                            warnings.simplefilter("always")
                            try:
                                m.dim = setd
                            except ValueError:
                                return                                  # bounds of the new dimension reject the present arguments
                        warned = any("is not appropriate for this model" in str(x.message) for x in w)
                    ok_dim = bool(m.check_dim(m.dim))
                    ctx.count(("dims", name, tuple(sorted(cell.items())), setd), hist=dict(stage="probe-dims", cls=name))
                    if not ok_dim and not warned:
                        wit = None
                        if name in COMPACT and m.dim >= 2:
                            ell = float(m.len_rescaled)
                            cor = lambda r: m.correlation(r)
                            s0q, _ = radial_spectrum_quad(cor, m.dim, 1e-3 / ell, rng_hi=ell)
                            ks = np.linspace(0.5, 40.0, 80)
                            vals = [radial_spectrum_quad(cor, m.dim, k / ell, rng_hi=ell)[0] for k in ks]
                            i = int(np.argmin(vals))
                            if vals[i] < -1e-7 * s0q:
                                from scipy import optimize
                                res = optimize.minimize_scalar(lambda k: radial_spectrum_quad(cor, m.dim, k / ell, rng_hi=ell)[0],
                                                               bounds=(max(0.1, ks[i] - 0.8), ks[i] + 0.8), method="bounded")
                                wit = dict(dimension=int(m.dim), k_times_ell=float(res.x), relative_spectrum=float(res.fun / s0q),
                                           lattice=lattice_witness(m, m.dim, float(res.x) / ell, ell))
                        ctx.violation("probe: every dimension a model object ends up in is announced (invalid-dimension warning)",
                                      "%s(%s)%s has dim = %d, which %s.check_dim rejects, but no 'Dimension %d is not appropriate' warning was "
                                      "raised%s" % (name, cell, "" if setd is None else " then model.dim = %d" % setd, m.dim, name, m.dim,
                                                    "; its %d-D radial spectrum is %.2e S(0) at k = %.2f/len and the explicit %d-point lattice "
                                                    "has Rayleigh quotient %.3e" % (m.dim, wit["relative_spectrum"], wit["k_times_ell"],
                                                                                    wit["lattice"]["n_points"], wit["lattice"]["rayleigh_quotient"])
                                                    if wit else ""),
                                      dict(case, model_dim=int(m.dim), check_dim=ok_dim, warned=warned, witness=wit),
                                      key="dim-warning-missing:%s:%s:%s" % (name, sorted(cell.items()), setd))
                guarded(ctx, "probe: dimension cells", name, cell, ("cell",), case, one)


def cov_matrix_full(m, X):
    """covariance matrix incl. the nugget on coincident points (cov_nugget of the isometrized distances)"""
    n = len(X)
    diff = (X[:, None, :] - X[None, :, :]).reshape(n * n, -1).T
    return np.asarray(m.cov_nugget(m._get_iso_rad(tuple(diff))), dtype=float).reshape(n, n)


BASE = {"var": 0, "len_scale": 1, "nugget": 2, "anis": 3}


def probe_reject(ctx, gs, rng, thorough, drv, fail):
    """documented rejections: validity is only claimed inside the bounds (model: base_bound / opt_bounds, arg_error), so an object
    holding an out-of-bounds parameter must never come into being.  For every class x {var, len_scale, nugget, anis, each
    optional argument} x every route (constructor with var=, with var_raw=, with integral_scale=; var_raw itself; the setter;
    set_arg_bounds to a narrower interval followed by an assignment; fit_variogram) x values clearly outside / 1 ulp outside /
    on / 1 ulp (or 1e-9) inside each finite bound end: the implementation raises ValueError exactly when the model's bound
    code is non-zero.  An accepted out-of-bounds object is reported with the most negative eigenvalue found for it."""
    stage = "probe: out-of-bounds parameters are rejected on every construction route"
    from gstools.covmodel.tools import check_arg_in_bounds

    def edge_values(lo, hi):
        vs = []
        for b, outward in ((lo, -1.0), (hi, 1.0)):
            if not np.isfinite(b):
                continue
            eps = 1e-9 * max(1.0, abs(b))
            vs += [b + outward * 0.5, b + outward * eps, float(np.nextafter(b, outward * np.inf)), b, b - outward * eps]
            if b != 0.0:
                vs.append(float(np.nextafter(b, -outward * np.inf)))
        return [float(v) for v in vs]

    def witness(m):
        try:
            best = None
            for kind in ("lattice", "cluster", "uniform"):
                X = point_set(rng, kind, m.dim, 36, float(abs(m.len_rescaled)) if np.isfinite(m.len_rescaled) and m.len_rescaled else 1.0)
                ev = min_eig(cov_matrix_full(m, X))
                if best is None or not (ev >= best[0]):
                    best = (ev, kind, [[C.fhex(v) for v in row] for row in X])
            return dict(min_eig=repr(best[0]), points_kind=best[1], points=best[2])
        except Exception as e:  # noqa: BLE001
            return dict(witness_failed=repr(e))

    for name in NAMES:
        ci = NAMES.index(name)
        for dim in ([1, 2, 3] if thorough else [1, 3]):
            m0, warned, _ = make(gs, name, dim=dim)
            if warned:
                continue
            optb = m0.default_opt_arg_bounds()
            args = ["var", "len_scale", "nugget"] + (["anis"] if dim > 1 else []) + list(optb)
            for arg in args:
                if arg in optb:
                    lo, hi = float(optb[arg][0]), float(optb[arg][1])
                else:
                    lo, hi = 0.0, np.inf
                for v in edge_values(lo, hi):
                    code = None
                    if drv is not None:
                        code = (drv.call("arg_error", ("n", ci), ("z", dim), ("z", ONAME[arg]), v) if arg in optb
                                else drv.call("base_error", ("z", BASE[arg]), v))
                    impl_code = int(check_arg_in_bounds(m0, arg, val=v))
                    if code is None:
                        code = impl_code
                    elif (code != 0) != (impl_code != 0):
                        fail("bound code of %s.%s = %r (dim %d): model %s, check_arg_in_bounds %s" % (name, arg, v, dim, code, impl_code),
                             dict(cls=name, dim=dim, arg=arg, val=C.fhex(v)))
                    val = [v] * (dim - 1) if arg == "anis" else v
                    routes = []
                    routes.append(("constructor(var=)", lambda: make(gs, name, dim=dim, **{arg: val})[0]))
                    if arg == "var":
                        routes.append(("constructor(var_raw=v/var_factor)", lambda: make(gs, name, dim=dim, var_raw=v / float(m0.var_factor()))[0]))
                    else:
                        routes.append(("constructor(var_raw=1.3)", lambda: make(gs, name, dim=dim, var_raw=1.3, **{arg: val})[0]))
                    if arg not in ("len_scale",) and code != 0:
                        routes.append(("constructor(integral_scale=1.7)", lambda: make(gs, name, dim=dim, integral_scale=1.7, **{arg: val})[0]))

                    def by_setter():
                        m = make(gs, name, dim=dim)[0]
                        setattr(m, arg, val)
                        return m
                    routes.append(("setter", by_setter))
                    if arg == "var":
                        def by_var_raw_setter():
                            m = make(gs, name, dim=dim)[0]
                            m.var_raw = v / float(m.var_factor())
                            return m
                        routes.append(("var_raw setter", by_var_raw_setter))
                    for route, build in routes:
                        case = dict(probe="reject", cls=name, cfg=dict(dim=dim), arg=arg, value=C.fhex(v), route=route, bound_code=int(code))
                        ctx.count(("reject", name, dim, arg, route, code != 0), hist=dict(stage="probe-reject", cls=name, route=route, outside=bool(code != 0)))
                        try:
                            with warnings.catch_warnings():
                                warnings.simplefilter("ignore")
                                m = build()
                            raised = None
                        except ValueError as e:
                            raised = e
                        except Exception as e:  # noqa: BLE001
                            if code != 0:
                                # rejected, though not by the documented ValueError (TPL*: hurst < 0 -> 0.0 ** negative in var_factor):
                                # no object comes into being, so the property is not touched; recorded in the evidence
                                ctx.dist.setdefault("reject-by-other-exception", {}).setdefault(type(e).__name__, 0)
                                ctx.dist["reject-by-other-exception"][type(e).__name__] += 1
                                continue
                            report(ctx, stage, "%s dim=%d %s=%r via %s raised %s instead of ValueError / acceptance: %s" % (
                                name, dim, arg, v, route, type(e).__name__, str(e)[:120]), dict(case, exception=type(e).__name__),
                                name, dict(dim=dim), (arg, route), "reject-other-exception")
                            continue
                        if code != 0 and raised is None:
                            present = getattr(m, arg)
                            report(ctx, stage, "%s(dim=%d) with %s = %r (outside %s, bound code %d) via %s is ACCEPTED (object holds %s = %r); %s" % (
                                name, dim, arg, v, [lo, hi], code, route, arg, np.asarray(present).tolist(), witness(m)["min_eig"] if "min_eig" in witness(m) else ""),
                                dict(case, held=repr(np.asarray(present).tolist()), witness=witness(m)), name, dict(dim=dim), (arg, route),
                                "accepted-out-of-bounds:%s" % arg)
                        elif code == 0 and raised is not None and not route.startswith("constructor(integral_scale"):
                            # TPL classes: var depends on len_scale/hurst/len_low through var_factor; only a message about THIS argument counts
                            if str(raised).startswith(arg + " "):
                                report(ctx, stage, "%s(dim=%d) with %s = %r (inside %s) via %s is rejected: %s" % (name, dim, arg, v, [lo, hi], route, raised),
                                       dict(case, error=str(raised)), name, dict(dim=dim), (arg, route), "rejected-in-bounds:%s" % arg)
            # set_arg_bounds to a narrower interval, then assignments just outside / inside it
            for arg in list(optb) + ["len_scale", "nugget"]:
                cur = float(np.asarray(getattr(m0, arg)).ravel()[0])
                nlo, nhi = cur - 0.25 * max(abs(cur), 0.1), cur + 0.25 * max(abs(cur), 0.1)
                if arg in optb:
                    nlo, nhi = max(nlo, float(optb[arg][0])), min(nhi, float(optb[arg][1]))
                else:
                    nlo = max(nlo, 0.0)
                if not nlo < nhi:
                    continue
                for v, outside in ((nlo - 0.01, True), (float(np.nextafter(nlo, -np.inf)), True), (nlo, False), (nhi, False),
                                   (float(np.nextafter(nhi, np.inf)), True), (nhi + 0.01, True)):
                    case = dict(probe="reject", cls=name, cfg=dict(dim=dim), arg=arg, value=C.fhex(v), route="set_arg_bounds([%r, %r]) then setter" % (nlo, nhi))
                    ctx.count(("reject-sab", name, dim, arg, outside), hist=dict(stage="probe-reject", cls=name, route="set_arg_bounds+setter", outside=outside))
                    try:
                        with warnings.catch_warnings():
                            warnings.simplefilter("ignore")
                            m = make(gs, name, dim=dim)[0]
                            m.set_arg_bounds(**{arg: [nlo, nhi]})
                            setattr(m, arg, v)
                        raised = False
                    except ValueError:
                        raised = True
                    if raised != outside:
                        report(ctx, stage, "%s(dim=%d): set_arg_bounds(%s=[%r, %r]) then %s = %r: %s" % (
                            name, dim, arg, nlo, nhi, arg, v, "rejected although inside" if raised else "ACCEPTED although outside the assigned bounds"),
                            case, name, dict(dim=dim), (arg, "sab"), "set_arg_bounds-then-setter:%s" % arg)
            # fit_variogram: the fitted object holds parameters inside its bounds (data of an extreme parameter set)
            for rep in range(2 if thorough else 1):
                try:
                    with warnings.catch_warnings():
                        warnings.simplefilter("ignore")
                        src = make(gs, name, dim=dim, len_scale=float(10.0 ** rng.uniform(-1, 1)), nugget=float(rng.choice([0.0, 0.4])))[0]
                        xs = np.linspace(0.02, 4.0, 30) * float(src.len_rescaled)
                        ys = np.asarray(src.variogram(xs), dtype=float) * (1.0 + 0.05 * rng.normal(size=30))
                        m = make(gs, name, dim=dim)[0]
                        m.fit_variogram(xs, ys)
                except (ValueError, RuntimeError):
                    continue
                ctx.count(("reject-fit", name, dim, rep), hist=dict(stage="probe-reject", cls=name, route="fit_variogram"))
                for arg in ["var", "len_scale", "nugget"] + list(m.opt_arg):
                    c = int(check_arg_in_bounds(m, arg))
                    if c != 0:
                        report(ctx, stage, "%s(dim=%d).fit_variogram left %s = %r outside its bounds %s (code %d)" % (
                            name, dim, arg, getattr(m, arg), list(m.arg_bounds[arg]), c),
                            dict(probe="reject", cls=name, cfg=dict(dim=dim), arg=arg, route="fit_variogram", xs=xs.tolist(), ys=ys.tolist(),
                                 witness=witness(m)), name, dict(dim=dim), (arg, "fit"), "fit-out-of-bounds:%s" % arg)


SIGNED = np.array([-1e3, -37.0, -2.5, -1.0, -0.999, -0.5, -0.1, -1e-3, -1e-8, -1e-12, 0.0])


def fresh_like(gs, m):
    """a new object built from the PRESENT public parameter values of m"""
    kw = dict(var=m.var, len_scale=m.len_scale, nugget=m.nugget, rescale=m.rescale, temporal=m.temporal, latlon=m.latlon,
              geo_scale=m.geo_scale)
    if m.latlon:
        if m.temporal:
            kw["anis"] = float(m.anis[-1])
    else:
        kw["dim"] = m.dim
        if m.dim > 1:
            kw["anis"] = [float(a) for a in m.anis]
            kw["angles"] = [float(a) for a in m.angles]
    kw.update({k: float(getattr(m, k)) for k in m.opt_arg})
    return make(gs, m.name, **kw)[0]


def evaluations(m, r):
    """every public evaluation function at the lags r (1-D array, any sign) -> dict name -> array"""
    out = dict(correlation=m.correlation(r), covariance=m.covariance(r), variogram=m.variogram(r),
               cov_nugget=m.cov_nugget(r), vario_nugget=m.vario_nugget(r))
    for ax in range(m.dim if not m.latlon else 1):
        out["cor_axis%d" % ax] = m.cor_axis(r, axis=ax)
        out["cov_axis%d" % ax] = m.cov_axis(r, axis=ax)
        out["vario_axis%d" % ax] = m.vario_axis(r, axis=ax)
    if m.latlon:
        out["cor_yadrenko"] = m.cor_yadrenko(r)
        out["cov_yadrenko"] = m.cov_yadrenko(r)
        out["vario_yadrenko"] = m.vario_yadrenko(r)
    else:
        for ax in range(m.dim):
            pos = np.zeros((m.dim, len(r)))
            pos[ax] = r
            out["cor_spatial%d" % ax] = m.cor_spatial(tuple(pos))
            out["cov_spatial%d" % ax] = m.cov_spatial(tuple(pos))
            out["vario_spatial%d" % ax] = m.vario_spatial(tuple(pos))
    return {k: np.asarray(v, dtype=float) for k, v in out.items()}


def probe_even(ctx, gs, rng, thorough, drv, fail):
    """evenness in the lag (part of 'valid covariance'; the model side is a function of |r|): every public evaluation function
    at -r equals its value at r, signed 1-D transect differences give a symmetric matrix without negative eigenvalue;
    for the nine elementary classes the extracted correlation/covariance/variogram wrapper is run at the signed lags too"""
    stage = "probe: evenness in the lag of every public evaluation function"
    for name in NAMES:
        ci = NAMES.index(name)
        for cfg in [dict(dim=1), dict(dim=3), dict(latlon=True)] + ([dict(dim=2), dict(spatial_dim=2, temporal=True)] if thorough else []):
            m0, warned, _ = make(gs, name, **cfg)
            if warned:
                continue
            for sig, p in param_sets(m0, rng, name, 6 if thorough else 3, special=thorough):
                L = float(rng.choice([0.5, 1.0, 4.0]))
                kw = dict(len_scale=L, var=float(rng.choice([1.0, 2.5])), nugget=float(rng.choice([0.0, 0.3])))
                if m0.dim > 1 and not m0.latlon:
                    kw["anis"] = [float(x) for x in 10.0 ** rng.uniform(-0.5, 0.5, size=m0.dim - 1)]
                case = dict(probe="even", cls=name, cfg=cfg, params=p, model=kw)

                def one():
                    m, _, _ = make(gs, name, **cfg, **kw, **p)
                    r = SIGNED * float(m.len_rescaled)
                    if m.latlon:
                        r = r[np.abs(r) <= np.pi * m.geo_scale]
                    neg, pos = evaluations(m, r), evaluations(m, -r)
                    ctx.count(("even", name, cfg_tag(cfg) if "latlon" not in cfg else "latlon", sig), hist=dict(stage="probe-even", cls=name))
                    for fn in neg:
                        a, b = neg[fn], pos[fn]
                        bad = ~((a == b) | (np.isnan(a) & np.isnan(b)) | (np.abs(a - b) <= 1e-13 * (np.abs(b) + m.var)))
                        if bad.any():
                            i = int(np.argmax(bad))
                            report(ctx, stage, "%s(%s, %s, %s).%s(%r) = %r but at %r it is %r" % (
                                name, cfg, p, kw, fn, float(r[i]), float(a[i]), float(-r[i]), float(b[i])),
                                dict(case, function=fn, r=C.fhex(r[i]), value=repr(float(a[i])), value_at_abs=repr(float(b[i]))),
                                name, cfg if "latlon" not in cfg else dict(dim=3), sig, "not-even:" + fn)
                            break
                    # signed transect differences: symmetric matrix, no negative eigenvalue
                    x = np.sort(rng.uniform(-2, 2, 24)) * float(m.len_rescaled)
                    if m.latlon:
                        x = x / (2 * float(m.len_rescaled)) * min(float(m.len_rescaled), m.geo_scale)
                    Cm = np.asarray(m.covariance(x[:, None] - x[None, :]), dtype=float)
                    asym = float(np.max(np.abs(Cm - Cm.T))) if np.all(np.isfinite(Cm)) else float("nan")
                    ev = min_eig(Cm)
                    if not (asym <= 1e-13 * m.var) or not (ev >= -EIG_TOL * len(x) * m.var):
                        report(ctx, stage, "%s(%s, %s, %s): covariance of the signed differences of a 1-D transect: asymmetry %r, min eigenvalue %r" % (
                            name, cfg, p, kw, asym, ev), dict(case, transect=[C.fhex(v) for v in x], asymmetry=repr(asym), min_eig=repr(ev)),
                            name, cfg if "latlon" not in cfg else dict(dim=3), sig, "signed-transect")
                    # extracted wrapper (correlation_from_cor / covariance / variogram) at the signed lags
                    if drv is not None and name in ELEMENTARY:
                        par = float(p.get("alpha", p.get("nu", 0.0)))
                        for rr in r:
                            mod = drv.call("elem", ("n", ci), par, float(m.len_rescaled), float(m.var), float(m.nugget), float(rr))
                            impl = [float(np.asarray(f(np.array([rr])))[0]) for f in (m.correlation, m.covariance, m.variogram)]
                            if not C.close(np.array(impl), np.asarray(mod), rtol=1e-9, scale=max(1.0, m.var)):
                                fail("correlation/covariance/variogram wrapper of %s %s at signed lag r=%r: model %s impl %s" % (
                                    name, p, float(rr), np.asarray(mod).tolist(), impl), dict(cls=name, params=p, r=C.fhex(rr)))
                                break
                guarded(ctx, stage, name, cfg if "latlon" not in cfg else dict(dim=3), sig, case, one)


KEY_STALE_BOUNDS = "dim-setter:stale-dim-dependent-default-bounds"


def stale_bounds(ctx, gs, m, name, cfg, ops, rng):
    """after a dim assignment: do the present optional arguments still satisfy the class's bounds FOR THE PRESENT DIMENSION?
    (set_dim does not refresh default_opt_arg_bounds(): known finding, shared with C14).  Reports the object with the minimum
    eigenvalue of a covariance matrix as evidence and tells the caller to drop the object."""
    for k, bd in m.default_opt_arg_bounds().items():
        v = float(getattr(m, k))
        t = bd[2] if len(bd) > 2 else "cc"
        inside = (v >= bd[0] if t[0] == "c" else v > bd[0]) and (v <= bd[1] if t[1] == "c" else v < bd[1])
        if not inside:
            X = point_set(rng, "uniform", m.dim, 60, float(m.len_rescaled))
            ev = min_eig(cov_matrix_spatial(m, X))
            ctx.violation("probe: histories (dim setter)",
                          "%s(%s) after %s: dim = %d, %s = %r lies outside the class's bounds %s for this dimension, yet no error / warning "
                          "(installed bounds still %s); min eigenvalue on 60 uniform points: %r" % (
                              name, cfg, ops, m.dim, k, v, list(bd), list(m.opt_arg_bounds[k]), ev),
                          dict(probe="history", cls=name, cfg=cfg, ops=ops, arg=k, value=v, class_bounds=list(bd), min_eig=repr(ev),
                               points=[[C.fhex(x) for x in row] for row in X]), key=KEY_STALE_BOUNDS)
            return True
    return False


def probe_history(ctx, gs, rng, thorough):
    """operation sequences on ONE model object (evaluate, change a parameter in place by its setter / set_arg_bounds /
    fit_variogram / dim setter, evaluate again ...): after every step all public evaluation functions (and analytic
    spectral densities) must equal those of a FRESH object built from the present parameter values -- the theorems
    speak about functions of the present parameters only; a cached intermediate is a hidden extra parameter"""
    stage = "probe: results are a function of the present parameters (histories vs fresh object)"
    nseq = 6 if thorough else 3
    for name in NAMES:
        for cfg in [dict(dim=1), dict(dim=2), dict(dim=3)] + ([dict(latlon=True), dict(spatial_dim=2, temporal=True)] if thorough else []):
            m0, warned, _ = make(gs, name, **cfg)
            if warned:
                continue
            for seq in range(nseq):
                log_ops = []
                case = dict(probe="history", cls=name, cfg=cfg, ops=log_ops)

                def compare(m, where):
                    f = fresh_like(gs, m)
                    r = np.array([0.0, 1e-6, 0.05, 0.3, 0.7, 0.999, 1.0, 1.3, 2.5, 10.0]) * float(m.len_rescaled)
                    if m.latlon:
                        r = r[r <= np.pi * m.geo_scale]
                    a, b = evaluations(m, r), evaluations(f, r)
                    if name in ANALYTIC:
                        k = np.array([0.0, 0.1, 0.7, 1.5, 4.0]) / float(m.len_rescaled)
                        a["spectral_density"] = np.asarray(m.spectral_density(k), dtype=float)
                        b["spectral_density"] = np.asarray(f.spectral_density(k), dtype=float)
                    ctx.count(("history", name, cfg_tag(cfg) if "latlon" not in cfg else "latlon", seq, len(log_ops)),
                              hist=dict(stage="probe-history", cls=name, steps=len(log_ops)))
                    for fn in a:
                        if not C.close(a[fn], b[fn], rtol=1e-12, scale=np.abs(b[fn]) + 1e-3 * max(1.0, f.var)):
                            i = int(np.argmax(np.abs(a[fn] - b[fn])))
                            ev = None if m.latlon else min(min_eig(cov_matrix_spatial(m, point_set(rng, kind, m.dim, 40, float(m.len_rescaled))))
                                                           for kind in ("lattice", "uniform", "cluster", "lattice"))
                            report(ctx, stage, "%s(%s) after %s: %s differs from a fresh %s with the present parameters %s at entry %d: %r vs %r%s" % (
                                name, cfg, log_ops, fn, name, {k: getattr(m, k) for k in m.opt_arg}, i, float(a[fn][i]), float(b[fn][i]),
                                "" if ev is None else "; most negative eigenvalue over four ~40-point covariance matrices (lattice, uniform, cluster) of the used object: %r" % ev),
                                dict(case, ops=list(log_ops), function=fn, value=repr(float(a[fn][i])), fresh=repr(float(b[fn][i])), min_eig=repr(ev)),
                                name, cfg if "latlon" not in cfg else dict(dim=3), ("history",), "stale:" + fn)
                            return False
                    return True

                def one():
                    m, _, _ = make(gs, name, **cfg)
                    compare(m, "new")                                   # first evaluation (fills any cache)
                    for step in range(int(rng.integers(3, 7))):
                        b = m.opt_arg_bounds
                        ops = ["len_scale", "var", "nugget", "rescale"] + list(m.opt_arg) * 3 + (["anis", "angles"] if m.dim > 1 and not m.latlon else [])
                        ops += ["set_arg_bounds", "fit"] if m.opt_arg else ["fit"]
                        if not m.latlon and not m.temporal:
                            ops += ["dim"]
                        op = str(rng.choice(ops))
                        try:
                            if op in m.opt_arg:
                                bd = b[op]
                                lo, hi = float(bd[0]), float(bd[1]) if np.isfinite(bd[1]) else float(bd[0]) + 3.0
                                v = float(rng.choice([lo + (hi - lo) * rng.uniform(0.02, 0.98), lo + (hi - lo) * 10.0 ** rng.uniform(-2, -0.3)]))
                                log_ops.append("%s = %r" % (op, v))
                                setattr(m, op, v)
                            elif op in ("len_scale", "var", "rescale"):
                                v = float(10.0 ** rng.uniform(-0.7, 0.9))
                                log_ops.append("%s = %r" % (op, v))
                                setattr(m, op, v)
                            elif op == "nugget":
                                v = float(rng.choice([0.0, 0.2, 1.5]))
                                log_ops.append("nugget = %r" % v)
                                m.nugget = v
                            elif op == "anis":
                                v = [float(x) for x in 10.0 ** rng.uniform(-0.6, 0.6, size=m.dim - 1)]
                                log_ops.append("anis = %r" % v)
                                m.anis = v
                            elif op == "angles":
                                v = [float(x) for x in rng.uniform(-3, 3, size=len(m.angles))]
                                log_ops.append("angles = %r" % v)
                                m.angles = v
                            elif op == "dim":
                                d = int(rng.choice([1, 2, 3]))
                                log_ops.append("dim = %d" % d)
                                with warnings.catch_warnings():
                                    warnings.simplefilter("ignore")
                                    m.dim = d
                                if not m.check_dim(m.dim):
                                    return
                                if stale_bounds(ctx, gs, m, name, cfg, list(log_ops), rng):
                                    return
                            elif op == "set_arg_bounds":
                                k = str(rng.choice(m.opt_arg))
                                bd = b[k]
                                lo, hi = float(bd[0]), float(bd[1]) if np.isfinite(bd[1]) else float(bd[0]) + 3.0
                                cur = float(getattr(m, k))
                                nb = [lo + 0.55 * (hi - lo), hi] if cur < lo + 0.5 * (hi - lo) else [lo, lo + 0.45 * (hi - lo)]
                                nb = nb + [bd[2]] if len(bd) > 2 else nb
                                log_ops.append("set_arg_bounds(%s=%r)" % (k, nb))
                                m.set_arg_bounds(**{k: nb})                 # present value outside: reset to a default inside
                                compare(m, op)
                                log_ops.append("set_arg_bounds(%s=%r)" % (k, list(bd)))
                                m.set_arg_bounds(**{k: bd})
                            else:
                                src = fresh_like(gs, m)
                                for k in m.opt_arg:                          # data from other optional arguments
                                    bd = b[k]
                                    lo, hi = float(bd[0]), float(bd[1]) if np.isfinite(bd[1]) else float(bd[0]) + 3.0
                                    try:
                                        setattr(src, k, lo + (hi - lo) * float(rng.uniform(0.2, 0.8)))
                                    except ValueError:
                                        pass
                                xs = np.linspace(0.05, 3.0, 25) * float(src.len_rescaled)
                                ys = np.asarray(src.variogram(xs), dtype=float)
                                log_ops.append("fit_variogram(25 lags of %r)" % ({k: getattr(src, k) for k in src.opt_arg},))
                                with warnings.catch_warnings():
                                    warnings.simplefilter("ignore")
                                    m.fit_variogram(xs, ys, nugget=False)
                        except (ValueError, RuntimeError) as e:          # rejected change / failed fit: the object is dropped
                            log_ops.append("-> %s" % type(e).__name__)
                            return
                        if any(o.startswith("dim = ") for o in log_ops) and stale_bounds(ctx, gs, m, name, cfg, list(log_ops), rng):
                            return                                  # a later setter accepted a value the stale bounds allow
                        if not compare(m, op):
                            return
                guarded(ctx, stage, name, cfg if "latlon" not in cfg else dict(dim=3), ("history",), case, one)


def probe_cor(ctx, gs, rng, thorough):
    """correlation is 1 at lag 0, finite, and never above 1 in magnitude (1e-12 for rounding) on a lag grid that
    includes lags from 1e-16 len_scale on"""
    stage = "probe: correlation 1 at 0 and bounded by 1"
    for name, cfg, d, sig, p in configs(gs, rng, thorough, 24 if thorough else 10):
        for L in (1.0, float(10.0 ** rng.uniform(-2, 3))):
            case = dict(probe="cor", cls=name, cfg=cfg, params=p, len_scale=L)

            def one():
                m, _, _ = make(gs, name, len_scale=L, var=float(rng.choice([1.0, 3.7])), **cfg, **p)
                r = LAGS * L
                c = np.asarray(m.correlation(r), dtype=float)
                ctx.count(("cor", name, cfg_tag(cfg), sig), hist=dict(stage="probe-cor", cls=name, dim=cfg_tag(cfg)))
                bad = None
                if not np.all(np.isfinite(c)):
                    bad = ("non-finite correlation", int(np.argmin(np.isfinite(c))))
                elif abs(c[0] - 1.0) > 1e-12:
                    bad = ("correlation at lag 0 is not 1", 0)
                elif np.max(np.abs(c)) > 1.0 + 1e-12:
                    bad = ("|correlation| exceeds 1", int(np.argmax(np.abs(c))))
                if bad:
                    report(ctx, stage, "%s: %s(%s, %s, len_scale=%r) at r=%r gives %r" % (
                        bad[0], name, cfg, p, L, float(r[bad[1]]), float(c[bad[1]])),
                        dict(case, r=C.fhex(r[bad[1]]), value=repr(float(c[bad[1]]))), name, cfg, sig, bad[0].split()[0])
            guarded(ctx, stage, name, cfg, sig, case, one)


def finding_key(name, cfg, sig, what):
    return "%s:%s:%s:%s" % (name, cfg_tag(cfg), ",".join(sig), what)


def report(ctx, stage, what, case, name, cfg, sig, kind):
    # Integral: exp_int's inc_gamma recursion overflows for large non-integer orders at tiny arguments (known, shared with C03)
    key = finding_key(name, cfg, sig, kind)
    per = ctx.__dict__.setdefault("per_class", {})
    per[name] = per.get(name, 0) + 1
    if per[name] > 6:                      # enough failing inputs of this class written out for one run; keep counting quietly
        ctx.more_violations = getattr(ctx, "more_violations", 0) + 1
        return
    nu = case.get("params", {}).get("nu", 0)
    nonfinite = any(w in str(case.get("value", "")) + str(case.get("min_eig", "")) for w in ("nan", "inf"))
    if name == "Integral" and nu > 30 and abs(nu / 2 - round(nu / 2)) > 1e-5 * (1 + nu / 2) and nonfinite:
        key = "Integral:cor-nan:nu-large-noninteger:tiny-lag"
    ctx.violation(stage, what, case, key=key)


def guarded(ctx, stage, name, cfg, sig, case, fn):
    """run one probe case; an unexpected exception of the implementation is a violation with the input"""
    try:
        fn()
    except (Exception, RecursionError) as e:  # noqa: B014
        report(ctx, stage, "%s(%s, %s) raised %s: %s" % (name, cfg, case.get("params"), type(e).__name__, str(e)[:200]),
               dict(case, exception=type(e).__name__), name, cfg, sig, "exception:" + type(e).__name__)


def corpus(ctx, gs):
    """past failures of this property (run first).  All but the last were repaired in /repo (fix: commits)"""
    def chk(ok, key, what, case):
        ctx.count(("corpus", key), hist=dict(stage="corpus"))
        if not ok:
            ctx.violation("corpus: " + key, what, case, key=key)
    # 1. JBessel, large nu, lags 1e-8..3e-5 len_scale: jv and (h/2)**nu underflowed -> correlation 0 / NaN
    m, _, _ = make(gs, "JBessel", dim=1, nu=50.0, len_scale=5.0)
    r = np.array([0.0, 5e-7, 5e-6, 5e-5, 1.4e-4, 5e-4, 5e-3])
    c = np.asarray(m.correlation(r), dtype=float)
    chk(bool(np.all(np.isfinite(c)) and np.all(np.abs(c - 1.0) < 1e-6)), "corpus:JBessel:nu=50:tiny-lag",
        "JBessel(dim=1, nu=50, len_scale=5).correlation(%s) = %s, expected 1 - O(1e-9)" % (r.tolist(), c.tolist()), dict(r=r.tolist(), c=c.tolist()))
    X = np.array([[0.0], [1e-4], [0.5]])
    ev = min_eig(cov_matrix_spatial(m, X))
    chk(ev >= -EIG_TOL * 3, "corpus:JBessel:nu=50:3-points", "points 0, 1e-4, 0.5: min eigenvalue %r" % ev, dict(points=X.tolist(), min_eig=ev))
    # 2. TPL models: zero-snap of lags below 1e-8 (correlation jumped, exceeded 1 for len_low > 0)
    m, _, _ = make(gs, "TPLStable", dim=1, hurst=0.1009, alpha=0.05, len_low=0.6)
    c = float(np.asarray(m.correlation(np.array([1e-8])))[0])
    chk(np.isfinite(c) and c <= 1.0 + 1e-12, "corpus:TPLStable:len_low>0:lag=1e-8", "correlation(1e-8) = %r > 1" % c, dict(value=c))
    m, _, _ = make(gs, "TPLGaussian", dim=2, hurst=0.1009)
    X = np.array([[0.0, 0.0], [0.9e-8, 0.0], [1.8e-8, 0.0]])
    ev = min_eig(cov_matrix_spatial(m, X))
    chk(ev >= -EIG_TOL * 3, "corpus:TPLGaussian:chain-1e-8", "three points 0.9e-8 apart: min eigenvalue %r" % ev, dict(points=X.tolist(), min_eig=ev))
    # 3. Cubic accepted dimension 4 without warning although its 4-D radial spectrum is negative around k = 12 / len_scale
    m, warned, _ = make(gs, "Cubic", spatial_dim=3, temporal=True)
    if not warned:
        v, err = radial_spectrum_quad(lambda r: m.correlation(r), 4, 12.0, rng_hi=1.0)
        s0q, _ = radial_spectrum_quad(lambda r: m.correlation(r), 4, 1e-3, rng_hi=1.0)
        wit = lattice_witness(m, 4, 12.0, 1.0) if v < 0 else None
        chk(v >= -1e-7 * s0q, "corpus:Cubic:3+time:spectrum",
            "Cubic(spatial_dim=3, temporal=True) gives no dimension warning and its 4-D radial spectrum at k = 12 is %.3e S(0); "
            "explicit point set: %s" % (v / s0q, wit), dict(relative_value=v / s0q, witness=wit))
    else:
        ctx.count(("corpus", "Cubic:3+time:warns"), hist=dict(stage="corpus"))
    # 5. OPEN (shared with C14): the dim setter keeps the dimension-dependent default bounds of the construction dimension
    m, _, _ = make(gs, "TPLSimple", dim=1)
    with warnings.catch_warnings():
        warnings.simplefilter("ignore")
        m.dim = 3
    g = np.stack(np.meshgrid(*[np.arange(4) * 0.3] * 3, indexing="ij"), 0).reshape(3, -1).T
    ev = min_eig(cov_matrix_spatial(m, g))
    lo = float(m.default_opt_arg_bounds()["nu"][0])
    chk(float(m.nu) >= lo or ev >= -EIG_TOL * len(g), KEY_STALE_BOUNDS,
        "TPLSimple(dim=1); m.dim = 3 keeps nu = %r (class bound for dim 3: nu >= %r) without error: 4x4x4 lattice (spacing 0.3) min eigenvalue %r" % (
            float(m.nu), lo, ev), dict(cls="TPLSimple", ops=["dim = 3"], nu=float(m.nu), min_eig=ev))
    # 4. OPEN: exp_int's inc_gamma recursion is as deep as 2 hurst / alpha (RecursionError near 1000)
    try:
        m, _, _ = make(gs, "TPLStable", dim=1, alpha=0.002, hurst=0.9991)
        c = float(np.asarray(m.correlation(np.array([0.5])))[0])
        chk(np.isfinite(c) and abs(c) <= 1, "TPLStable:2*hurst/alpha>~990:RecursionError", "correlation(0.5) = %r" % c, dict(value=c))
    except RecursionError as e:
        chk(False, "TPLStable:2*hurst/alpha>~990:RecursionError",
            "TPLStable(dim=1, alpha=0.002, hurst=0.9991).correlation(0.5) raises RecursionError (inc_gamma recursion depth = 2 hurst / alpha)",
            dict(cls="TPLStable", params=dict(alpha=0.002, hurst=0.9991), r=0.5, exception="RecursionError"))


def probe_spectrum(ctx, gs, rng, thorough):
    """sign of the radial spectrum in the dimension of the model.  compact models: own quadrature of the d-dimensional
    radial transform of m.correlation (error ~1e-12 S(0), threshold -1e-7 S(0)); every class: m.spectral_density on a
    log grid (analytic formulas must be >= 0 exactly on k in [0, 1e3/len]; the default Hankel transform is only used for
    1e-2 <= k len <= 30, where its own noise is ~1e-6..1e-5 of the peak (measured; it grows to 1e-3 beyond k = 100/len),
    threshold -1e-3 max S, and not for parameter sets the class itself warns about as unstable)"""
    kgrid = np.concatenate([[0.0], 10.0 ** np.linspace(-3, 3, 49 if thorough else 25)])
    kq = np.linspace(0.5, 60.0, 80 if thorough else 40)
    for name, cfg, d, sig, p in configs(gs, rng, thorough, 12 if thorough else 5, ulp=thorough):
        L = float(rng.choice([0.4, 1.0, 6.0]))
        case = dict(probe="spectrum", cls=name, cfg=cfg, params=p, len_scale=L)

        def one():
            m, _, unstable = make(gs, name, len_scale=L, **cfg, **p)
            ell = float(m.len_rescaled)
            if name in ANALYTIC or not unstable:
                kg = kgrid if name in ANALYTIC else kgrid[(kgrid >= 1e-2) & (kgrid <= 30.0)]
                if name not in ANALYTIC:
                    # the Hankel noise depends on k times the LARGEST scale of the correlation (TPL: len_low + len_scale)
                    kg = kg * ell / float(getattr(m, "len_up_rescaled", ell))
                s = np.asarray(m.spectral_density(kg / ell), dtype=float)
                ctx.count(("spectrum", name, cfg_tag(cfg), sig), hist=dict(stage="probe-spectrum", cls=name, dim=cfg_tag(cfg)))
                s0 = np.nanmax(np.abs(s))          # S(0) itself may be infinite (Rational alpha = 1/2: long range)
                tol = 0.0 if name in ANALYTIC else 1e-3 * s0
                if name in ("TPLGaussian", "TPLExponential") and p.get("len_low", 0.0) != 0.0:
                    tol = 1e-9 * s0                    # difference of two spectra: cancellation
                if not np.all(np.isfinite(s)) or np.min(s) < -tol:
                    i = int(np.argmin(np.where(np.isfinite(s), s, -np.inf)))
                    report(ctx, "probe: sign of spectral_density", "%s(%s, %s, len_scale=%r).spectral_density(%r) = %r (max |S| = %r)" % (
                        name, cfg, p, L, float(kg[i] / ell), float(s[i]), float(s0)),
                        dict(case, k=C.fhex(kg[i] / ell), value=repr(float(s[i]))), name, cfg, sig, "spectral_density<0")
            if name in COMPACT:
                cor = lambda r: m.correlation(r)
                s0q, _ = radial_spectrum_quad(cor, d, 1e-3 / ell, rng_hi=ell)
                worst = None
                for k in kq:
                    v, err = radial_spectrum_quad(cor, d, k / ell, rng_hi=ell)
                    if v < -1e-7 * s0q - 10 * err and (worst is None or v < worst[1]):
                        worst = (k, v)
                ctx.count(("spectrum-quad", name, cfg_tag(cfg), sig), hist=dict(stage="probe-spectrum-quad", cls=name, dim=cfg_tag(cfg)))
                if worst:
                    # refine the most negative wave number, then build the explicit weighted point set there
                    from scipy import optimize
                    res = optimize.minimize_scalar(lambda k: radial_spectrum_quad(cor, d, k / ell, rng_hi=ell)[0],
                                                   bounds=(max(0.1, worst[0] - 0.8), worst[0] + 0.8), method="bounded")
                    if res.fun < worst[1]:
                        worst = (float(res.x), float(res.fun))
                    wit = lattice_witness(m, d, worst[0] / ell, ell) if d >= 2 else None
                    report(ctx, "probe: sign of the d-dimensional radial spectrum (Bessel quadrature of correlation)",
                           "%s(%s, %s): radial Fourier transform in %d-D at k = %r / len_scale is %.3e * S(0) < 0%s" % (
                               name, cfg, p, d, float(worst[0]), worst[1] / s0q,
                               "; explicit point set: Rayleigh quotient %.3e" % wit["rayleigh_quotient"] if wit else ""),
                           dict(case, probe="spectrum-quad", k_times_ell=float(worst[0]), relative_value=worst[1] / s0q, witness=wit),
                           name, cfg, sig, "radial-spectrum<0")
        guarded(ctx, "probe: sign of the spectrum", name, cfg, sig, case, one)


def probe_eig(ctx, gs, rng, thorough):
    """minimum eigenvalue of covariance matrices built by the implementation (cov_spatial: rotation + anisotropy)"""
    n = 60 if thorough else 40
    stage = "probe: minimum eigenvalue of the covariance matrix"
    for name, cfg, d, sig, p in configs(gs, rng, thorough, 12 if thorough else 5, ulp=thorough):
        for rep in range(3 if thorough else 2):
            L = float(rng.choice([0.3, 1.0, 5.0, 40.0]))
            kw = dict(len_scale=L, var=float(rng.choice([1.0, 2.5])))
            trans = "iso"
            if d > 1 and rep > 0:
                kw["anis"] = [float(x) for x in 10.0 ** rng.uniform(-1, 0.7, size=d - 1)]
                kw["angles"] = [float(x) for x in rng.uniform(-np.pi, np.pi, size=max(1, d * (d - 1) // 2))]
                trans = "anis+rot"
            case = dict(probe="eig", cls=name, cfg=cfg, params=p, model=kw)

            def one():
                m, _, _ = make(gs, name, **cfg, **kw, **p)
                for kind in ("lattice", "cluster", "uniform"):
                    X = point_set(rng, kind, d, n, float(m.len_rescaled))
                    ev = min_eig(cov_matrix_spatial(m, X))
                    ctx.count(("eig", name, cfg_tag(cfg), sig, kind, trans), hist=dict(stage="probe-eig", cls=name, dim=cfg_tag(cfg), points=kind))
                    ctx.sample(dict(probe="eig", cls=name, cfg=cfg, params=p, model=kw, points=kind, n=len(X), min_eig=ev))
                    if not (ev >= -EIG_TOL * len(X) * m.var):
                        report(ctx, stage, "%s(%s, %s, %s): %d %s points, min eigenvalue %r (tolerance %.1e)" % (
                            name, cfg, p, kw, len(X), kind, ev, -EIG_TOL * len(X) * m.var),
                            dict(case, points=[[C.fhex(v) for v in row] for row in X], min_eig=repr(ev)),
                            name, cfg, sig, "min-eig<0:" + kind)
            guarded(ctx, stage, name, cfg, sig, case, one)


# documented unit constants (docs: "earth radius for WGS84 ellipsoid in km", "radius for unit sphere in degree",
# "radius for unit sphere"): geo_scale is the sphere RADIUS expressed in the unit in which great-circle lags are given
UNITS = {"RADIAN_SCALE": 1.0, "KM_SCALE": 6371.0, "DEGREE_SCALE": 180.0 / np.pi, "EARTH_RADIUS": 6371.0}


def probe_constants(ctx, gs, rng, thorough):
    """the documented public constants the lat-lon construction depends on have their documented values (gstools.X and
    gstools.tools.X), the default geo_scale is RADIAN_SCALE, and each NAMED constant used as geo_scale means what the docs
    say: a great-circle lag given in that unit (radians / km / degrees of the central angle) is mapped by the *_yadrenko
    functions to the chord of the embedded points -- on failure the covariance matrix of sphere points built from
    cov_yadrenko of the lags in that unit is the witness"""
    stage = "probe: documented unit constants (geo_scale) mean what the documentation says"
    import gstools.tools as gt
    for cname, doc in UNITS.items():
        for mod, modname in ((gs, "gstools"), (gt, "gstools.tools")):
            val = getattr(mod, cname, None)
            ctx.count(("constant", cname, modname), hist=dict(stage="probe-constants"))
            if val is None or not (float(val) == doc or abs(float(val) - doc) <= 4e-16 * doc):
                ctx.violation(stage, "%s.%s = %r, documented value %r" % (modname, cname, val, doc),
                              dict(probe="constants", constant=cname, module=modname, value=repr(val), documented=repr(doc)),
                              key="constant:%s" % cname)
    m, _, _ = make(gs, "Gaussian", latlon=True)
    if float(m.geo_scale) != 1.0:
        ctx.violation(stage, "default geo_scale of a lat-lon model is %r, documented RADIAN_SCALE = 1.0" % m.geo_scale,
                      dict(probe="constants", constant="default geo_scale", value=repr(m.geo_scale)), key="constant:default-geo_scale")
    n = 40
    lat = np.concatenate([rng.uniform(-90, 90, n - 4), [90.0, -90.0, 0.0, 0.0]])
    lon = np.concatenate([rng.uniform(-180, 180, n - 4), [10.0, 77.0, 180.0, -180.0]])
    theta = haversine_angle((lat[:, None], lon[:, None]), (lat[None, :], lon[None, :]))       # central angles (rad)
    chord1 = 2.0 * np.sin(theta / 2.0)                                                     # chord on the unit sphere
    for cname in ("RADIAN_SCALE", "KM_SCALE", "DEGREE_SCALE"):
        unit = UNITS[cname]                      # independent of the package: lag in this unit = central angle * unit
        for name in (NAMES if thorough else ["Gaussian", "Exponential", "Matern", "Spherical", "JBessel", "TPLStable"]):
            m0, warned, _ = make(gs, name, latlon=True)
            if warned:
                continue
            for frac in (0.3, 1.0):
                # len_scale given in the same unit: `frac` radians of arc
                m, _, _ = make(gs, name, latlon=True, geo_scale=getattr(gs, cname), len_scale=frac * unit)
                ref, _, _ = make(gs, name, latlon=True, len_scale=frac)            # the same model on the unit sphere, radians
                ctx.count(("constant-unit", cname, name, frac), hist=dict(stage="probe-constants", cls=name, unit=cname))
                cy = np.asarray(m.cov_yadrenko(theta * unit), dtype=float)
                cref = np.asarray(ref.covariance(chord1), dtype=float)
                case = dict(probe="constants", cls=name, geo_scale="gs." + cname, len_scale=frac * unit,
                            lat=[C.fhex(v) for v in lat], lon=[C.fhex(v) for v in lon])
                dev = float(np.max(np.abs(cy - cref))) if np.all(np.isfinite(cy)) else float("nan")
                ev = min_eig(cy)
                # 25 degrees apart, as in the documentation's unit: one number for the report
                z25 = np.deg2rad(25.0) * unit
                c25 = float(np.asarray(m.cor_yadrenko(np.array([z25])))[0])
                r25 = float(np.asarray(ref.correlation(np.array([2 * np.sin(np.deg2rad(12.5))])))[0])
                if not (dev <= 1e-9 * m.var) or not (ev >= -EIG_TOL * n * m.var):
                    report(ctx, stage, "%s(latlon=True, geo_scale=gs.%s = %r, len_scale=%r): cov_yadrenko of great-circle lags given in that unit "
                           "deviates by %r from the covariance of the chord (cor_yadrenko(25 deg = %r) = %r, expected %r); min eigenvalue of the "
                           "%d-point sphere matrix %r" % (name, cname, getattr(gs, cname), frac * unit, dev, z25, c25, r25, n, ev),
                           dict(case, deviation=repr(dev), min_eig=repr(ev), cor_25deg=repr(c25), expected_25deg=repr(r25)),
                           name, dict(dim=3), (cname,), "unit-constant:" + cname)
                # the other route (kriging / SRF): isometrize with this radius, Euclidean distance
                iso = m.isometrize(np.array([lat, lon]))
                D = np.sqrt(((iso[:, :, None] - iso[:, None, :]) ** 2).sum(axis=0))
                ci = np.asarray(m.covariance(D), dtype=float)
                if not (np.max(np.abs(ci - cref)) <= 1e-9 * m.var):
                    report(ctx, stage, "%s(latlon=True, geo_scale=gs.%s, len_scale=%r): covariance of the isometrized points deviates by %r from the "
                           "unit-sphere model" % (name, cname, frac * unit, float(np.max(np.abs(ci - cref)))), case,
                           name, dict(dim=3), (cname,), "unit-constant-isometrize:" + cname)


def haversine_angle(P, Q):
    la1, lo1, la2, lo2 = np.deg2rad(P[0]), np.deg2rad(P[1]), np.deg2rad(Q[0]), np.deg2rad(Q[1])
    a = np.sin((la2 - la1) / 2) ** 2 + np.cos(la1) * np.cos(la2) * np.sin((lo2 - lo1) / 2) ** 2
    return 2 * np.arctan2(np.sqrt(a), np.sqrt(np.maximum(1 - a, 0.0)))


def probe_sphere(ctx, gs, rng, thorough):
    """lat-lon models: the Yadrenko lag is the 3-D chord (metamorphic), and the covariance matrix on sphere points
    (poles, date line, duplicates) has no negative eigenvalue; with a time axis (dim 4) as well"""
    n = 50 if thorough else 32
    for name in NAMES:
        for temporal in (False, True):
            m0, warned, _ = make(gs, name, latlon=True, temporal=temporal)
            if warned:
                continue
            for sig, p in param_sets(m0, rng, name, 8 if thorough else 3):
                for rep in range(2 if thorough else 1):
                    cname = str(rng.choice(["RADIAN_SCALE", "KM_SCALE", "DEGREE_SCALE"]))
                    gsc = float(getattr(gs, cname))                 # geo_scale through the NAMED constant
                    unit = UNITS[cname]                             # lags / length scales in that unit (independent of the package)
                    L = float(rng.choice([0.1, 0.7, 3.0])) * unit
                    kw = dict(len_scale=L, geo_scale=gsc)
                    kwn = "geo_scale=gs.%s" % cname
                    if temporal:
                        kw["anis"] = float(10.0 ** rng.uniform(-1, 1))
                    m, _, _ = make(gs, name, latlon=True, temporal=temporal, **kw, **p)
                    lat = np.concatenate([rng.uniform(-90, 90, n - 6), [90.0, -90.0, 0.0, 0.0, 45.0, 45.0]])
                    lon = np.concatenate([rng.uniform(-180, 180, n - 6), [10.0, 77.0, 180.0, -180.0, 359.0, -1.0]])
                    pos = [lat, lon]
                    if temporal:
                        pos.append(rng.uniform(0, 5, n) * L / unit)
                    pos = np.array(pos)
                    iso = m.isometrize(pos)                      # points of R^3 (x time / anis)
                    D = np.sqrt(((iso[:, :, None] - iso[:, None, :]) ** 2).sum(axis=0))
                    Cm = np.asarray(m.covariance(D), dtype=float)
                    ev = min_eig(Cm)
                    ctx.count(("sphere", name, temporal, sig), hist=dict(stage="probe-sphere", cls=name, temporal=temporal))
                    cfg = dict(spatial_dim=3, temporal=True) if temporal else dict(dim=3)
                    if not (ev >= -EIG_TOL * n * m.var):
                        report(ctx, "probe: minimum eigenvalue on sphere points",
                               "%s(latlon, temporal=%s, %s, %s): %d points, min eigenvalue %r" % (name, temporal, p, kw, n, ev),
                               dict(probe="sphere", cls=name, temporal=temporal, params=p, model=kw,
                                    pos=[[C.fhex(v) for v in row] for row in pos], min_eig=repr(ev)),
                               name, cfg, sig, "sphere-min-eig<0")
                    if not temporal:
                        # Yadrenko: cov_yadrenko(great-circle distance) = covariance(chord of the embedded points)
                        i, j = rng.integers(0, n, size=(2, 40))
                        zeta = haversine_angle((lat[i], lon[i]), (lat[j], lon[j])) * unit
                        cy = np.asarray(m.cov_yadrenko(zeta), dtype=float)
                        ce = Cm[i, j]
                        # the two lags agree to ~1e-15 relative of the diameter; the covariance is Lipschitz with
                        # constant <= ~10 var / len_rescaled at these scales, except next to r = 0 for rough models
                        lag_err = np.abs(2 * unit * np.sin(zeta / (2 * unit)) - D[i, j])
                        if np.max(lag_err) > 1e-12 * unit and ("yl", name) not in ctx.nontrivial:
                            ctx.nontrivial.add(("yl", name))
                            ctx.violation("probe: Yadrenko lag equals the chord of the embedded points",
                                          "%s latlon: |2 R sin(zeta / 2R) - |p - q|| = %r" % (name, float(np.max(lag_err))),
                                          dict(probe="yadrenko-lag", cls=name, params=p, model=kw), key="yadrenko-lag:" + name)
                        far = D[i, j] > 1e-6 * unit
                        if np.any(np.abs(cy - ce)[far] > 1e-7 * m.var) and ("yc", name) not in ctx.nontrivial:
                            ctx.nontrivial.add(("yc", name))
                            ctx.violation("probe: cov_yadrenko equals covariance of the chordal distance",
                                          "%s latlon: max difference %r" % (name, float(np.max(np.abs(cy - ce)[far]))),
                                          dict(probe="yadrenko-cov", cls=name, params=p, model=kw), key="yadrenko-cov:" + name)


def replay(ctx, path):
    rec = json.load(open(path))
    print(json.dumps({k: rec[k] for k in ("stage", "what", "key")}, indent=1, default=str))
    case = rec.get("case", {})
    probe = case.get("probe")
    only = {"cor": "cor", "spectrum": "spectrum", "spectrum-quad": "spectrum", "eig": "eig", "sphere": "sphere",
            "yadrenko-lag": "sphere", "yadrenko-cov": "sphere"}.get(probe)
    if probe in ("eig", "cor", "spectrum"):
        # re-evaluate exactly the recorded case on the current tree first
        import gstools as gs
        try:
            m, warned, _ = make(gs, case["cls"], **case["cfg"], **case.get("model", {}), **case.get("params", {}),
                                **({"len_scale": case["len_scale"]} if "len_scale" in case else {}))
            if probe == "eig":
                X = np.array([[float.fromhex(v) for v in row] for row in case["points"]])
                ev = min_eig(cov_matrix_spatial(m, X))
                print("replayed case: dimension warning now: %s ; min eigenvalue now %r (recorded %s), tolerance %.2e" % (
                    warned, ev, case["min_eig"], -EIG_TOL * len(X) * m.var))
                if not warned and not (ev >= -EIG_TOL * len(X) * m.var):
                    ctx.violation(rec["stage"], "replayed: " + rec["what"], case, key=rec.get("key"))
            elif probe == "cor":
                r = float.fromhex(case["r"])
                print("replayed case: correlation(%r) now %r (recorded %s)" % (r, float(np.asarray(m.correlation(np.array([r])))[0]), case["value"]))
            else:
                k = float.fromhex(case["k"])
                print("replayed case: spectral_density(%r) now %r (recorded %s)" % (k, float(np.asarray(m.spectral_density(np.array([k])))[0]), case["value"]))
        except Exception as e:  # the recorded configuration may be rejected now
            print("replayed case could not be rebuilt: %r" % (e,))
    run(ctx, only=only)
    return ctx.finish()
