"""Shared runner parts of C05 (kriging solves the kriging equations) and C06 (exact interpolation, variance
bounds): declarative case specs (JSON-serialisable, so a replay file rebuilds the exact case), the
implementation side (gstools.krige), the model side (extracted coq/c05/C05_Model.v through the driver),
an independent textbook solution with numpy.linalg, and the comparison policy.

Tolerances (DESIGN 3.4):
 * assembly of the kriging matrix / right-hand sides / padded data from the SAME ingredient values
   (+ only): expected bit-equal, compared bit-equal;  covariance rows may pass through numpy's
   vectorised exp/pow at different array offsets, so rhs rows are compared with rtol 1e-12 of the sill
   (bit-equality is counted and reported);
 * kernel sums (model vs implementation, same inverse matrix): |a-b| <= 1e-9 * sum of absolute values
   of the accumulated terms  (|d|^T |Kinv| |k|), i.e. relative 1e-9 against the condition of the sum;
 * independent solution (numpy.linalg.solve of the textbook system) vs implementation (LAPACK pinv/
   pinvh/inv): both carry an error of order cond(K)*eps*|d|^T|lambda|; threshold 1e3*cond*eps*scale,
   systems with cond(K) > 1e10 are excluded as numerically singular (the property says so).
"""
import itertools
import json
import math

import numpy as np

import common as C

EPS = np.finfo(float).eps
COND_MAX = 1e10

# --------------------------------------------------------------------------- named callables

FUNCS = {   # mean / trend functions f(*pos)
    "lin": lambda *p: 0.3 + 0.5 * np.asarray(p[0]) - 0.2 * np.asarray(p[-1]),
    "quad": lambda *p: 1.0 + 0.1 * np.asarray(p[0]) ** 2,
    "sin": lambda *p: np.sin(0.7 * np.asarray(p[0])) + 0.1 * np.asarray(p[-1]),
}
DRIFTS = {  # drift functions for universal kriging
    "x0": lambda *p: 1.0 * np.asarray(p[0]),
    "last": lambda *p: 1.0 * np.asarray(p[-1]),
    "sq": lambda *p: np.asarray(p[0]) ** 2,
    "cos": lambda *p: np.cos(0.5 * np.asarray(p[0])),
}
EDFUNCS = {  # external drifts are given as arrays; these produce consistent values at any position
    "ed1": lambda *p: 2.0 + np.sin(0.9 * np.asarray(p[0])) + 0.3 * np.asarray(p[-1]),
    "ed2": lambda *p: np.cos(0.4 * np.asarray(p[0]) + 0.2) * (1 + 0.1 * np.asarray(p[-1])),
}

# model class -> largest dimension in which it is a valid (positive definite) model
MODELS = {"Gaussian": 9, "Exponential": 9, "Matern": 9, "Integral": 9, "Stable": 9, "Rational": 9,
          "Cubic": 3, "Linear": 1, "Circular": 2, "Spherical": 3, "HyperSpherical": 9, "SuperSpherical": 9,
          "JBessel": 9, "TPLSimple": 9, "TPLExponential": 9, "TPLGaussian": 9, "TPLStable": 9}
TPL_CLASSES = ["TPLExponential", "TPLGaussian", "TPLStable", "TPLSimple"]
VARIANTS = ["Simple", "Ordinary", "Universal", "ExtDrift", "Detrended"]


def drift_order(d):
    return {"linear": 1, "lin": 1, "quadratic": 2, "quad": 2}.get(d, d)


def poly_selects(dim, order):
    """the DOCUMENTED polynomial drift basis written out explicitly: for degree 1..order all index tuples
    i1 <= i2 <= ... <= id below dim in lexicographic order (2-D quadratic: x, y, xx, xy, yy)"""
    out = []
    for deg in range(1, int(order) + 1):
        def rec(lo, k):
            if k == 0:
                return [[]]
            return [[i] + r for i in range(lo, dim) for r in rec(i, k - 1)]
        out += rec(0, deg)
    return out


def s_unb(spec):
    v = spec["variant"]
    return bool(spec.get("unbiased", True)) if v == "Krige" else v in ("Ordinary", "Universal", "ExtDrift")


def s_fdrift(spec):
    """functional drift spec (None | list of names | "linear" | "quadratic" | int)"""
    return spec.get("drift") if spec["variant"] in ("Universal", "Krige") else None


def s_ext(spec):
    """names of the external drifts (possibly empty)"""
    return (spec.get("ext_drift") or []) if spec["variant"] in ("ExtDrift", "Krige") else []


def s_mean(spec):
    return spec.get("mean") if spec["variant"] in ("Simple", "Krige") else None


def s_nz(spec):
    return spec.get("normalizer") if spec["variant"] != "Detrended" else None


def build_model(ms):
    import gstools as gs
    kw = dict(ms["kw"])
    return getattr(gs, ms["cls"])(**kw)


# normalizer spec: None | ["LogNormal"] | ["BoxCox", lmbda] | ["BoxCoxShift", lmbda, shift] | ["YeoJohnson", lmbda]
#                  | ["Modulus", lmbda] | ["Manly", lmbda]      (lmbda != 0, and != 2 for YeoJohnson, in the generated cases)
def norm_fwd(nz, x):
    """the documented transformation formulas, written out here independently of gstools.normalizer"""
    x = np.array(x, dtype=float)
    if nz is None:
        return x
    k = nz[0]
    if k == "LogNormal":
        return np.log(x)
    lam = float(nz[1])
    if k == "BoxCox":
        return (np.power(x, lam) - 1.0) / lam
    if k == "BoxCoxShift":
        return (np.power(x + float(nz[2]), lam) - 1.0) / lam
    if k == "YeoJohnson":
        out = np.empty_like(x)
        p_ = x >= 0
        out[p_] = (np.power(x[p_] + 1.0, lam) - 1.0) / lam
        out[~p_] = -(np.power(1.0 - x[~p_], 2.0 - lam) - 1.0) / (2.0 - lam)
        return out
    if k == "Modulus":
        return np.sign(x) * (np.power(np.abs(x) + 1.0, lam) - 1.0) / lam
    if k == "Manly":
        return (np.exp(lam * x) - 1.0) / lam
    raise ValueError(k)


def norm_bwd(nz, y):
    y = np.array(y, dtype=float)
    if nz is None:
        return y
    k = nz[0]
    with np.errstate(all="ignore"):
        if k == "LogNormal":
            return np.exp(y)
        lam = float(nz[1])
        if k == "BoxCox":
            return (1.0 + y * lam) ** (1.0 / lam)
        if k == "BoxCoxShift":
            return (1.0 + y * lam) ** (1.0 / lam) - float(nz[2])
        if k == "YeoJohnson":
            out = np.empty_like(y)
            p_ = y >= 0
            out[p_] = np.power(y[p_] * lam + 1.0, 1.0 / lam) - 1.0
            out[~p_] = 1.0 - np.power(1.0 - (2.0 - lam) * y[~p_], 1.0 / (2.0 - lam))
            return out
        if k == "Modulus":
            return np.sign(y) * (np.power(np.abs(y) * lam + 1.0, 1.0 / lam) - 1.0)
        if k == "Manly":
            return np.log(1.0 + lam * y) / lam
    raise ValueError(k)


def in_range(nz, y):
    """strictly inside the normalizer's denormalize_range (outside it gstools returns NaN by design, C18); the range
    itself is read from the gstools object (C18 owns it)"""
    y = np.asarray(y, dtype=float)
    if nz is None or nz[0] == "LogNormal":
        return np.ones(y.shape, dtype=bool)
    lo, hi = build_normalizer(nz).denormalize_range
    return (y > lo + 1e-6) & (y < hi - 1e-6)


def norm_supported(nz):
    """normalizers the extracted model evaluates itself; the other classes enter the model as pre-normalised data"""
    return nz is None or nz[0] in ("LogNormal", "BoxCox")


def norm_code(nz):
    if nz is None or not norm_supported(nz):
        return ("n", 0), 1.0
    if nz[0] == "LogNormal":
        return ("n", 1), 1.0
    return ("n", 2), float(nz[1])


NORM_DEFAULTS = {"LogNormal": ["LogNormal"], "BoxCox": ["BoxCox", 1.0], "BoxCoxShift": ["BoxCoxShift", 1.0, 0.0],
                 "YeoJohnson": ["YeoJohnson", 1.0], "Modulus": ["Modulus", 1.0], "Manly": ["Manly", 1.0]}


def build_normalizer(nz, as_class=False):
    import gstools as gs
    if nz is None:
        return None
    if as_class:            # the class shortcut: stands for an instance with the default parameters
        assert list(nz) == NORM_DEFAULTS[nz[0]]
        return getattr(gs.normalizer, nz[0])
    N = gs.normalizer
    k = nz[0]
    if k == "LogNormal":
        return N.LogNormal()
    if k == "BoxCoxShift":
        return N.BoxCoxShift(lmbda=nz[1], shift=nz[2])
    return getattr(N, k)(lmbda=nz[1])


def positive_only(nz):
    return nz is not None and nz[0] in ("LogNormal", "BoxCox", "BoxCoxShift")


def fval(f, pos, n):
    """value of a mean/trend spec (None | float | name) at the points pos (field_dim x n)"""
    if f is None:
        return np.zeros(n)
    if isinstance(f, str):
        return np.broadcast_to(np.asarray(FUNCS[f](*pos), dtype=float), (n,)).copy()
    return np.full(n, float(f))


def fobj(f):
    return FUNCS[f] if isinstance(f, str) else f


def expand_pos(spec):
    """target points as a (field_dim x m) array, whatever the mesh type"""
    pos = [np.asarray(a, dtype=float) for a in spec["pos"]]
    if spec.get("mesh_type", "unstructured") == "structured":
        return np.asarray(np.meshgrid(*pos, indexing="ij"), dtype=float).reshape(len(pos), -1)
    return np.asarray(pos, dtype=float)


def ext_drift_at(spec, pos):
    ed = s_ext(spec)
    if not ed:
        return None
    return np.array([np.broadcast_to(EDFUNCS[e](*pos), (pos.shape[1],)) for e in ed], dtype=float)


class Capture:
    """records the matrix handed to the (pseudo-)inverse; the inverse itself is scipy's"""

    def __init__(self, kind="pinv"):
        import scipy.linalg as spl
        self.mats = []
        self.fn = {"pinv": spl.pinv, "pinvh": spl.pinvh}[kind]

    def __call__(self, m, *a, **k):
        self.mats.append(np.array(m, copy=True))
        return self.fn(m, *a, **k)


def krige_kwargs(spec, capture=None):
    v = spec["variant"]
    kw = dict(exact=bool(spec.get("exact", False)), cond_err=spec.get("cond_err", "nugget"),
              pseudo_inv=bool(spec.get("pseudo_inv", True)))
    if isinstance(kw["cond_err"], list):
        kw["cond_err"] = np.array(kw["cond_err"], dtype=float)
    pit = spec.get("pseudo_inv_type", "pinv")
    kw["pseudo_inv_type"] = capture if (pit == "callable") else pit
    if v != "Detrended":
        kw["normalizer"] = build_normalizer(spec.get("normalizer"), bool(spec.get("normalizer_as_class")))
        kw["trend"] = fobj(spec.get("trend"))
    else:
        kw["trend"] = fobj(spec.get("trend"))
    if v in ("Simple", "Krige"):
        kw["mean"] = fobj(spec.get("mean"))
    if v == "Universal" or (v == "Krige" and spec.get("drift") is not None):
        d = spec["drift"]
        kw["drift_functions"] = [DRIFTS[x] for x in d] if isinstance(d, list) else d
    if v == "Krige":
        kw["unbiased"] = s_unb(spec)
    return kw


def build_krige(spec, capture=None, cond_val=None, cond_pos=None):
    import gstools as gs
    model = build_model(spec["model"])
    cp = np.asarray(spec["cond_pos"] if cond_pos is None else cond_pos, dtype=float)
    cv = np.asarray(spec["cond_val"] if cond_val is None else cond_val, dtype=float)
    kw = krige_kwargs(spec, capture)
    v = spec["variant"]
    cls = getattr(gs.krige, v)
    if v == "ExtDrift":
        return cls(model, cp, cv, ext_drift_at(spec, cp), **kw)
    if v == "Krige":       # the base class with every option combination
        return cls(model, cp, cv, ext_drift=ext_drift_at(spec, cp), **kw)
    if v == "Detrended":
        tr = kw.pop("trend")
        return cls(model, cp, cv, tr, **kw)
    return cls(model, cp, cv, **kw)


def call_krige(kr, spec, pos=None, **kw):
    """kr(...) on the spec's targets (or the given unstructured points)"""
    if pos is None:
        p = [np.asarray(a, dtype=float) for a in spec["pos"]]
        mt = spec.get("mesh_type", "unstructured")
        full = expand_pos(spec)
    else:
        p = np.asarray(pos, dtype=float)
        mt = "unstructured"
        full = p
    args = dict(mesh_type=mt, chunk_size=spec.get("chunk_size"))
    if s_ext(spec):
        args["ext_drift"] = ext_drift_at(spec, full)
    args.update(kw)
    return kr(p, **args)


# --------------------------------------------------------------------------- independent textbook system

def haversine_angle(a, b):
    """central angle (radians) between lat/lon points a (2,) and b (2,n) given in degrees"""
    la1, lo1 = np.deg2rad(a[0]), np.deg2rad(a[1])
    la2, lo2 = np.deg2rad(b[0]), np.deg2rad(b[1])
    h = np.sin((la2 - la1) / 2) ** 2 + np.cos(la1) * np.cos(la2) * np.sin((lo2 - lo1) / 2) ** 2
    return 2 * np.arcsin(np.sqrt(np.clip(h, 0, 1)))


def cov_between(model, X, Y, nugget_aware):
    """covariance matrix between the columns of X and Y from the model's public functions
    (cov_spatial / cov_yadrenko); nugget_aware: the sill for coincident points"""
    n, m = X.shape[1], Y.shape[1]
    out = np.empty((n, m))
    for i in range(n):
        if model.latlon:
            ang = haversine_angle(X[:2, i], Y[:2])
            if model.temporal:
                chord = 2 * model.geo_scale * np.sin(ang / 2)
                dt = (Y[2] - X[2, i]) / model.anis[-1]
                out[i] = model.covariance(np.sqrt(chord ** 2 + dt ** 2))
            else:
                out[i] = model.cov_yadrenko(ang * model.geo_scale)
        else:
            out[i] = model.cov_spatial(Y - X[:, i:i + 1])
        if nugget_aware:
            same = np.all(Y == X[:, i:i + 1], axis=0)
            out[i, same] = model.var + model.nugget          # the sill, written out
    return out


def canon(model, P):
    """canonical representation of positions for functions of position: longitudes in (-180, 180]"""
    P = np.array(P, dtype=float)
    if model.latlon:
        lon = np.mod(P[1] + 180.0, 360.0) - 180.0
        P[1] = np.where(lon == -180.0, 180.0, lon)
    return P


def textbook(spec, cond_val=None, Y=None):
    """the kriging system of the textbooks built from public model functions and solved with
    numpy.linalg.solve.  Returns dict(raw, field, var, err, cond, K, k, d, lam, sfield, serr)"""
    model = build_model(spec["model"])
    X = np.asarray(spec["cond_pos"], dtype=float)
    val = np.asarray(spec["cond_val"] if cond_val is None else cond_val, dtype=float)
    fin = np.isfinite(val)
    X, val = X[:, fin], val[fin]
    n = X.shape[1]
    Y = expand_pos(spec) if Y is None else np.asarray(Y, dtype=float)
    m = Y.shape[1]
    v = spec["variant"]
    unb = s_unb(spec)
    F, G = [], []
    if s_fdrift(spec) is not None:
        d = spec["drift"]
        if isinstance(d, list):
            fs = [DRIFTS[x] for x in d]
        else:
            fs = [(lambda *p, sel=sel: np.prod([np.array(p[i], dtype=float) for i in sel], axis=0))
                  for sel in poly_selects(X.shape[0], drift_order(d))]
        for f in fs:      # drift functions are functions of the POINT: same value for lon and lon + 360
            F.append(np.broadcast_to(f(*canon(model, X)), (n,)))
            G.append(np.broadcast_to(f(*canon(model, Y)), (m,)))
    if s_ext(spec):
        F += list(ext_drift_at(spec, X))
        G += list(ext_drift_at(spec, Y))
    u = 1 if unb else 0
    N = n + u + len(F)
    ce = spec.get("cond_err", "nugget")
    err = np.full(n, model.nugget) if isinstance(ce, str) else np.broadcast_to(np.asarray(ce, dtype=float), (n,))
    K = np.zeros((N, N))
    K[:n, :n] = cov_between(model, X, X, False) + np.diag(err)
    k = np.zeros((N, m))
    k[:n] = cov_between(model, X, Y, bool(spec.get("exact", False)))
    if unb:
        K[n, :n] = K[:n, n] = 1.0
        k[n] = 1.0
    for l, (f, g) in enumerate(zip(F, G)):
        K[n + u + l, :n] = K[:n, n + u + l] = f
        k[n + u + l] = g
    nz = s_nz(spec)
    mean = s_mean(spec)
    trend = spec.get("trend")
    d = np.zeros(N)
    d[:n] = norm_fwd(nz, val - fval(trend, X, n)) - fval(mean, X, n)
    cond = np.linalg.cond(K) if N else 1.0
    out = dict(cond=cond, K=K, k=k, d=d, n=n, N=N, nz=nz, mean=mean, trend=trend, Y=Y, X=X)
    if not np.isfinite(cond) or cond > 1e14:
        out["singular"] = True
        return out
    lam = np.linalg.solve(K, k)
    raw = d @ lam
    e = np.einsum("it,it->t", k, lam)
    sill_ = float(model.var + model.nugget)                  # documented: sill = var + nugget (not read from model.sill)
    out.update(lam=lam, raw=raw, err=e, var=np.maximum(sill_ - e, 0.0), sill=sill_,
               field=norm_bwd(nz, raw + fval(mean, Y, m)) + fval(trend, Y, m),
               sfield=np.abs(d) @ np.abs(lam) + np.abs(raw), serr=np.einsum("it,it->t", np.abs(k), np.abs(lam)) + sill_)
    # thresholds: solver error + relative evaluation noise (tol_solve) + ABSOLUTE evaluation noise of the covariances
    # (1e3*eps*sill per right-hand-side entry: near the support edge of compact models a covariance of 1e-11 still
    # carries an absolute error of order eps*var) propagated through |K^-1|
    ainv = np.abs(np.linalg.inv(K))
    # ... plus the modulus of continuity of the covariance at the rounding error of a lag: the isometrized coordinates
    # (rotation / anisotropy product, or sphere embedding) carry errors of a few eps*|coordinate|, so a lag -- in particular the
    # lag 0 between a target and the identical conditioning point -- is only known up to delta = 16*dim*eps*max|coordinate|
    # (/ smallest anisotropy ratio).  A covariance that is concave at the origin changes by at most var - cov(delta); for
    # Lipschitz models that is ~1e-15*var, for the truncated-power-law models (1 - cor ~ r^(2H), H = 0.25: 1.4e-8 at r = 1e-16)
    # it is the dominant evaluation noise.
    if model.latlon:
        cmax = float(model.geo_scale) + (float(np.abs(np.concatenate([X[2], Y[2]])).max()) if model.temporal else 0.0)
        amin = min(1.0, float(np.min(model.anis))) if model.temporal else 1.0
        dim_ = 4 if model.temporal else 3
    else:
        cmax = float(max(np.abs(X).max(), np.abs(Y).max()))
        amin = min(1.0, float(np.min(model.anis))) if model.dim > 1 else 1.0
        dim_ = int(model.dim)
    delta = 16 * dim_ * EPS * cmax / amin
    omega = abs(float(model.var - np.ravel(model.covariance(np.array([delta])))[0]))
    dk = 1e3 * EPS * sill_ + omega
    lsum = 1.0 + float(np.abs(lam[:n]).sum(axis=0).max())
    out["noise_f"] = dk * float((np.abs(d) @ ainv).sum()) * lsum
    out["noise_v"] = 2 * dk * float(np.abs(lam).sum(axis=0).max()) * lsum
    out["tf"] = tol_field(cond, d, lam, raw) + out["noise_f"]
    out["tv"] = tol_err(cond, k, lam, sill_) + out["noise_v"]
    return out


def tol_field(cond, d, lam, raw):
    """threshold for an estimate d^T lambda_t whose weights come from two different LAPACK solves:
    the solver error of lambda_t is NORM-wise, |delta lambda_t| <~ cond*eps*||lambda_t||_2 in every component, so its
    effect on the estimate is bounded by cond*eps*||d||_2*||lambda_t||_2 (not by the component-wise |d|^T|lambda_t|,
    which collapses when a large datum meets a small weight); 1e3 safety.  Plus 1e-9 relative evaluation noise of the
    independently computed covariances against the accumulated magnitudes."""
    lam2 = np.sqrt((np.asarray(lam) ** 2).sum(axis=0))
    return 1e3 * cond * EPS * (np.linalg.norm(d) * lam2 + np.abs(raw)) + 1e-9 * (np.abs(d) @ np.abs(lam) + np.abs(raw)) + 1e-300


def tol_err(cond, k, lam, sill):
    """the same for the error term k_t^T lambda_t (and the variance sill - k^T lambda)"""
    lam2 = np.sqrt((np.asarray(lam) ** 2).sum(axis=0))
    k2 = np.sqrt((np.asarray(k) ** 2).sum(axis=0))
    return 1e3 * cond * EPS * (k2 * lam2 + sill) + 1e-9 * (np.einsum("it,it->t", np.abs(k), np.abs(lam)) + sill) + 1e-300


def tol_solve(cond, scale):
    """solver error (1e3*cond*eps) + evaluation noise of the independently computed covariances (1e-9,
    DESIGN 3.4: values through transcendental functions), both relative to the accumulated magnitudes"""
    return (1e3 * cond * EPS + 1e-9) * scale + 1e-300


def post_tol(nz, y, t):
    """propagate an absolute tolerance t on the normalised value y through the back transform"""
    if nz is None:
        return t
    with np.errstate(all="ignore"):
        a = np.abs(norm_bwd(nz, y + t) - norm_bwd(nz, y))
        b = np.abs(norm_bwd(nz, y - t) - norm_bwd(nz, y))
    r = 2 * np.fmax(a, b)
    return np.where(np.isfinite(r), r, np.inf) + 1e-12


# --------------------------------------------------------------------------- model side (driver)

def sys_args(kr):
    n = kr.cond_no
    C_ = np.ascontiguousarray(kr.model.covariance(kr._get_dists(kr._krige_pos))).reshape(n, n)
    err = kr.cond_err
    scalar = np.ndim(err) == 0
    dpos = kr.model.anisometrize(kr._krige_pos) if kr.int_drift_no > 0 else None
    fint = np.array([np.broadcast_to(np.asarray(f(*dpos), dtype=float), (n,)) for f in kr.drift_functions],
                    dtype=float).reshape(len(kr.drift_functions), n)
    fext = np.asarray(kr.cond_ext_drift, dtype=float)
    fext = fext.reshape(fext.shape[0], n) if fext.size else np.zeros((0, n))
    return [("n", n), bool(kr.unbiased), bool(kr.exact), float(kr.model.sill), C_, bool(scalar),
            np.atleast_1d(np.asarray(err, dtype=float)), fint, fext]


def tgt_args(kr, iso_pos, ext_drift, only_mean=False):
    """the ingredient values of the right-hand sides, obtained with the calls the implementation makes"""
    n, m = kr.cond_no, iso_pos.shape[1]
    d0 = np.asarray(kr._get_dists(kr._krige_pos, iso_pos), dtype=float).reshape(n, m)
    c0 = np.asarray(kr.model.covariance(d0), dtype=float).reshape(n, m)
    if kr.int_drift_no > 0:
        cp = kr.model.anisometrize(iso_pos)
        gint = np.array([np.broadcast_to(np.asarray(f(*cp), dtype=float), (m,)) for f in kr.drift_functions], dtype=float)
    else:
        gint = np.zeros((0, m))
    ge = kr._pre_ext_drift(m, ext_drift)
    gext = np.asarray(ge, dtype=float).reshape(-1, m) if np.size(ge) else np.zeros((0, m))
    return [("n", m), c0, d0, gint.reshape(-1, m), gext, bool(only_mean)]


def data_args(kr, spec, Y):
    """(normalizer code, lambda, val, cond trend, cond mean, target mean, target trend)"""
    n, m = kr.cond_no, Y.shape[1]
    v = spec["variant"]
    nz = spec.get("normalizer") if v != "Detrended" else None
    code, lam = norm_code(nz)
    ctr = np.broadcast_to(np.asarray(kr.cond_trend, dtype=float), (n,)).copy()
    cmn = np.broadcast_to(np.asarray(kr.cond_mean, dtype=float), (n,)).copy()
    tmn = fval(s_mean(spec), Y, m)
    ttr = fval(spec.get("trend"), Y, m)
    if not norm_supported(nz):
        # model side: identity normalizer on data normalised here (own formula); the back transform is applied to the
        # model's raw output by the caller (model_post)
        return [code, lam, norm_fwd(nz, np.asarray(kr.cond_val, dtype=float) - ctr), np.zeros(n), cmn, np.zeros(m), np.zeros(m)]
    return [code, lam, np.asarray(kr.cond_val, dtype=float), ctr, cmn, tmn, ttr]


def sum_scale(kinv, k, d):
    """sum of absolute values of the terms accumulated by the kernel, per target"""
    ak = np.abs(kinv) @ np.abs(k)
    return np.abs(d) @ ak, np.einsum("it,it->t", np.abs(k), ak)


# --------------------------------------------------------------------------- case generation

def gen_model(rng, dim=None, geo=None, classes=None, geom_mode=None, var_scale=None):
    """dim 1-3 (+lat-lon, +time); returns (model spec, field_dim, extent of the domain)"""
    geo = str(geo if geo is not None else rng.choice(["plain", "plain", "plain", "time", "latlon", "latlon_time"]))
    dim = int(dim or rng.integers(1, 4))
    classes = classes or list(MODELS)
    var = float(np.round(rng.uniform(0.3, 3.0), 3))
    nug = float(rng.choice([0.0, 0.0, np.round(rng.uniform(0.01, 0.5), 3)]))
    if var_scale is not None:     # kriging is scale invariant: tiny / huge variances must work like O(1) ones
        var, nug = float(var * var_scale), float(nug * var_scale)
    kw = dict(var=var, nugget=nug)
    if geo in ("latlon", "latlon_time"):
        md = 4 if geo == "latlon_time" else 3
        ok = [c for c in classes if MODELS[c] >= md]
        cls = str(rng.choice(ok))
        kw.update(latlon=True, geo_scale=float(rng.choice([1.0, 6371.0, 57.29577951308232])))
        # correlation length of 10-40 degrees of arc
        kw["len_scale"] = float(np.round(kw["geo_scale"] * np.deg2rad(rng.uniform(10, 40)), 6))
        fd = 2
        if geo == "latlon_time":
            kw.update(temporal=True, anis=float(np.round(rng.uniform(0.3, 2.0), 3)))
            fd = 3
        ext = None
    else:
        if geo == "time":
            dim = max(dim, 2)
            kw["temporal"] = True
        ok = [c for c in classes if MODELS[c] >= dim]
        cls = str(rng.choice(ok))
        kw["dim"] = dim
        kw["len_scale"] = float(np.round(rng.uniform(1.0, 6.0), 3))
        # geom_mode: 0 anisotropy + rotation, 1 rotation only (anis = 1), 2 anisotropy only, 3 neither, None random
        want_anis = (rng.random() < 0.6) if geom_mode is None else geom_mode in (0, 2)
        want_rot = (rng.random() < 0.6) if geom_mode is None else geom_mode in (0, 1)
        if dim > 1 and want_anis:
            kw["anis"] = [float(np.round(rng.uniform(0.3, 1.5), 3)) for _ in range(dim - 1)]
        sdim = dim - (1 if geo == "time" else 0)
        if sdim > 1 and want_rot:
            kw["angles"] = [float(np.round(rng.uniform(-3, 3), 3)) for _ in range(1 if sdim == 2 else 3)]
        fd = dim
        md = dim
        ext = 10.0
    if cls == "Matern":
        kw["nu"] = float(rng.choice([0.5, 1.0, 1.5, 2.5]))
    if cls == "Stable":
        kw["alpha"] = float(rng.choice([0.7, 1.0, 1.5, 2.0]))
    if cls == "Rational":
        kw["alpha"] = float(rng.choice([0.5, 1.0, 3.0]))
    if cls == "JBessel":
        kw["nu"] = float(md / 2 - 1 + rng.choice([0.0, 0.5, 1.5])) if md > 2 else float(rng.choice([0.5, 1.0, 2.0]))
    if cls == "HyperSpherical":
        kw["nu"] = float((md - 1) / 2 + rng.choice([0.0, 1.0]))
    return dict(cls=cls, kw=kw), fd, geo


def gen_points(rng, geo, fd, n, grid=False, lon360=False):
    """n pairwise DISTINCT points (coordinates are rounded to 4 decimals, so in 1-D two of a few thousand generated
    point sets would coincide; coincident conditioning points with different values cannot both be honoured and belong
    to the duplicates probe only)"""
    for _ in range(50):
        P = _gen_points(rng, geo, fd, n, lon360)
        if len({tuple(c) for c in zip(*P)}) == n:
            return P
    return P


def _gen_points(rng, geo, fd, n, lon360=False):
    if geo in ("latlon", "latlon_time"):
        lat = rng.uniform(-70, 70, n)
        lon = rng.uniform(-170, 170, n)
        if lon360:
            lon = np.where(lon < 0, lon + 360.0, lon)
        rows = [lat, lon]
        if geo == "latlon_time":
            rows.append(rng.uniform(0, 5, n))
    else:
        rows = [rng.uniform(0, 10, n) for _ in range(fd)]
    return [list(map(float, np.round(r, 4))) for r in rows]


NORM_CLASSES = ["LogNormal", "BoxCox", "BoxCoxShift", "YeoJohnson", "Modulus", "Manly"]


def gen_normalizer(rng, cls=None):
    cls = cls or str(rng.choice(NORM_CLASSES))
    if cls == "LogNormal":
        return ["LogNormal"]
    if cls == "BoxCox":
        return ["BoxCox", float(rng.choice([0.5, 2.0, -0.5]))]
    if cls == "BoxCoxShift":
        return ["BoxCoxShift", float(rng.choice([0.5, 2.0, -0.5])), float(rng.choice([1.0, 2.5]))]
    if cls == "YeoJohnson":
        return ["YeoJohnson", float(rng.choice([0.5, 1.0, 1.5, 2.5, -0.5]))]
    if cls == "Modulus":
        return ["Modulus", float(rng.choice([1.0, 0.5, 2.0, -0.5]))]
    return ["Manly", float(rng.choice([0.5, -0.3, 1.0]))]


def gen_norm_data(rng, nz, n):
    """detrended data inside the normalize range: positive for Log / Box-Cox, above -shift (both signs) for BoxCoxShift,
    BOTH SIGNS for the real-line classes (Yeo-Johnson, Modulus, Manly), some values close to zero / the range end"""
    if nz[0] in ("LogNormal", "BoxCox"):
        return np.exp(0.25 * rng.normal(size=n)) + 0.5
    if nz[0] == "BoxCoxShift":
        return np.exp(0.25 * rng.normal(size=n)) + 0.5 - float(nz[2]) * rng.uniform(0.5, 0.95)
    x = rng.normal(size=n) * 0.8
    x[0], x[1 % n] = -abs(x[0]) - 0.05, abs(x[1 % n]) + 0.05      # at least one value of each sign
    if n > 3:
        x[3] = float(rng.choice([-1e-3, 1e-3]))
    return x


def gen_spec(rng, variant=None, geo=None, dim=None, n=None, m=None, allow_norm=True, tier="quick", classes=None,
             exact=None, nugget=None, norm_prob=0.35, mean_nonzero=False, geom_mode=None, drift_mode=None, var_scale=None, cell=None, norm_class=None,
             n_eq_dim=False):
    """cell = (functional drift kind 0..3: none / "linear" / "quadratic" / callables, number of external drifts 0..2,
    unbiased) for variant "Krige": the base class with its option combinations"""
    variant = variant or str(rng.choice(VARIANTS))
    if var_scale is not None:
        allow_norm = False
    ms, fd, geo = gen_model(rng, dim=dim, geo=geo, classes=classes, geom_mode=geom_mode, var_scale=var_scale)
    if nugget is not None:
        ms["kw"]["nugget"] = float(nugget)
    n = int(n or rng.integers(2, 9 if tier == "quick" else 15))
    if n_eq_dim:            # exactly as many conditioning points as coordinates (shape coincidences), at least 2
        n = max(fd, 2)
    spec = dict(variant=variant, model=ms, geo=geo)
    if variant == "Universal":
        # drift_mode cycles: callables, "linear", 1, "quadratic", 2, 3 (order 3 only for <= 2 coordinates), other callables
        dm = int(rng.integers(7)) if drift_mode is None else int(drift_mode) % 7
        geoll = geo in ("latlon", "latlon_time")
        opts = [["x0"] if fd == 1 else ["x0", "last"], "linear", 1, "quadratic", 2, 3, ["x0", "cos"] if fd == 1 else ["sq"]]
        spec["drift"] = opts[dm]
        if spec["drift"] == 3 and (fd > 2 or geoll):
            spec["drift"] = 2
        if geo == "latlon_time" and spec["drift"] in ("quadratic", 2):
            spec["drift"] = "linear"
    if variant == "ExtDrift":
        spec["ext_drift"] = ["ed1"] if rng.random() < 0.6 else ["ed1", "ed2"]
    if variant == "Krige":
        dk_, ne_, ub_ = cell if cell is not None else (int(rng.integers(4)), int(rng.integers(3)), bool(rng.integers(2)))
        quad_ok = fd <= 2 and geo != "latlon_time"
        spec["drift"] = [None, "linear", "quadratic" if quad_ok else 1, ["x0"] if fd == 1 else ["x0", "sq"]][dk_]
        spec["ext_drift"] = [[], ["ed1"], ["ed1", "ed2"]][ne_]
        spec["unbiased"] = bool(ub_)
    p = (len(spec["drift"]) if isinstance(spec.get("drift"), list) else 0) + len(spec.get("ext_drift", []))
    if spec.get("drift") is not None and not isinstance(spec["drift"], list):
        p += len(poly_selects(fd, drift_order(spec["drift"])))
    n = max(n, p + 2 + (2 if p > 4 else 0))
    lon360 = bool(rng.random() < 0.4)
    spec["cond_pos"] = gen_points(rng, geo, fd, n, lon360=lon360)
    X = np.asarray(spec["cond_pos"])
    nz = None
    if allow_norm and variant != "Detrended" and rng.random() < norm_prob:
        nz = gen_normalizer(rng, norm_class)
    if variant in ("Simple", "Krige"):
        spec["mean"] = [None, 0.0, float(np.round(rng.normal(), 3)), "lin"][int(rng.integers(4))]
        if nz is not None:
            spec["mean"] = [None, 0.0, 0.3][int(rng.integers(3))]
        if mean_nonzero:
            spec["mean"] = [0.3, -0.4][int(rng.integers(2))] if nz is not None else [0.3, float(np.round(rng.normal(), 3)) + 0.05, "lin"][int(rng.integers(3))]
    spec["trend"] = [None, None, float(np.round(rng.normal(), 3)), "quad", "sin"][int(rng.integers(5))]
    if variant == "Detrended":
        spec["trend"] = ["quad", "sin", "lin"][int(rng.integers(3))]
    spec["normalizer"] = nz
    base = rng.normal(size=n) * math.sqrt(ms["kw"]["var"])
    if nz is not None:
        base = gen_norm_data(rng, nz, n)
    spec["cond_val"] = [float("%.10g" % x) for x in base + fval(spec["trend"], X, n)]
    if exact is None:
        exact = bool(rng.random() < 0.3)
    spec["exact"] = bool(exact)
    if spec["exact"]:
        spec["cond_err"] = "nugget"
    else:
        ch = rng.integers(4)
        sc_ = 1.0 if var_scale is None else float(var_scale)
        spec["cond_err"] = ["nugget", "nugget", float(np.round(rng.uniform(0, 0.3), 3) * sc_),
                            [float(x * sc_) for x in np.round(rng.uniform(0, 0.3, n), 3)]][ch]
    ch = rng.integers(5)
    spec["pseudo_inv"] = bool(ch != 4)
    spec["pseudo_inv_type"] = ["pinv", "pinvh", "callable", "pinv", "pinv"][ch]
    m = int(m or rng.integers(1, 12))
    if rng.random() < 0.25 and fd >= 2:
        axes = []
        for a in range(fd):
            k = int(rng.integers(1, 4))
            if geo in ("latlon", "latlon_time") and a < 2:
                axes.append(list(map(float, np.round(np.sort(rng.uniform(-60, 60, k)) + (200.0 if (a == 1 and lon360) else 0.0), 3))))
            else:
                axes.append(list(map(float, np.round(np.sort(rng.uniform(0, 10, k)), 3))))
        spec["pos"] = axes
        spec["mesh_type"] = "structured"
        m = int(np.prod([len(a) for a in axes]))
    else:
        spec["pos"] = gen_points(rng, geo, fd, m, lon360=lon360)
        if rng.random() < 0.5:     # one target sits exactly on a conditioning point (nugget-aware right-hand side)
            j, t = int(rng.integers(n)), int(rng.integers(m))
            for a in range(fd):
                spec["pos"][a][t] = spec["cond_pos"][a][j]
        spec["mesh_type"] = "unstructured"
    spec["chunk_size"] = [None, None, 1, 2, 3, m, m + 5][int(rng.integers(7))]
    return spec


def spec_key(spec, extra=()):
    ms = spec["model"]
    return (spec["variant"], ms["cls"], spec.get("geo"), ms["kw"].get("dim", "ll"), len(spec["cond_val"]),
            bool(spec.get("exact")), "nug" if ms["kw"].get("nugget") else "nonug",
            "vec" if isinstance(spec.get("cond_err"), list) else str(type(spec.get("cond_err")).__name__),
            spec.get("pseudo_inv_type") if spec.get("pseudo_inv") else "inv",
            str(spec.get("normalizer")), spec.get("mesh_type"), str(spec.get("chunk_size"))) + tuple(extra)


def spec_hist(spec):
    ms = spec["model"]
    return dict(variant=spec["variant"], model=ms["cls"], geo=spec.get("geo"), dim=ms["kw"].get("dim", "latlon"),
                n_cond=len(spec["cond_val"]), exact=bool(spec.get("exact")),
                cond_err=("vector" if isinstance(spec.get("cond_err"), list) else
                          ("nugget" if isinstance(spec.get("cond_err"), str) else "scalar")),
                inverse=(spec.get("pseudo_inv_type") if spec.get("pseudo_inv") else "inv"),
                normalizer=(spec.get("normalizer") or ["none"])[0], mesh=spec.get("mesh_type"),
                chunk=str(spec.get("chunk_size")))


def jsonable(spec):
    return json.loads(json.dumps(spec, default=lambda o: o.tolist() if hasattr(o, "tolist") else str(o)))


# --------------------------------------------------------------------------- correspondence of one case

def _within(a, b, tol):
    """elementwise |a-b| <= tol, where equal infinities (overflow of the back transform on both sides) and NaN on
    both sides count as equal"""
    a, b = np.asarray(a, dtype=float), np.asarray(b, dtype=float)
    if a.shape != b.shape:
        return False
    with np.errstate(all="ignore"):
        ok = (np.abs(a - b) <= tol) | (a == b) | (np.isnan(a) & np.isnan(b))
    return bool(np.all(ok))


def correspond_case(ctx, drv, spec, stats, what="all"):
    """implementation internals vs the extracted model on one case.  Returns False when a disagreement
    was recorded.  `stats` collects bit-equality / exclusion counters."""
    cap = Capture(spec["pseudo_inv_type"] if spec["pseudo_inv_type"] in ("pinv", "pinvh") else "pinv")
    import gstools.krige.base as KB
    case = dict(spec=jsonable(spec))
    # record the un-inverted matrix also for the string-selected routines (wrapper lives in this process only)
    old = dict(KB.P_INV)
    rec = {}
    try:
        for name in ("pinv", "pinvh"):
            KB.P_INV[name] = (lambda mat, *a, f=old[name], **k: (rec.setdefault("mats", []).append(np.array(mat)), f(mat, *a, **k))[1])
        kr = build_krige(spec, cap)
    finally:
        KB.P_INV.clear()
        KB.P_INV.update(old)
    ok = True

    def bad(stage, msg, **kw):
        nonlocal ok
        ok = False
        if not _limit("corr:" + stage):
            return
        ctx.violation("correspondence: " + stage, msg, dict(case, **{k: (v.tolist() if hasattr(v, "tolist") else v) for k, v in kw.items()}),
                      key="corr:" + stage, no_input=True)

    sa = sys_args(kr)
    Km = drv.call("krige_matrix", *sa)
    N = kr.krige_size
    Km = np.asarray(Km, dtype=float).reshape(N, N)
    mats = cap.mats or rec.get("mats")
    if mats:
        stats["matrix_captured"] = stats.get("matrix_captured", 0) + 1
        if not C.bit_equal(mats[-1], Km):
            bad("krige_matrix", "assembled kriging matrix differs from the model", impl=mats[-1], model=Km)
    # polynomial drift basis (get_drift_functions / _f_factory) vs the model's documented monomial basis
    if s_fdrift(spec) is not None and not isinstance(spec.get("drift"), list):
        order = drift_order(spec["drift"])
        fd_ = int(np.shape(kr.cond_pos)[0])
        for what_, P, impl_rows in (("conditioning points", kr.model.anisometrize(kr._krige_pos), sa[7]),):
            pm = np.asarray(drv.call("poly_drifts", ("n", fd_), ("n", int(order)), ("n", P.shape[1]), np.ascontiguousarray(P)), dtype=float)
            pm = pm.reshape(-1, P.shape[1])
            stats["poly_basis"] = stats.get("poly_basis", 0) + 1
            if pm.shape != np.shape(impl_rows) or not C.bit_equal(pm, impl_rows):
                bad("get_drift_functions", "polynomial drift basis (order %s, %d coordinates) at the %s differs from the documented "
                    "monomial basis of the model" % (order, fd_, what_), impl=np.asarray(impl_rows), model=pm)
    cond = np.linalg.cond(Km) if N else 1.0
    singular = (not np.isfinite(cond)) or cond > COND_MAX
    if singular:
        stats["singular"] = stats.get("singular", 0) + 1
    else:
        # the oracle hypothesis of the theorems, checked for this case: K.Kinv = I and Kinv.K = I
        Ki = np.asarray(kr._krige_mat, dtype=float)
        r1 = np.abs(Km @ Ki - np.eye(N)).max()
        r2 = np.abs(Ki @ Km - np.eye(N)).max()
        lim = 1e3 * cond * EPS * N + 1e-12
        stats["max_inv_residual_over_limit"] = max(stats.get("max_inv_residual_over_limit", 0.0), max(r1, r2) / lim)
        if max(r1, r2) > lim:
            bad("inverse", "K_model * impl._krige_mat is not the identity (residual %.3g, limit %.3g, cond %.3g)" % (max(r1, r2), lim, cond),
                K_model=Km, krige_mat=Ki)
    # prepared data
    Y = expand_pos(spec)
    da = data_args(kr, spec, Y)
    nz0 = s_nz(spec)
    tmn_true = fval(s_mean(spec), Y, Y.shape[1])
    ttr_true = fval(spec.get("trend"), Y, Y.shape[1])

    def mpost(arr):
        """model output -> post-processed value (normalizer classes outside the model: back transform applied here)"""
        arr = np.asarray(arr, dtype=float)
        return arr if norm_supported(nz0) else norm_bwd(nz0, arr + tmn_true) + ttr_true
    pad = kr.drift_no + int(kr.unbiased)
    cm = np.asarray(drv.call("krige_cond", da[0], da[1], da[2], da[3], da[4], ("n", pad)), dtype=float)
    ci = np.asarray(kr._krige_cond, dtype=float)
    if spec.get("normalizer") is None or spec["variant"] == "Detrended":
        same = C.bit_equal(ci, cm)
    else:
        same = C.close(ci, cm, rtol=1e-9, atol=1e-12)
    if not same:
        bad("krige_cond", "prepared conditioning data differ", impl=ci, model=cm)
    # right-hand sides, chunk by chunk as the implementation cuts them
    iso_pos, shape = kr.pre_pos([np.asarray(a, dtype=float) for a in spec["pos"]], spec.get("mesh_type", "unstructured"))
    m = iso_pos.shape[1]
    ed = ext_drift_at(spec, Y) if s_ext(spec) else None
    edp = kr._pre_ext_drift(m, ed)
    ta = tgt_args(kr, iso_pos, ed)
    cs = spec.get("chunk_size") or m
    sill = float(kr.model.sill)
    for lo in range(0, m, cs):
        hi = min(m, lo + cs)
        ki = np.asarray(kr._get_krige_vecs(iso_pos, (lo, hi), edp, False), dtype=float)
        km = np.asarray(drv.call("rhs", *sa, *ta, ("n", lo), ("n", hi)), dtype=float).reshape(N, hi - lo)
        stats["rhs"] = stats.get("rhs", 0) + 1
        if C.bit_equal(ki, km):
            stats["rhs_bit_equal"] = stats.get("rhs_bit_equal", 0) + 1
        if not (C.bit_equal(ki[kr.cond_no:], km[kr.cond_no:]) and C.close(ki, km, rtol=1e-12, atol=1e-12 * sill)):
            bad("_get_krige_vecs", "right-hand side of chunk (%d,%d) differs" % (lo, hi), impl=ki, model=km)
            break
    if what == "assembly":
        return ok
    # final results with the implementation's own inverse as the oracle value of Kinv
    Ki = np.ascontiguousarray(np.asarray(kr._krige_mat, dtype=float))
    chunk = ("n", cs)
    kfull = np.asarray(kr._get_krige_vecs(iso_pos, (0, m), edp, False), dtype=float)
    sf, se = sum_scale(Ki, kfull, ci)
    f_i, v_i = call_krige(kr, spec)
    f_i, v_i = np.asarray(f_i, dtype=float).reshape(-1), np.asarray(v_i, dtype=float).reshape(-1)
    fr_i, vr_i = call_krige(kr, spec, post_process=False)
    fr_i = np.asarray(fr_i, dtype=float).reshape(-1)
    f_m, e_m = drv.call("krige_raw", *sa, *ta, Ki, ci, chunk)
    f_m, e_m = np.asarray(f_m, dtype=float), np.asarray(e_m, dtype=float)
    stats["final"] = stats.get("final", 0) + 1
    if C.bit_equal(fr_i, f_m):
        stats["final_bit_equal"] = stats.get("final_bit_equal", 0) + 1
    if not _within(fr_i, f_m, 1e-9 * sf + 1e-300):
        bad("raw field", "raw kriging field differs from the model (same inverse matrix)", impl=fr_i, model=f_m, scale=sf)
    f_c, v_c = drv.call("krige_call", *sa, *ta, Ki, *da, chunk)
    f_c, v_c = mpost(f_c), np.asarray(v_c, dtype=float)
    nz = spec.get("normalizer") if spec["variant"] != "Detrended" else None
    tf = post_tol(nz, fr_i + tmn_true, 1e-9 * sf) + 1e-9 * np.abs(f_i)
    inr = in_range(nz, fr_i + tmn_true)
    stats["out_of_normalizer_range"] = stats.get("out_of_normalizer_range", 0) + int((~inr).sum())
    tf = np.where(inr, tf, np.inf)
    f_i = np.where(inr, f_i, 0.0)
    f_c = np.where(inr, f_c, 0.0)
    if not _within(f_i, f_c, tf):
        bad("field", "post-processed kriging field differs from the model", impl=f_i, model=f_c, tol=tf)
    # clipping decision: exact.  The model returns max(sill - e, 0) >= 0; an implementation value < 0 is a violation of
    # "the kriging variance is never negative", whatever its size
    if np.any(v_i < 0):
        _viol(ctx, "variance_nonneg", "negative kriging variance %.3g where the model (same inverse matrix) returns max(sill - e, 0) = %.3g" % (
            v_i.min(), float(v_c[int(np.argmin(v_i))]) if v_c.shape == v_i.shape else float("nan")), spec, "var:negative", impl=v_i, model=v_c)
    if v_i.shape != v_c.shape or not np.all(np.abs(v_i - v_c) <= 1e-9 * (se + sill)):
        bad("krige_var", "kriging variance differs from the model", impl=v_i, model=v_c, scale=se)
    # return_var=False path, only_mean path, get_mean
    f2 = np.asarray(call_krige(kr, spec, return_var=False), dtype=float).reshape(-1)
    f2m = mpost(drv.call("krige_call_field", *sa, *ta, Ki, *da, chunk))
    f2 = np.where(inr, f2, 0.0)
    f2m = np.where(inr, f2m, 0.0)
    if not _within(f2, f2m, tf):
        bad("field(return_var=False)", "field without variance differs from the model", impl=f2, model=f2m)
    if not C.bit_equal(f2, f_i):
        bad("field(return_var=False) vs field", "the two kernels give different fields", a=f2, b=f_i)
    mean_callable = isinstance(s_mean(spec), str)
    mval = 0.0 if (s_mean(spec) is None or mean_callable) else float(s_mean(spec))
    for post in (True, False):
        graw = kr.get_mean(post_process=False)
        if post and graw is not None and not bool(in_range(nz, graw + mval)):
            # outside the normalizer's denormalize_range gstools' Normalizer._check_input raises a TypeError for
            # 0-d input (arrays give NaN + warning): normalizer territory (C18), not a kriging result
            stats["get_mean_out_of_normalizer_range"] = stats.get("get_mean_out_of_normalizer_range", 0) + 1
            continue
        gi = kr.get_mean(post_process=post)
        if norm_supported(nz):
            gm = drv.call("get_mean", *sa, Ki, ci, da[0], da[1], float(mval), bool(mean_callable), bool(post))
        else:
            gm = drv.call("get_mean", *sa, Ki, ci, da[0], da[1], float(mval), bool(mean_callable), False)
            if post:
                gm = None if (gm is None or kr.get_mean(post_process=True) is None) else float(norm_bwd(nz, np.array([gm + mval]))[0])
        if (gi is None) != (gm is None):
            bad("get_mean", "get_mean None-ness differs (post_process=%s)" % post, impl=gi, model=gm)
        elif gi is not None:
            sc = np.abs(ci) @ np.abs(Ki[:, kr.cond_no]) if kr.unbiased else 0.0
            t = post_tol(nz, graw + mval, 1e-9 * sc + 1e-300) if post else 1e-9 * sc + 1e-300
            if not _within(float(gi), float(gm), t + 1e-9 * abs(float(gi))):
                bad("get_mean", "get_mean differs (post_process=%s)" % post, impl=float(gi), model=float(gm))
    taom = tgt_args(kr, iso_pos, ed, True)
    fo = np.asarray(call_krige(kr, spec, only_mean=True), dtype=float).reshape(-1)
    fom = mpost(drv.call("krige_call_field", *sa, *taom, Ki, *da, chunk))
    kom = np.asarray(kr._get_krige_vecs(iso_pos, (0, m), edp, True), dtype=float)
    sfo, _ = sum_scale(Ki, kom, ci)
    if kr.drift_no == 0:
        sfo = np.full(m, np.abs(ci) @ np.abs(Ki[:, kr.cond_no]) if kr.unbiased else 0.0)
    fo_raw = np.asarray(call_krige(kr, spec, only_mean=True, post_process=False), dtype=float).reshape(-1)
    inro = in_range(nz, fo_raw + tmn_true)
    tfo = post_tol(nz, fo_raw + tmn_true, 1e-9 * sfo + 1e-300) + 1e-9 * np.abs(fo)
    tfo = np.where(inro, tfo, np.inf)
    fo, fom = np.where(inro, fo, 0.0), np.where(inro, fom, 0.0)
    if not _within(fo, fom, tfo):
        bad("mean_field(only_mean)", "only_mean field differs from the model", impl=fo, model=fom)
    return ok


def finish_tie(ctx, pid, proofs_ok, tie_broken):
    if (tie_broken or not proofs_ok) and not [v for v in ctx.violations if not v["no_input"]]:
        if not ctx.violations:
            ctx.violation("proof/tie", "proof obligations or the model/code tie of %s no longer check: %s" % (
                pid, tie_broken or getattr(ctx, "proof_failure", {}).get("output_tail", "")[-600:]),
                dict(tie_broken=tie_broken, proof=getattr(ctx, "proof_failure", None)), no_input=True)


TRUSTED = [
    "Coq 8.16.1 kernel (coqc); no native_compute",
    "translator tools/pyx2coq.py for krigesum.pyx (regenerated on this run); extraction (ExtrOcamlBasic only), OCaml 4.13, ocaml/proto.ml float instance",
    "LAPACK (scipy.linalg.pinv / pinvh / inv) is an oracle: theorems take the inverse as a variable Kinv with hypotheses K*Kinv = I and/or Kinv*K = I "
    "(Moore-Penrose equations for duplicates); both products are checked numerically against the MODEL's matrix on every non-singular case "
    "(cond(K) > 1e10 excluded as numerically singular)",
    "covariance values, distances, drift / trend / mean values and the normalizer pair (nr, dn) are inputs of the model "
    "(C02/C03/C12/C13/C18 own them); theorems that pass through the normalizer assume dn (nr x) = x",
    "theorems at R ignore floating-point rounding; the same Gallina definitions are executed at OCaml floats in the correspondence",
    "harness (case generation, calls into gstools, comparison) and numpy.linalg.solve / cond used by the probes",
]


# --------------------------------------------------------------------------- probes on the implementation

_SEEN = {}


def _limit(key, cap=3):
    """at most `cap` replay files per violation key and run (the first ones; the rest are only counted)"""
    _SEEN[key] = _SEEN.get(key, 0) + 1
    return _SEEN[key] <= cap


def _viol(ctx, stage, what, spec, key, **kw):
    if not _limit(key):
        return
    case = dict(spec=jsonable(spec))
    for k, v in kw.items():
        case[k] = v.tolist() if hasattr(v, "tolist") else v
    ctx.violation("probe: " + stage, what, case, key=key)


def _worst(dev, tol):
    """(index, deviation, tolerance) of the entry with the largest deviation / tolerance ratio: the entry a message must show"""
    dev = np.asarray(dev, dtype=float).reshape(-1)
    tol = np.broadcast_to(np.asarray(tol, dtype=float), dev.shape).reshape(-1)
    with np.errstate(all="ignore"):
        r = np.where(tol > 0, dev / tol, np.where(dev > 0, np.inf, 0.0))
    r = np.where(np.isnan(r), np.inf, r)
    i = int(np.argmax(r))
    return i, float(dev[i]), float(tol[i])


def rep_noise(tb, val, lam_abs=None):
    """Round-off floor of probes that hand gstools a data set CONSTRUCTED in the harness (mean of two prepared values +
    trend, linear combinations, ...).  The values are doubles of magnitude |val_i| = |prepared_i + trend_i + mean_i|, so the
    construction is rounded at eps*|val_i|; gstools subtracts trend and mean again, which turns this into an ABSOLUTE
    perturbation eps*(|val_i| + |trend_i| + |mean_i|) of the prepared datum, independent of how small the prepared data
    (the model variance) are.  Its effect on the estimate is bounded by sum_i |lambda_i| * that perturbation; factor 8 for
    the handful of operations involved (x4 through a normalizer, whose derivative is < 4 on the generated data)."""
    n = tb["n"]
    val = np.abs(np.asarray(val, dtype=float))[:n]
    mag = val + np.abs(fval(tb["trend"], tb["X"], n)) + np.abs(fval(tb["mean"], tb["X"], n))
    lam = np.abs(tb["lam"][:n]) if lam_abs is None else lam_abs
    return (4.0 if tb["nz"] is not None else 1.0) * 8 * EPS * (mag @ lam)


def impl_results(spec, **kw):
    kr = build_krige(spec, Capture("pinv"), **kw)
    f, v = call_krige(kr, spec)
    fr, _ = call_krige(kr, spec, post_process=False)
    return kr, np.asarray(f, dtype=float), np.asarray(v, dtype=float), np.asarray(fr, dtype=float)


def probe_textbook(ctx, spec, stats):
    """implementation vs numpy.linalg.solve of the textbook system (independent covariance evaluation)"""
    tb = textbook(spec)
    if tb.get("singular") or tb["cond"] > COND_MAX:
        stats["excluded_singular"] = stats.get("excluded_singular", 0) + 1
        return None
    kr, f, v, fr = impl_results(spec)
    shape = f.shape
    f, v, fr = f.reshape(-1), v.reshape(-1), fr.reshape(-1)
    tf = tb["tf"]
    tv = tb["tv"]
    m = tb["Y"].shape[1]
    if f.shape != (m,):
        _viol(ctx, "textbook", "result has wrong size", spec, "textbook:shape", shape=list(shape))
        return tb
    if not np.all(np.abs(fr - tb["raw"]) <= tf):
        _viol(ctx, "textbook", "raw kriging estimate differs from the solution of the kriging system (target %d: dev %.3g, tol %.3g; cond %.3g)"
              % (_worst(np.abs(fr - tb["raw"]), tf) + (tb["cond"],)), spec, "textbook:estimate", impl=fr, expected=tb["raw"], tol=tf)
    if not np.all(np.abs(v - tb["var"]) <= tv):
        _viol(ctx, "textbook", "kriging variance differs from sill - k^T lambda of the kriging system (target %d: dev %.3g, tol %.3g)"
              % _worst(np.abs(v - tb["var"]), tv), spec, "textbook:variance", impl=v, expected=tb["var"], tol=tv)
    mean_t = fval(tb["mean"], tb["Y"], m)
    inr = in_range(tb["nz"], tb["raw"] + mean_t) & in_range(tb["nz"], fr + mean_t)
    tp = post_tol(tb["nz"], tb["raw"] + mean_t, tf) + 1e-9 * np.abs(tb["field"])
    with np.errstate(all="ignore"):
        dev = np.abs(f - tb["field"])
    if not np.all((dev <= tp) | (f == tb["field"]) | ~inr):
        _viol(ctx, "textbook", "post-processed field differs from denormalize(estimate + mean) + trend", spec,
              "textbook:field", impl=f, expected=tb["field"], tol=tp)
    return tb


def probe_metamorphic(ctx, rng, spec, stats, tb):
    """linearity, constants, drifts, chunking, permutations, mesh type, NaN conditions"""
    v = spec["variant"]
    X = np.asarray(spec["cond_pos"], dtype=float)
    n = X.shape[1]
    Y = expand_pos(spec)
    m = Y.shape[1]
    kr, f, var, fr = impl_results(spec)
    shape = f.shape
    sing = tb is None or tb.get("singular") or tb["cond"] > COND_MAX
    # ---- chunk sizes: identical results
    for cs in (1, 2, 3, m, m + 7, None):
        s2 = dict(spec, chunk_size=cs)
        _, f2, v2, _ = impl_results(s2)
        ctx.count(None, hist=dict(probe="chunk"))
        if not (C.bit_equal(f, f2) and C.bit_equal(var, v2)):
            _viol(ctx, "chunk", "result depends on chunk_size=%s" % cs, s2, "chunk", a=f, b=f2)
            break
    # ---- mesh type: structured = expanded point list
    if spec.get("mesh_type") == "structured":
        s2 = dict(spec, pos=[list(map(float, r)) for r in Y], mesh_type="unstructured")
        _, f2, v2, _ = impl_results(s2)
        ctx.count(None, hist=dict(probe="mesh"))
        if not (C.bit_equal(f.reshape(-1), f2) and C.bit_equal(var.reshape(-1), v2)
                and list(f.shape) == [len(a) for a in spec["pos"]]):
            _viol(ctx, "mesh", "structured result is not the reshaped result of the expanded point list", spec, "mesh",
                  structured=f, unstructured=f2)
    # ---- permutation of the target points (unstructured)
    if spec.get("mesh_type") != "structured" and m > 1:
        perm = rng.permutation(m)
        s2 = dict(spec, pos=[list(map(float, r[perm])) for r in Y])
        _, f2, v2, _ = impl_results(s2)
        ctx.count(None, hist=dict(probe="target_perm"))
        if not (C.close(f[perm], f2, rtol=1e-12, atol=1e-13) and C.close(var[perm], v2, rtol=1e-12, atol=1e-13 * (1 + kr.model.sill))):
            _viol(ctx, "target_perm", "permuting the target points does not permute the result", s2, "target_perm",
                  perm=perm, a=f[perm], b=f2)
    if sing:
        return
    tf = tb["tf"]
    tv = tb["tv"]
    # ---- lat-lon: the same points given with longitude + 360 (callable mean / trend excluded: user functions of lon)
    if (spec.get("geo") in ("latlon", "latlon_time") and not isinstance(spec.get("trend"), str)
            and not isinstance(spec.get("mean"), str) and not s_ext(spec)):
        sh = lambda P: [list(P[0]), [x + 360.0 for x in P[1]]] + [list(r) for r in P[2:]]
        s2 = dict(spec, cond_pos=sh(spec["cond_pos"]), pos=sh(spec["pos"]))
        _, f2, v2, fr2 = impl_results(s2)
        ctx.count(None, hist=dict(probe="lon_wrap"))
        if not (np.all(np.abs(fr2.reshape(-1) - fr.reshape(-1)) <= 2 * tf) and np.all(np.abs(v2.reshape(-1) - var.reshape(-1)) <= 2 * tv)):
            _viol(ctx, "lon_wrap", "result changes when all longitudes are given as lon + 360 (estimate, target %d: dev %.3g, tol %.3g; "
                  "variance, target %d: dev %.3g, tol %.3g)" % (_worst(np.abs(fr2.reshape(-1) - fr.reshape(-1)), 2 * tf)
                                                              + _worst(np.abs(v2.reshape(-1) - var.reshape(-1)), 2 * tv)), s2, "lon_wrap", a=fr, b=fr2)
    nz = tb["nz"]
    mean_t = fval(tb["mean"], tb["Y"], m)
    # ---- permutation of the conditioning points
    perm = rng.permutation(n)
    s2 = dict(spec, cond_pos=[list(map(float, r[perm])) for r in X], cond_val=[spec["cond_val"][i] for i in perm])
    if isinstance(spec.get("cond_err"), list):
        s2["cond_err"] = [spec["cond_err"][i] for i in perm]
    _, f2, v2, fr2 = impl_results(s2)
    ctx.count(None, hist=dict(probe="cond_perm"))
    if not (np.all(np.abs(fr2.reshape(-1) - fr.reshape(-1)) <= 2 * tf) and np.all(np.abs(v2.reshape(-1) - var.reshape(-1)) <= 2 * tv)):
        _viol(ctx, "cond_perm", "result depends on the order of the conditioning points (estimate, target %d: dev %.3g, tol %.3g; "
              "variance, target %d: dev %.3g, tol %.3g)" % (_worst(np.abs(fr2.reshape(-1) - fr.reshape(-1)), 2 * tf)
                                                          + _worst(np.abs(v2.reshape(-1) - var.reshape(-1)), 2 * tv)), s2, "cond_perm", perm=perm, a=fr, b=fr2)
    # ---- NaN conditioning values are ignored
    # (not for ExtDrift: the external drift array is not filtered together with the values, gstools raises
    #  "wrong number of ext. drifts" -- an input-format limitation, no wrong estimate; see design/C05.md)
    if n > tb["N"] - n + 3 and not isinstance(spec.get("cond_err"), list) and not s_ext(spec):
        drop = int(rng.integers(n))
        cv = list(spec["cond_val"])
        cv[drop] = float("nan")
        keep = [i for i in range(n) if i != drop]
        s_nan = dict(spec, cond_val=cv)
        s_rm = dict(spec, cond_pos=[list(map(float, r[keep])) for r in X], cond_val=[spec["cond_val"][i] for i in keep])
        try:
            _, fa, va, _ = impl_results(s_nan)
            _, fb, vb, _ = impl_results(s_rm)
            ctx.count(None, hist=dict(probe="nan_cond"))
            if not (C.bit_equal(fa, fb) and C.bit_equal(va, vb)):
                _viol(ctx, "nan_cond", "a NaN conditioning value is not ignored", s_nan, "nan_cond", with_nan=fa, removed=fb)
        except Exception as e:  # noqa
            _viol(ctx, "nan_cond", "exception with a NaN conditioning value: %r" % (e,), s_nan, "nan_cond:exc")
    # ---- linearity in the prepared data (no normalizer: prepared = val - trend - mean)
    if nz is None:
        a, b = float(np.round(rng.normal(), 3)), float(np.round(rng.normal(), 3))
        off = fval(tb["trend"], tb["X"], n) + fval(tb["mean"], tb["X"], n)
        v1 = np.asarray(spec["cond_val"], dtype=float)
        v2_ = rng.normal(size=n) + off
        v3 = a * v1 + b * v2_ + (1 - a - b) * off
        r = []
        for vv in (v1, v2_, v3):
            k_, _, _, frx = impl_results(spec, cond_val=vv)
            r.append((frx.reshape(-1), np.abs(np.asarray(k_._krige_cond))))
        Ki = np.abs(np.asarray(kr._krige_mat))
        iso_pos, _ = kr.pre_pos([np.asarray(a_, dtype=float) for a_ in spec["pos"]], spec.get("mesh_type", "unstructured"))
        kk = np.abs(kr._get_krige_vecs(iso_pos, (0, m), kr._pre_ext_drift(m, ext_drift_at(spec, Y) if s_ext(spec) else None), False))
        sc = (abs(a) * r[0][1] + abs(b) * r[1][1] + r[2][1]) @ (Ki @ kk)
        ctx.count(None, hist=dict(probe="linearity"))
        dev = np.abs(r[2][0] - (a * r[0][0] + b * r[1][0]))
        tl = 1e-9 * sc + rep_noise(tb, np.maximum(np.maximum(np.abs(v1), np.abs(v2_)), np.abs(v3)), (Ki @ kk)[:n]) + 1e-300
        if not np.all(dev <= tl):
            i_, d_, t_ = _worst(dev, tl)
            _viol(ctx, "linearity", "estimate is not linear in the prepared data (target %d: dev %.3g, tol %.3g)" % (i_, d_, t_), spec,
                  "linearity", a=a, b=b, v2=v2_, dev=dev, tol=tl)
    # ---- unbiased variants reproduce constants (through trend and normalizer) and their drifts
    lam1 = np.abs(tb["lam"][:n]).sum(axis=0)
    if s_unb(spec):
        c = float(np.round(rng.uniform(0.5, 3.0), 3))
        # prepared data = nr(val - trend) - mean: without normalizer the (possibly callable) mean is added to the data so that
        # the PREPARED data are the constant; with a normalizer the mean is a constant and cancels in the round trip
        mX = fval(tb["mean"], tb["X"], n) if nz is None else 0.0
        mY = fval(tb["mean"], tb["Y"], m) if nz is None else 0.0
        vals = c + fval(tb["trend"], tb["X"], n) + mX
        _, fc, vc, _ = impl_results(spec, cond_val=vals)
        y = float(norm_fwd(nz, np.array([c]))[0])
        t0 = 1e3 * tb["cond"] * EPS * ((abs(y) + np.abs(mX).max() if nz is None else abs(y)) * (1 + lam1)) + 1e-12
        exp = c + fval(tb["trend"], tb["Y"], m) + mY
        tp = post_tol(nz, np.full(m, y), t0) + 1e-9 * np.abs(exp)
        ctx.count(None, hist=dict(probe="constants"))
        if not np.all(np.abs(fc.reshape(-1) - exp) <= tp):
            _viol(ctx, "constants", "constant data %g are not reproduced by the unbiased estimator (max dev %.3g)" % (
                c, np.abs(fc.reshape(-1) - exp).max()), dict(spec, cond_val=list(map(float, vals))), "constants", impl=fc, expected=exp)
    if tb["N"] - n - (1 if s_unb(spec) else 0) > 0 and nz is None:
        u = 1 if s_unb(spec) else 0
        for l in range(tb["N"] - n - u):
            fl = tb["K"][n + u + l, :n]
            gl = tb["k"][n + u + l]
            vals = fl + fval(tb["trend"], tb["X"], n) + fval(tb["mean"], tb["X"], n)
            _, fd, _, _ = impl_results(spec, cond_val=vals)
            exp = gl + fval(tb["trend"], tb["Y"], m) + fval(tb["mean"], tb["Y"], m)
            t0 = 1e3 * tb["cond"] * EPS * (np.abs(fl).max() * (1 + lam1) + np.abs(gl)) + 1e-12
            ctx.count(None, hist=dict(probe="drifts"))
            if not np.all(np.abs(fd.reshape(-1) - exp) <= t0 + 1e-9 * np.abs(exp)):
                _viol(ctx, "drifts", "data equal to drift %d are not reproduced (max dev %.3g)" % (l, np.abs(fd.reshape(-1) - exp).max()),
                      dict(spec, cond_val=list(map(float, vals))), "drifts", impl=fd, expected=exp)


def probe_exact_at_data(ctx, spec, stats, kr=None, label="exact_at_data", extra=None):
    """C06: kriging at cond_pos with zero measurement error returns the data and zero variance
    (kr: an existing, possibly updated, object whose current settings are described by spec)"""
    s2 = dict(spec, pos=spec["cond_pos"], mesh_type="unstructured", chunk_size=spec.get("chunk_size"))
    if extra:
        s2.update(extra)
    tb = textbook(s2)
    if tb.get("singular") or tb["cond"] > COND_MAX:
        stats["excluded_singular"] = stats.get("excluded_singular", 0) + 1
        return
    if kr is None:
        kr, f, v, fr = impl_results(s2)
    else:
        f, v = call_krige(kr, s2)
        f, v = np.asarray(f, dtype=float), np.asarray(v, dtype=float)
    val = np.asarray(spec["cond_val"], dtype=float)
    n = len(val)
    # error of lambda = Kinv K e_m is of order cond*eps; it is multiplied by the data / the rhs
    d = np.abs(tb["d"]).max() + 1e-300
    t0 = np.full(n, 1e3 * tb["cond"] * EPS * d * tb["N"] + 1e-12)
    mean_c = fval(tb["mean"], tb["X"], n)
    t0 = t0 + tb["noise_f"]          # covariance evaluation noise incl. the modulus of continuity at a rounding-level lag
    tp = post_tol(tb["nz"], tb["d"][:n] + mean_c, t0) + 1e-9 * np.abs(val)
    sill = tb["sill"]
    tv = 1e3 * tb["cond"] * EPS * np.abs(tb["K"]).max() * tb["N"] + 1e-12 * sill + tb["noise_v"]
    dev = np.abs(f - val)
    if not np.all(dev <= tp):
        _viol(ctx, label, "kriged field at the conditioning points differs from the conditioning values "
              "(point %d: dev %.3g, tol %.3g; cond %.3g)" % (_worst(dev, tp) + (tb["cond"],)), s2, "exact:value", impl=f, expected=val, tol=tp)
    if not np.all(np.abs(v) <= tv):
        _viol(ctx, label, "kriging variance at the conditioning points is not zero (max %.3g, tol %.3g)" % (np.abs(v).max(), tv),
              s2, "exact:variance", impl=v)


def probe_var_bounds(ctx, spec, stats):
    kr, f, v, fr = impl_results(spec)
    sill = float(kr.model.sill)
    if not np.all(v >= 0):
        _viol(ctx, "variance_nonneg", "negative kriging variance", spec, "var:negative", impl=v)
    if not s_unb(spec) and s_fdrift(spec) is None and not s_ext(spec):
        tb = textbook(spec)
        if tb.get("singular") or tb["cond"] > COND_MAX:
            stats["excluded_singular"] = stats.get("excluded_singular", 0) + 1
            return
        tv = tb["tv"]
        if not np.all(v.reshape(-1) <= sill + tv):
            _viol(ctx, "simple_variance_le_sill", "simple kriging variance exceeds the sill (max excess %.3g)" % (v.max() - sill),
                  spec, "var:above_sill", impl=v, sill=sill)


def probe_duplicates(ctx, rng, spec, stats):
    """C06: a duplicated conditioning location solved with the pseudo-inverse acts as ONE point carrying the mean"""
    X = np.asarray(spec["cond_pos"], dtype=float)
    val = np.asarray(spec["cond_val"], dtype=float)
    n = len(val)
    a = int(rng.integers(n))
    tr_a0 = fval(spec.get("trend"), X[:, a:a + 1], 1)[0]
    other = float(val[a] + np.round(rng.normal(), 3)) if spec.get("normalizer") is None else float(tr_a0 + (val[a] - tr_a0) * 1.3)
    base = dict(spec, cond_err="nugget", exact=False, pseudo_inv=True)
    base["model"] = dict(spec["model"], kw=dict(spec["model"]["kw"], nugget=0.0))
    if base.get("pseudo_inv_type") == "callable":
        base["pseudo_inv_type"] = "pinv"
    Xd = np.concatenate([X, X[:, a:a + 1]], axis=1)
    s_dup = dict(base, cond_pos=[list(map(float, r)) for r in Xd], cond_val=list(map(float, val)) + [other])
    tbm = textbook(base)   # for tolerances (merged system has the same matrix as the original one)
    if tbm.get("singular") or tbm["cond"] > 1e8:
        stats["excluded_singular"] = stats.get("excluded_singular", 0) + 1
        return
    # merged point carries the mean of the PREPARED values (identical to the mean of the values without normalizer)
    nz = tbm["nz"]
    tr_a = fval(tbm["trend"], X[:, a:a + 1], 1)[0]
    pa, pb = norm_fwd(nz, np.array([val[a] - tr_a]))[0], norm_fwd(nz, np.array([other - tr_a]))[0]
    merged_val = float(norm_bwd(nz, np.array([(pa + pb) / 2]))[0] + tr_a)
    vm = val.copy()
    vm[a] = merged_val
    s_mrg = dict(base, cond_val=list(map(float, vm)))
    try:
        _, fd, vd, frd = impl_results(s_dup)
    except Exception as e:  # noqa
        _viol(ctx, "duplicates", "exception with duplicated conditioning points: %r" % (e,), s_dup, "dup:exc")
        return
    _, fm, vmr, frm = impl_results(s_mrg)
    tbm2 = textbook(s_mrg)
    # threshold = pseudo-inverse solve error of the (rank deficient) duplicated system, relative to the accumulated
    # magnitudes |d|^T|lambda| of the merged system (10x: one extra, exactly dependent row)  +  the representation
    # round-off of the constructed merged datum / duplicate value at the magnitude of the RAW values (rep_noise)
    vmag = np.abs(val).copy()
    vmag[a] = max(abs(val[a]), abs(other), abs(merged_val))
    d_dup = np.concatenate([tbm2["d"], [abs(pa) + abs(pb)]])       # prepared data of the duplicated system (magnitudes)
    tf = 10 * tol_field(tbm["cond"], d_dup, np.concatenate([tbm["lam"], tbm["lam"][a:a + 1]]), tbm2["raw"]) + rep_noise(tbm, vmag)
    tv = 10 * tbm2["tv"]
    df_, dv_ = np.abs(frd.reshape(-1) - frm.reshape(-1)), np.abs(vd.reshape(-1) - vmr.reshape(-1))
    if not np.all(df_ <= tf):
        i_, d_, t_ = _worst(df_, tf)
        _viol(ctx, "duplicates", "duplicated point does not act as one point carrying the mean (target %d: dev %.3g, tol %.3g)" % (i_, d_, t_),
              s_dup, "dup:mean", dup=frd, merged=frm, tol=tf)
    if not np.all(dv_ <= tv):
        i_, d_, t_ = _worst(dv_, tv)
        _viol(ctx, "duplicates", "variance with a duplicated point differs from the merged system (target %d: dev %.3g, tol %.3g)" % (i_, d_, t_),
              s_dup, "dup:variance", dup=vd, merged=vmr, tol=tv)


def _new_values(rng, spec, X):
    """conditioning values for the points X in the style of gen_spec (positive after detrending if normalised)"""
    n = X.shape[1]
    base = rng.normal(size=n) * math.sqrt(spec["model"]["kw"]["var"])
    if spec.get("normalizer") is not None and spec["variant"] != "Detrended":
        base = gen_norm_data(rng, spec["normalizer"], n)
    return [float("%.10g" % x) for x in base + fval(spec.get("trend"), X, n)]


def probe_update_sequence(ctx, rng, spec, stats, zero_error=False):
    """ONE Krige object updated the documented ways -- set_condition with new values / positions / cond_err, in-place
    model changes (nugget, var, len_scale, anis, angles) followed by set_condition(), krige.model = other model,
    set_drift_functions + set_condition() -- must give what a freshly built object with the final settings gives
    (bit-equal) and what the textbook system of the final settings gives; with zero_error (C06) it must also be exact
    at the final conditioning points."""
    cur = jsonable(spec)
    cur["pseudo_inv_type"] = "pinv" if cur.get("pseudo_inv_type") == "callable" else cur.get("pseudo_inv_type", "pinv")
    if cur["model"]["cls"] in ("TPLExponential", "TPLGaussian", "TPLStable"):
        # the variance of these classes is var_raw * intensity(len_scale, len_low, hurst): an in-place len_scale change moves
        # var, and var -> var_raw -> var is not bit-exact, so "fresh object from the present parameter values" is not a
        # bit-level statement for them; the histories (a class-agnostic statement about caches) run on the other classes
        stats["history_skipped_tpl"] = stats.get("history_skipped_tpl", 0) + 1
        return
    spec = cur
    cur = jsonable(spec)
    kr = build_krige(cur)
    geo, v = cur["geo"], cur["variant"]
    fd, n = len(cur["cond_pos"]), len(cur["cond_val"])
    kw = cur["model"]["kw"]
    plain = geo in ("plain", "time")
    dim = kw.get("dim", 0)
    sdim = dim - (1 if geo == "time" else 0)
    geom = (["anis"] if plain and dim >= 2 else []) + (["angles"] if plain and sdim >= 2 else []) + ["model"]
    others = ["vals", "var", "len", "newpos"]
    if not zero_error or cur.get("exact"):
        others.append("nugget")
    if not cur.get("exact") and not zero_error:
        others.append("cond_err")
    if s_fdrift(cur) is not None:
        others.append("drift")
    others += ["trend", "reassign"]
    if v in ("Simple", "Krige"):
        others.append("mean")
    if v != "Detrended":
        others.append("normalizer")
    if geo in ("latlon", "latlon_time"):
        geom.append("geoscale")
    k = int(rng.integers(3, 6))
    picks = [str(rng.choice(geom))] + [str(x) for x in rng.choice(geom + others, size=k - 1)]
    order = rng.permutation(len(picks))
    steps = []
    state = dict(last=None, last_args=None)

    def observe():
        """a call on the updated object -- targets: the spec's, new ones, a set CLOSE to the previous one (relative shift
        3e-6: numpy.allclose calls them equal), or the stored positions; return_var True / False -- compared with the
        same call on a fresh object built from the present settings (bit-equal), and krige.pos with the requested targets"""
        mode = int(rng.integers(4 if state["last"] is not None else 3))
        rv = bool(rng.integers(2))
        if mode == 0:
            pos_arg, mt, full = [np.asarray(a, dtype=float) for a in cur["pos"]], cur.get("mesh_type", "unstructured"), expand_pos(cur)
        elif mode == 1:
            full = np.asarray(gen_points(rng, geo, fd, int(rng.integers(1, 7))), dtype=float)
            pos_arg, mt = full, "unstructured"
        elif mode == 2:
            base = state["last"] if state["last"] is not None else expand_pos(cur)
            full = np.array(base, dtype=float) * (1.0 + 3e-6)
            pos_arg, mt = full, "unstructured"
        else:
            pos_arg, mt, full = None, None, state["last"]
        args = dict(chunk_size=cur.get("chunk_size"), return_var=rv)
        if s_ext(cur):
            args["ext_drift"] = ext_drift_at(cur, full)
        r1 = kr(pos_arg, **(args if mt is None else dict(args, mesh_type=mt)))
        if pos_arg is not None:
            state["last"], state["last_args"] = full, (pos_arg, mt)
        fp, fmt = state["last_args"]
        fresh = build_krige(cur)
        r2 = fresh(fp, mesh_type=fmt, **args)
        name = "call[%s,return_var=%s]" % (["spec targets", "new targets", "close targets", "stored positions"][mode], rv)
        steps.append(name)
        r1 = r1 if isinstance(r1, tuple) else (r1,)
        r2 = r2 if isinstance(r2, tuple) else (r2,)
        same = len(r1) == len(r2) and all(C.bit_equal(np.ravel(a), np.ravel(b)) for a, b in zip(r1, r2))
        p1 = np.concatenate([np.ravel(a) for a in kr.pos]) if kr.pos is not None else np.zeros(0)
        p2 = np.concatenate([np.ravel(a) for a in fresh.pos])
        pos_ok = p1.shape == p2.shape and bool(np.all(p1 == p2)) and kr.mesh_type == fresh.mesh_type
        if same and pos_ok:
            return False
        with np.errstate(all="ignore"):
            dv = max(float(np.nanmax(np.abs(np.ravel(a) - np.ravel(b)))) if np.size(a) == np.size(b) and np.size(a) else float("nan")
                     for a, b in zip(r1, r2))
        _viol(ctx, "history", "after the history [%s] the object %s (max deviation %.3g)" % (
            "; ".join(steps), "returns something else than a fresh object with the present settings" if not same
            else "stores positions (krige.pos) that are not the requested targets", dv),
            dict(cur, history=list(steps), initial=jsonable(spec), targets=[list(map(float, r)) for r in full]), "history",
            updated=np.ravel(r1[0]), fresh=np.ravel(r2[0]), pos_updated=p1, pos_requested=p2)
        return True

    try:
        if _run_history(rng, kr, cur, picks, order, steps, geo, v, fd, n, dim, sdim, plain, zero_error, observe):
            return
    except np.linalg.LinAlgError:
        if cur.get("pseudo_inv", True):
            raise
        # scipy.linalg.inv refuses an exactly singular intermediate system (pseudo_inv=False): documented behaviour
        stats["history_singular_inv"] = stats.get("history_singular_inv", 0) + 1
        return
    final = cur
    return _finish_history(ctx, spec, kr, final, steps, stats, zero_error)


def _run_history(rng, kr, cur, picks, order, steps, geo, v, fd, n, dim, sdim, plain, zero_error, observe):
    """returns True when an observation already recorded a violation"""
    if observe():
        return True
    for idx in order:
        st = picks[idx]
        kw = cur["model"]["kw"]
        X = np.asarray(cur["cond_pos"], dtype=float)
        if st == "vals":
            off = np.abs(np.round(rng.normal(size=n) * 0.2, 4))
            nv = [float(x) for x in np.asarray(cur["cond_val"]) + off]
            kr.set_condition(cond_val=np.array(nv))
            cur["cond_val"] = nv
        elif st == "nugget":
            x = float("%.6g" % (kw["var"] * rng.uniform(0.05, 0.6)))
            kr.model.nugget = x
            kw["nugget"] = x
            kr.set_condition()
        elif st == "var":
            x = float("%.6g" % (kw["var"] * rng.uniform(0.5, 2.0)))
            kr.model.var = x
            kw["var"] = x
            kr.set_condition()
        elif st == "len":
            x = float(np.round(kw["len_scale"] * rng.uniform(0.6, 1.6), 4))
            kr.model.len_scale = x
            kw["len_scale"] = x
            kr.set_condition()
        elif st == "anis":
            x = [float(np.round(rng.uniform(0.3, 1.6), 3)) for _ in range(dim - 1)]
            kr.model.anis = x
            kw["anis"] = x
            kr.set_condition()
        elif st == "angles":
            x = [float(np.round(rng.uniform(-3, 3), 3)) for _ in range(1 if sdim == 2 else 3)]
            kr.model.angles = x
            kw["angles"] = x
            kr.set_condition()
        elif st == "model":
            ms, _, _ = gen_model(rng, dim=(dim or None), geo=geo, geom_mode=int(rng.integers(2)),
                                 classes=[c for c in MODELS if c not in ("TPLExponential", "TPLGaussian", "TPLStable")])
            if plain and ms["kw"].get("dim") != dim:
                continue
            ms["kw"]["nugget"] = kw["nugget"] if zero_error else ms["kw"]["nugget"]
            kr.model = build_model(ms)
            cur["model"] = ms
        elif st == "newpos":
            nx = gen_points(rng, geo, fd, n)
            nX = np.asarray(nx, dtype=float)
            nv = _new_values(rng, cur, nX)
            args = dict(cond_pos=nX, cond_val=np.array(nv))
            if s_ext(cur):
                args["ext_drift"] = ext_drift_at(cur, nX)
            kr.set_condition(**args)
            cur["cond_pos"], cur["cond_val"] = nx, nv
        elif st == "cond_err":
            ce = ["nugget", float("%.6g" % (kw["var"] * rng.uniform(0, 0.3))),
                  [float("%.6g" % (kw["var"] * x)) for x in rng.uniform(0, 0.3, n)]][int(rng.integers(3))]
            kr.set_condition(cond_err=np.array(ce) if isinstance(ce, list) else ce)
            cur["cond_err"] = ce
        elif st == "drift":
            # only drift bases the n points can determine (number of functions + 1 <= n - 2)
            ne_ = len(s_ext(cur))
            opts = [["x0"]] + (["linear", 1] if n >= fd + 3 + ne_ else []) + (
                ["quadratic", 2] if n >= len(poly_selects(fd, 2)) + 4 + ne_ and geo != "latlon_time" else [])
            d = opts[int(rng.integers(len(opts)))]
            kr.set_drift_functions([DRIFTS[x] for x in d] if isinstance(d, list) else d)
            kr.set_condition()
            cur["drift"] = d
        elif st == "mean":
            nzc = s_nz(cur)
            x = ([None, 0.0, 0.3, -0.2] if nzc is not None else [None, 0.0, float(np.round(rng.normal(), 3)), "lin", "quad"])
            x = x[int(rng.integers(len(x)))]
            kr.mean = fobj(x)
            cur["mean"] = x
        elif st == "trend":
            vals_ = np.asarray(cur["cond_val"], dtype=float)
            if positive_only(s_nz(cur)):
                x = float(np.round(vals_.min() - rng.uniform(0.6, 1.5), 3))     # keeps val - trend inside the normalize range
            elif s_nz(cur) is not None:
                # real-line normalizers (exp / power of the detrended data): keep the detrended data at their magnitude
                ot = cur.get("trend")
                x = ot if (ot is None or isinstance(ot, str)) else float(np.round(float(ot) + rng.normal() * 0.3, 3))
            else:
                x = ([float(np.round(rng.normal(), 3)), "quad", "sin", "lin"] + ([None] if v != "Detrended" else []))
                x = x[int(rng.integers(len(x)))]
            kr.trend = fobj(x)
            cur["trend"] = x
        elif st == "normalizer":
            vals_ = np.asarray(cur["cond_val"], dtype=float) - fval(cur.get("trend"), X, n)
            ok_ = bool(vals_.min() > 0.3) and not isinstance(s_mean(cur), str)
            small_ = bool(np.abs(vals_).max() < 20) and not isinstance(s_mean(cur), str)
            cands = [None] + ([["LogNormal"], ["BoxCox", 0.5]] if ok_ else []) + (
                [["Modulus", 1.0], ["YeoJohnson", 0.5], ["Manly", 0.5]] if small_ else [])
            x = cands[int(rng.integers(len(cands)))]
            kr.normalizer = build_normalizer(x)
            cur["normalizer"] = x
        elif st == "reassign":
            x = float(np.round(kw["len_scale"] * rng.uniform(0.6, 1.6), 4))
            kr.model.len_scale = x          # in-place edit ...
            kw["len_scale"] = x
            kr.model = kr.model             # ... and the same object assigned again
        elif st == "geoscale":
            ms = jsonable(cur["model"])
            ms["kw"]["geo_scale"] = float(np.round(kw["geo_scale"] * rng.choice([0.5, 2.0, 1.7]), 6))
            kr.model = build_model(ms)      # a model that differs in geo_scale only
            cur["model"] = ms
        steps.append(st)
        if observe():
            return True
    return False


def _finish_history(ctx, spec, kr, final, steps, stats, zero_error):
    f1, v1 = call_krige(kr, final)
    f1, v1 = np.asarray(f1, dtype=float), np.asarray(v1, dtype=float)
    fresh = build_krige(final)
    f2, v2_ = call_krige(fresh, final)
    ctx.count(None, hist=dict(probe="update_sequence", update_steps="+".join(sorted(set(steps)))))
    case_spec = dict(final, history=steps, initial=jsonable(spec))
    hist = "; ".join(steps)
    if not (C.bit_equal(f1, f2) and C.bit_equal(v1, v2_)):
        with np.errstate(all="ignore"):
            d1 = float(np.nanmax(np.abs(f1 - np.asarray(f2)))); d2 = float(np.nanmax(np.abs(v1 - np.asarray(v2_))))
        _viol(ctx, "update_sequence", "an updated Krige object differs from a fresh object with the same final settings after: %s "
              "(max field dev %.3g, max variance dev %.3g)" % (hist, d1, d2), case_spec, "update_sequence", updated=f1, fresh=np.asarray(f2))
    tb = textbook(final)
    if tb.get("singular") or tb["cond"] > COND_MAX:
        stats["excluded_singular"] = stats.get("excluded_singular", 0) + 1
        return
    fr1 = np.asarray(call_krige(kr, final, post_process=False)[0], dtype=float).reshape(-1)
    tf = tb["tf"]
    tv = tb["tv"]
    if not (np.all(np.abs(fr1 - tb["raw"]) <= tf) and np.all(np.abs(v1.reshape(-1) - tb["var"]) <= tv)):
        _viol(ctx, "update_sequence", "an updated Krige object differs from the directly solved kriging system of its final settings after: %s "
              "(estimate, target %d: dev %.3g, tol %.3g; variance, target %d: dev %.3g, tol %.3g; cond %.3g)" % (
                  (hist,) + _worst(np.abs(fr1 - tb["raw"]), tf) + _worst(np.abs(v1.reshape(-1) - tb["var"]), tv) + (tb["cond"],)),
              case_spec, "update_sequence:textbook", updated=fr1, expected=tb["raw"])
    if zero_error:
        # a call on points next to the data (relative shift 3e-6) directly before the call AT the data
        near = np.asarray(final["cond_pos"], dtype=float) * (1.0 + 3e-6)
        call_krige(kr, final, pos=near)
        probe_exact_at_data(ctx, final, stats, kr=kr, label="exact_after_update", extra=dict(history=steps + ["call[next to the data]"]))


# --------------------------------------------------------------------------- ill-conditioned layouts, replicates, auto-fit

def gen_illcond(rng, n, variant, cls="Gaussian"):
    """smooth model with a correlation length that is long against the point spacing, many partly clustered points in a
    10 x 10 domain: the kriging matrix has cond 1e12 and more but is solvable with the pseudo-inverse; the round-off of
    k^T K+ k is then many orders above machine precision"""
    kw = dict(dim=2, var=float(np.round(rng.uniform(0.5, 2.0), 3)), len_scale=float(np.round(rng.uniform(5, 20), 3)), nugget=0.0)
    if cls == "Matern":
        kw["nu"] = 2.5
    k = n // 3
    centres = rng.uniform(1, 9, size=(2, 4))
    cl = centres[:, rng.integers(4, size=k)] + rng.normal(size=(2, k)) * 0.15
    X = np.concatenate([rng.uniform(0, 10, size=(2, n - k)), cl], axis=1)
    m = 12
    Y = rng.uniform(0, 10, size=(2, m))
    Y[:, :3] = X[:, rng.integers(n, size=3)]
    spec = dict(variant=variant, model=dict(cls=cls, kw=kw), geo="plain",
                cond_pos=[[float("%.6g" % x) for x in r] for r in X], cond_val=[float("%.6g" % x) for x in rng.normal(size=n)],
                trend=None, normalizer=None, exact=False, cond_err="nugget", pseudo_inv=True,
                pseudo_inv_type=str(rng.choice(["pinv", "pinvh"])), pos=[[float("%.6g" % x) for x in r] for r in Y],
                mesh_type="unstructured", chunk_size=None)
    if variant == "Simple":
        spec["mean"] = float(np.round(rng.normal(), 2))
    return spec


def probe_illcond(ctx, drv, spec, stats, model_side=True):
    """C06: the variance is never negative -- exactly, also when k^T K+ k carries a round-off of 1e-4; (Simple) it does
    not exceed the sill by more than the round-off of the accumulated terms; the model (same pseudo-inverse) agrees"""
    kr = build_krige(spec, Capture("pinv"))
    f, v = call_krige(kr, spec)
    v = np.asarray(v, dtype=float).reshape(-1)
    sill = float(kr.model.sill)
    ctx.count(spec_key(spec, ("illcond",)), hist=dict(probe="illcond", n_cond=len(spec["cond_val"])))
    if not np.all(v >= 0):
        _viol(ctx, "variance_nonneg", "negative kriging variance %.3g on an ill-conditioned layout (%d points, len_scale %g)" % (
            v.min(), len(spec["cond_val"]), spec["model"]["kw"]["len_scale"]), spec, "var:negative", impl=v)
    Y = expand_pos(spec)
    iso_pos, _ = kr.pre_pos([np.asarray(a, dtype=float) for a in spec["pos"]], "unstructured")
    k = np.asarray(kr._get_krige_vecs(iso_pos, (0, Y.shape[1]), kr._pre_ext_drift(Y.shape[1], None), False))
    Ki = np.asarray(kr._krige_mat)
    se = np.einsum("it,it->t", np.abs(k), np.abs(Ki) @ np.abs(k))
    if spec["variant"] in ("Simple", "Detrended") and not np.all(v <= sill + 1e3 * EPS * se):
        _viol(ctx, "simple_variance_le_sill", "simple kriging variance exceeds the sill by %.3g (round-off scale %.3g)" % (
            (v - sill).max(), (1e3 * EPS * se).max()), spec, "var:above_sill", impl=v, sill=sill)
    if model_side and drv is not None:
        correspond_case(ctx, drv, spec, stats)


def probe_replicates(ctx, rng, stations, reps, stats, variant="Ordinary"):
    """C06: many replicated measurements per location (coincident conditioning points) with the pseudo-inverse act as
    one point per location carrying the mean of its replicates"""
    Xs = rng.uniform(0, 10, size=(2, stations))
    base = rng.normal(size=stations)
    vals = base[:, None] + 0.3 * rng.normal(size=(stations, reps))
    X = np.repeat(Xs, reps, axis=1)
    Y = rng.uniform(0, 10, size=(2, 9))
    Y[:, 0] = Xs[:, 0]
    common = dict(variant=variant, model=dict(cls="Exponential", kw=dict(dim=2, var=1.3, len_scale=3.0, nugget=0.0)), geo="plain",
                  trend=None, normalizer=None, exact=False, cond_err="nugget", pseudo_inv=True, pseudo_inv_type="pinv",
                  pos=[list(map(float, r)) for r in Y], mesh_type="unstructured", chunk_size=None)
    if variant == "Simple":
        common["mean"] = 0.2
    s_rep = dict(common, cond_pos=[list(map(float, r)) for r in X], cond_val=list(map(float, vals.reshape(-1))))
    s_mrg = dict(common, cond_pos=[list(map(float, r)) for r in Xs], cond_val=list(map(float, vals.mean(axis=1))))
    tb = textbook(s_mrg)
    _, fr, vr, _ = impl_results(s_rep)
    ctx.count(("replicates", stations, reps, variant), hist=dict(probe="replicates", n_cond=stations * reps))
    # the replicated matrix has `stations*reps` rows of rank `stations` (+1): effective conditioning = merged system * reps
    tf = 100 * reps * tb["tf"] + 1e-9
    tv = 100 * reps * tb["tv"] + 1e-9
    df, dv = np.abs(fr.reshape(-1) - tb["field"]), np.abs(vr.reshape(-1) - tb["var"])
    stats["replicates_max_dev_over_tol"] = max(stats.get("replicates_max_dev_over_tol", 0.0), float((df / tf).max()), float((dv / tv).max()))
    if not (np.all(df <= tf) and np.all(dv <= tv)):
        _viol(ctx, "replicates", "%d stations x %d replicates with the pseudo-inverse do not act as one point per station carrying the mean "
              "(max estimate dev %.3g, max variance dev %.3g)" % (stations, reps, df.max(), dv.max()),
              dict(common, stations=stations, replicates=reps, cond_pos=s_rep["cond_pos"], cond_val=s_rep["cond_val"]), "dup:replicates",
              impl=fr, expected=tb["field"])


def model_spec_of(model):
    """spec of a (fitted) CovModel from its public parameters"""
    kw = dict(var=float(model.var), len_scale=float(model.len_scale), nugget=float(model.nugget))
    if model.latlon:
        kw.update(latlon=True, geo_scale=float(model.geo_scale))
        if model.temporal:
            kw.update(temporal=True, anis=float(model.anis[-1]))
    else:
        kw["dim"] = int(model.dim)
        if model.dim > 1:
            kw["anis"] = [float(x) for x in model.anis]
            kw["angles"] = [float(x) for x in model.angles]
        if model.temporal:
            kw["temporal"] = True
    for a in model.opt_arg:
        kw[a] = float(getattr(model, a))
    return dict(cls=type(model).__name__, kw=kw)


def probe_fit_variogram(ctx, rng, stats, geo, geom_mode, variant, via_set_condition):
    """Krige(..., fit_variogram=True) / set_condition(fit_variogram=True): afterwards the object must solve the kriging
    system of ITS FINAL (fitted) model -- conditioning points and targets in the same (fitted) geometry"""
    import gstools as gs
    dim = 2 if geo == "plain" else None
    ms, fd, geo = gen_model(rng, dim=dim, geo=geo, classes=["Gaussian", "Exponential", "Spherical", "Stable"], geom_mode=geom_mode)
    ms["kw"]["nugget"] = 0.0
    n = 40
    spec = dict(variant=variant, model=ms, geo=geo, trend=None, normalizer=None, exact=False, cond_err="nugget", pseudo_inv=True,
                pseudo_inv_type="pinv", mesh_type="unstructured", chunk_size=None)
    if variant == "Simple":
        spec["mean"] = 0.1
    if variant == "Universal":
        spec["drift"] = "linear"
    spec["cond_pos"] = gen_points(rng, geo, fd, n)
    X = np.asarray(spec["cond_pos"], dtype=float)
    sc = 10.0 if geo == "plain" else 60.0
    vals = np.sin(X[0] / sc * 4.0) + 0.6 * np.cos(X[1] / sc * 3.0) + 0.15 * rng.normal(size=n)
    spec["cond_val"] = [float("%.8g" % x) for x in vals]
    spec["pos"] = gen_points(rng, geo, fd, 8)
    for a in range(fd):
        spec["pos"][a][0] = spec["cond_pos"][a][3]
    kw = krige_kwargs(spec)
    cls = getattr(gs.krige, variant)
    model = build_model(ms)
    try:
        if via_set_condition:
            kr = cls(model, X, np.asarray(spec["cond_val"]) * 0.5, **kw)
            kr.set_condition(cond_val=np.asarray(spec["cond_val"]), fit_variogram=True)
        else:
            kr = cls(model, X, np.asarray(spec["cond_val"]), fit_variogram=True, **kw)
    except (RuntimeError, ValueError) as e:     # the optimiser may fail to converge on a layout: not a kriging result
        stats["fit_failed"] = stats.get("fit_failed", 0) + 1
        return
    final = dict(spec, model=model_spec_of(kr.model))
    ctx.count(("fit_variogram", geo, geom_mode, variant, via_set_condition), hist=dict(probe="fit_variogram", geo=geo))
    tb = textbook(final)
    if tb.get("singular") or tb["cond"] > COND_MAX:
        stats["excluded_singular"] = stats.get("excluded_singular", 0) + 1
        return
    fr, v = call_krige(kr, final, post_process=False)
    fr, v = np.asarray(fr, dtype=float).reshape(-1), np.asarray(v, dtype=float).reshape(-1)
    if not (np.all(np.abs(fr - tb["raw"]) <= tb["tf"]) and np.all(np.abs(v - tb["var"]) <= tb["tv"])):
        _viol(ctx, "fit_variogram", "after fit_variogram=True (%s) the object does not solve the kriging system of its fitted model "
              "(start anis %s, fitted %s; max estimate dev %.3g, max variance dev %.3g, cond %.3g)" % (
                  "set_condition" if via_set_condition else "constructor", ms["kw"].get("anis"), final["model"]["kw"].get("anis"),
                  np.abs(fr - tb["raw"]).max(), np.abs(v - tb["var"]).max(), tb["cond"]),
              dict(final, start_model=ms, via_set_condition=via_set_condition), "fit_variogram", impl=fr, expected=tb["raw"])


# --------------------------------------------------------------------------- the cond_err guard, every route x value class

def probe_cond_err_guard(ctx, drv, rng, spec, stats):
    """exact=True excludes explicit measurement errors: constructor, set_condition(cond_err=...) and the property setter
    x value classes (str, float, int 0, 0.0, numpy scalar, 0-d array, one-element list / tuple / array, per-point list /
    array, zeros, wrong size) x exact x nugget.  The model's set_cond_err says accept (with which error vector) or reject;
    rejected means ValueError.  Whatever the implementation ACCEPTS with exact=True must be exact at the data."""
    n = len(spec["cond_val"])
    vec = [float(x) for x in np.round(rng.uniform(0.05, 0.3, n), 3)]
    values = [("'nugget'", "nugget"), ("float", 0.1), ("int 0", 0), ("0.0", 0.0), ("numpy float64", np.float64(0.2)),
              ("0-d array", np.array(0.3)), ("0-d zero array", np.array(0.0)), ("one-element list", [0.15]),
              ("one-element tuple", (0.15,)), ("one-element zero array", np.zeros(1)), ("float32 one-element array", np.array([0.25], dtype=np.float32)),
              ("per-point list", vec), ("per-point array", np.array(vec)), ("per-point zeros", np.zeros(n)),
              ("per-point int zeros", np.zeros(n, dtype=int)), ("wrong size list", vec + [0.1])]
    for exact in (True, False):
        for nug in (0.0, 0.3):
            base = dict(spec, exact=exact, cond_err="nugget", pseudo_inv_type="pinv",
                        model=dict(spec["model"], kw=dict(spec["model"]["kw"], nugget=nug)))
            for route in ("constructor", "set_condition", "setter"):
                for name, val in values:
                    isnug = isinstance(val, str)
                    arr = np.zeros(1) if isnug else np.asarray(val, dtype=float).reshape(-1)
                    want = drv.call("set_cond_err", bool(exact), ("n", n), float(nug), bool(isnug), bool(arr.size == 1), arr)
                    ctx.count(None, hist=dict(probe="cond_err_guard", guard_route=route, guard_value=name))
                    kr, err = None, None
                    try:
                        if route == "constructor":
                            s1 = dict(base)
                            kw = krige_kwargs(s1)
                            kw["cond_err"] = val
                            kr = _construct(s1, kw)
                        else:
                            kr = build_krige(base)
                            if route == "set_condition":
                                kr.set_condition(cond_err=val)
                            else:
                                kr.cond_err = val
                                kr.set_condition()
                    except ValueError as e:
                        err = e
                    case = dict(base, cond_err_given=name, cond_err_value=(val if isnug else arr.tolist()), route=route)
                    if want is None and err is None:
                        _viol(ctx, "cond_err_guard", "cond_err=%s (%s) is accepted via the %s with exact=%s, nugget=%g; the documented "
                              "behaviour (and the model) is ValueError" % (name, arr.tolist() if not isnug else val, route, exact, nug),
                              case, "guard:accepted")
                    elif want is not None and err is not None:
                        _viol(ctx, "cond_err_guard", "cond_err=%s via the %s with exact=%s raises %r but is a valid setting" % (name, route, exact, err),
                              case, "guard:rejected")
                    elif want is not None:
                        got = np.broadcast_to(np.asarray(kr.cond_err, dtype=float), (n,))
                        if not C.bit_equal(got, np.asarray(want, dtype=float)):
                            _viol(ctx, "cond_err_guard", "cond_err=%s via the %s: stored measurement errors differ from the model" % (name, route),
                                  case, "guard:value", impl=got, model=np.asarray(want))
                    # whatever is accepted with exact=True must reproduce the data with zero variance
                    if kr is not None and err is None and exact:
                        acc = dict(base, cond_err=("nugget" if isnug else (float(arr[0]) if arr.size == 1 else arr.tolist())))
                        probe_exact_at_data(ctx, acc, stats, kr=kr, label="exact_when_accepted",
                                            extra=dict(route=route, cond_err_given=name))


def _construct(spec, kw):
    import gstools as gs
    model = build_model(spec["model"])
    cp, cv = np.asarray(spec["cond_pos"], dtype=float), np.asarray(spec["cond_val"], dtype=float)
    v = spec["variant"]
    cls = getattr(gs.krige, v)
    if v == "ExtDrift":
        return cls(model, cp, cv, ext_drift_at(spec, cp), **kw)
    if v == "Detrended":
        kw = dict(kw)
        tr = kw.pop("trend")
        return cls(model, cp, cv, tr, **kw)
    if v == "Krige":
        return cls(model, cp, cv, ext_drift=ext_drift_at(spec, cp), **kw)
    return cls(model, cp, cv, **kw)


# --------------------------------------------------------------------------- zero-lag window at large coordinates

def gen_utm(rng, variant, n=8):
    """rotated + anisotropic model, coordinates of UTM magnitude (5e5, 5.6e6) with a spread of ~1 km, nugget > 0, exact"""
    kw = dict(dim=2, var=float(np.round(rng.uniform(0.5, 2.0), 3)), len_scale=float(np.round(rng.uniform(200, 600), 1)),
              nugget=float(np.round(rng.uniform(0.2, 0.9), 3)), anis=[float(np.round(rng.uniform(0.3, 0.8), 3))],
              angles=[float(np.round(rng.uniform(0.2, 2.9), 3))])
    org = np.array([[float(rng.choice([4.1e5, 5.0e5, 6.8e5]))], [float(rng.choice([5.6e6, 1.2e6, 9.3e6]))]])
    X = org + rng.uniform(0, 1500, size=(2, n))
    spec = dict(variant=variant, model=dict(cls=str(rng.choice(["Exponential", "Gaussian", "Spherical", "Matern"])), kw=kw), geo="plain",
                cond_pos=[[float("%.12g" % x) for x in r] for r in X], cond_val=[float("%.8g" % x) for x in rng.normal(size=n)],
                trend=None, normalizer=None, exact=True, cond_err="nugget", pseudo_inv=True, pseudo_inv_type="pinv",
                mesh_type="unstructured", chunk_size=None)
    if spec["model"]["cls"] == "Matern":
        kw["nu"] = 1.5
    if variant == "Simple":
        spec["mean"] = 0.2
    if variant == "Universal":
        spec["drift"] = "linear"
    spec["pos"] = [r[:3] for r in spec["cond_pos"]]
    return spec


def probe_single_targets(ctx, drv, spec, stats):
    """exact kriging evaluated at the conditioning points ONE POINT PER CALL (1-column target arrays), in pairs and all at
    once: lag 0 must be recognised (|r| <= 1e-8, the documented numpy.isclose window) although the isometrized coordinates
    of a single column and of many columns differ by rounding at large coordinate magnitudes"""
    X = np.asarray(spec["cond_pos"], dtype=float)
    val = np.asarray(spec["cond_val"], dtype=float)
    n = X.shape[1]
    tb = textbook(dict(spec, pos=spec["cond_pos"]))
    if tb.get("singular") or tb["cond"] > COND_MAX:
        stats["excluded_singular"] = stats.get("excluded_singular", 0) + 1
        return
    kr = build_krige(spec)
    tol = 1e3 * tb["cond"] * EPS * (np.abs(tb["d"]).max() + 1e-300) * tb["N"] + 1e-9 * np.abs(val) + 1e-12
    tv = 1e3 * tb["cond"] * EPS * np.abs(tb["K"]).max() * tb["N"] + 1e-12 * tb["sill"]
    sets = [[i] for i in range(n)] + [[i, (i + 1) % n] for i in range(0, n, 3)] + [list(range(n))]
    worst = 0.0
    for idx in sets:
        f, v = kr(X[:, idx], return_var=True)
        ctx.count(None, hist=dict(probe="single_targets", n_targets=len(idx)))
        f, v = np.asarray(f, dtype=float).reshape(-1), np.asarray(v, dtype=float).reshape(-1)
        dev = np.abs(f - val[idx])
        worst = max(worst, float(dev.max()))
        if not (np.all(dev <= tol[idx]) and np.all(np.abs(v) <= tv)):
            i_, d_, t_ = _worst(dev, tol[idx])
            _viol(ctx, "single_targets", "exact kriging called on %d target point(s) that ARE conditioning points (coordinates ~%.3g) misses "
                  "the data (point %d: dev %.3g, tol %.3g; variance %.3g, tol %.3g)" % (len(idx), np.abs(X).max(), idx[i_], d_, t_,
                                                                                        float(np.abs(v).max()), tv),
                  dict(spec, pos=[[float(x) for x in r] for r in X[:, idx]]), "exact:single_target", impl=f, expected=val[idx], variance=v)
            return
    if drv is not None:    # model side: the right-hand side of a one-column call (cov_nugget window) and the final values
        correspond_case(ctx, drv, dict(spec, pos=[[float(x)] for x in X[:, 0]]), stats)
        correspond_case(ctx, drv, dict(spec, pos=[[float(x) for x in r] for r in X]), stats)


# --------------------------------------------------------------------------- memory layouts of every array argument

def _layouts(a):
    """the same array values in C order, Fortran order, as a transposed view, as a strided view, and as nested lists"""
    a = np.array(a, dtype=float)
    out = [("C", np.ascontiguousarray(a))]
    if a.ndim >= 2:
        out.append(("Fortran", np.asfortranarray(a)))
        out.append(("transposed view", np.ascontiguousarray(a.T).T))
    big = np.full(a.shape[:-1] + (2 * a.shape[-1] + 1,), np.nan)
    big[..., 1::2] = a
    out.append(("strided view", big[..., 1::2]))
    out.append(("list", a.tolist()))
    return out


def probe_layouts(ctx, rng, spec, stats):
    """results must not depend on the memory layout / container type of any array argument: conditioning positions and
    values, external drift at the conditions, target positions (points or axes), external drift at the targets (flat
    (q, m), grid-shaped (q, *shape), and (*shape) for a single drift on a structured mesh)"""
    import gstools as gs
    spec = jsonable(spec)
    if spec.get("pseudo_inv_type") == "callable":
        spec["pseudo_inv_type"] = "pinv"
    fd = len(spec["cond_pos"])
    if spec.get("mesh_type") == "structured":      # unequal axis lengths >= 2
        lens = [3, 2, 4][:fd] if fd <= 3 else [2] * fd
        spec["pos"] = [sorted(float(x) for x in np.round(rng.uniform(1, 9, k), 3)) for k in lens]
        if spec["geo"] in ("latlon", "latlon_time"):
            spec["pos"][0] = [float(x) for x in np.linspace(-40, 50, lens[0])]
            spec["pos"][1] = [float(x) for x in np.linspace(-100, 120, lens[1])]
    X = np.asarray(spec["cond_pos"], dtype=float)
    val = np.asarray(spec["cond_val"], dtype=float)
    Y = expand_pos(spec)
    m = Y.shape[1]
    ced = ext_drift_at(spec, X)
    ted = ext_drift_at(spec, Y)
    structured = spec.get("mesh_type") == "structured"
    shape = [len(a) for a in spec["pos"]] if structured else None
    kw0 = krige_kwargs(spec)
    v = spec["variant"]
    cls = getattr(gs.krige, v)

    def build(cp, cv, ce):
        kw = dict(kw0)
        if v == "ExtDrift":
            return cls(build_model(spec["model"]), cp, cv, ce, **kw)
        if v == "Detrended":
            tr = kw.pop("trend")
            return cls(build_model(spec["model"]), cp, cv, tr, **kw)
        if v == "Krige":
            return cls(build_model(spec["model"]), cp, cv, ext_drift=ce, **kw)
        return cls(build_model(spec["model"]), cp, cv, **kw)

    def call(kr, pos, te):
        args = dict(mesh_type=spec.get("mesh_type", "unstructured"), chunk_size=spec.get("chunk_size"))
        if ted is not None:
            args["ext_drift"] = te
        f, vv = kr(pos, **args)
        return np.asarray(f, dtype=float), np.asarray(vv, dtype=float)

    pos0 = [np.asarray(a, dtype=float) for a in spec["pos"]] if structured else np.ascontiguousarray(Y)
    base = call(build(np.ascontiguousarray(X), np.ascontiguousarray(val), ced), pos0, ted)
    trials = []
    for name, a in _layouts(X)[1:]:
        trials.append(("cond_pos as " + name, (a, val, ced), pos0, ted))
    trials.append(("cond_pos as tuple of strided rows", (tuple(_layouts(r)[1][1] for r in X), val, ced), pos0, ted))
    for name, a in _layouts(val)[1:]:
        trials.append(("cond_val as " + name, (X, a, ced), pos0, ted))
    if ced is not None:
        for name, a in _layouts(ced)[1:]:
            trials.append(("ext_drift at the conditions as " + name, (X, val, a), pos0, ted))
        if ced.shape[0] == 1:
            trials.append(("ext_drift at the conditions as 1-D strided", (X, val, _layouts(ced[0])[1][1]), pos0, ted))
    if structured:
        trials.append(("target axes as strided views", (X, val, ced), [_layouts(a)[1][1] for a in pos0], ted))
        trials.append(("target axes as lists", (X, val, ced), [a.tolist() for a in pos0], ted))
    else:
        for name, a in _layouts(Y)[1:]:
            trials.append(("target positions as " + name, (X, val, ced), a, ted))
    if ted is not None:
        for name, a in _layouts(ted)[1:]:
            trials.append(("ext_drift at the targets, flat (q, m), as " + name, (X, val, ced), pos0, a))
        if structured:
            g = ted.reshape([ted.shape[0]] + shape)
            for name, a in _layouts(g):
                trials.append(("ext_drift at the targets, grid-shaped (q, *shape), as " + name, (X, val, ced), pos0, a))
            if ted.shape[0] == 1 and s_fdrift(spec) is None:     # (documented: allowed when it is the only drift term)
                for name, a in _layouts(g[0]):
                    trials.append(("single ext_drift at the targets, grid-shaped (*shape), as " + name, (X, val, ced), pos0, a))
    for name, (cp, cv, ce), pos, te in trials:
        ctx.count(None, hist=dict(probe="layouts"))
        try:
            r = call(build(cp, cv, ce), pos, te)
        except Exception as e:  # noqa
            _viol(ctx, "layouts", "%s: exception %r (C-contiguous arrays work)" % (name, e), dict(spec, layout=name), "layout:exc")
            continue
        if not (C.bit_equal(r[0], base[0]) and C.bit_equal(r[1], base[1])):
            with np.errstate(all="ignore"):
                dv = float(np.nanmax(np.abs(r[0] - base[0]))) if r[0].shape == base[0].shape else float("nan")
            _viol(ctx, "layouts", "result depends on the memory layout / container of an argument: %s (mesh %s%s): max field deviation %.3g "
                  "from the C-contiguous call" % (name, spec.get("mesh_type"), " %s" % shape if shape else "", dv),
                  dict(spec, layout=name), "layout", c_contiguous=base[0], this_layout=r[0])


# --------------------------------------------------------------------------- interference between objects

def probe_interference(ctx, rng, stats, tier="quick"):
    """A kriging result is a function of the object's OWN parameters (the model is a pure function): creating, fitting,
    tuning and evaluating OTHER objects in between -- same normalizer class given as class or instance, fit_normalizer,
    normalizer parameters changed, custom pseudo-inverse callables named like the built-in ones, CondSRF on another
    Krige, deep copies -- must leave (a) the original object, (b) a new object built from the same arguments and
    (c) a deep copy bit-identical to the run before; the new object must also still solve its textbook system."""
    import copy
    import gstools as gs
    under_test = []
    for v_, ncls in (("Ordinary", "BoxCox"), ("Simple", "Modulus"), ("Universal", "LogNormal"), ("ExtDrift", "YeoJohnson"),
                     ("Krige", "Manly"), ("Ordinary", "BoxCoxShift"), ("Ordinary", None)):
        sp = gen_spec(rng, variant=v_, geo="plain", dim=2, tier="quick", allow_norm=False, n=7, m=5)
        sp["pseudo_inv"], sp["pseudo_inv_type"] = True, "pinv"
        if ncls is not None:
            sp["normalizer"] = list(NORM_DEFAULTS[ncls])
            sp["normalizer_as_class"] = True
            if sp.get("mean") is not None and isinstance(sp.get("mean"), str):
                sp["mean"] = 0.1
            X_ = np.asarray(sp["cond_pos"], dtype=float)
            n_ = X_.shape[1]
            sp["cond_val"] = [float("%.10g" % x) for x in gen_norm_data(rng, sp["normalizer"], n_) + fval(sp.get("trend"), X_, n_)]
        under_test.append(sp)
    # duplicated conditioning points, default pseudo-inverse routines
    for pit in ("pinv", "pinvh"):
        sp = gen_spec(rng, variant="Ordinary", geo="plain", dim=2, tier="quick", allow_norm=False, n=6, m=5, nugget=0.0, exact=False)
        sp["cond_err"], sp["pseudo_inv"], sp["pseudo_inv_type"] = "nugget", True, pit
        sp["cond_pos"] = [r + [r[2]] for r in sp["cond_pos"]]
        sp["cond_val"] = sp["cond_val"] + [sp["cond_val"][2] + 0.7]
        under_test.append(sp)

    def results(kr, sp):
        f, vv = call_krige(kr, sp)
        gm = kr.get_mean()
        return np.asarray(f, dtype=float), np.asarray(vv, dtype=float), np.array([np.nan if gm is None else float(gm)])

    objs = [build_krige(sp) for sp in under_test]
    before = [results(k, sp) for k, sp in zip(objs, under_test)]
    # ---- the other objects
    log = []
    posB = rng.uniform(0, 10, size=(2, 12))
    valB = np.exp(rng.normal(size=12)) + 0.3
    tgtB = rng.uniform(0, 10, size=(2, 4))
    mB = gs.Exponential(dim=2, var=1.1, len_scale=2.5)
    N = gs.normalizer
    for cname in NORM_CLASSES:
        Cn = getattr(N, cname)
        data = valB if cname in ("LogNormal", "BoxCox", "BoxCoxShift") else valB - 1.5
        for how, norm in (("class", Cn), ("instance", Cn())):
            try:
                b = gs.krige.Ordinary(mB, posB, data, normalizer=norm, fit_normalizer=True)
                b(tgtB)
                log.append("Ordinary(normalizer=%s %s, fit_normalizer=True)" % (cname, how))
                if hasattr(b.normalizer, "lmbda"):
                    b.normalizer.lmbda = 0.3
                    b.set_condition()
                    b(tgtB)
                    log.append("other.normalizer.lmbda = 0.3")
            except Exception as e:  # noqa: fitting may fail on data; irrelevant here
                log.append("(%s %s: %r)" % (cname, how, e))
        try:
            gs.vario_estimate(posB, data, normalizer=Cn, fit_normalizer=True)
            log.append("vario_estimate(normalizer=%s class, fit_normalizer=True)" % cname)
        except Exception as e:  # noqa
            log.append("(vario_estimate %s: %r)" % (cname, e))

    def pinv(mat):          # user routines named like the built-in ones, deliberately crude
        return np.linalg.pinv(mat, rcond=1e-2)

    def pinvh(mat):
        return np.linalg.pinv(mat, rcond=1e-2)

    for fn, nm in ((np.linalg.pinv, "numpy.linalg.pinv"), (pinv, "user function named pinv"), (pinvh, "user function named pinvh")):
        b = gs.krige.Ordinary(mB, posB, valB, pseudo_inv_type=fn)
        b(tgtB)
        b.pseudo_inv_type = fn
        b.set_condition()
        log.append("Ordinary(pseudo_inv_type=%s) + setter" % nm)
    b = gs.krige.Simple(gs.Gaussian(dim=2, var=0.7, len_scale=1.5, nugget=0.1), posB, valB - 1.0, mean=0.3)
    gs.CondSRF(b, seed=3)(tgtB)
    log.append("CondSRF on another Krige")
    # ---- after
    for sp, k0, r0 in zip(under_test, objs, before):
        ctx.count(spec_key(sp, ("interference",)), hist=dict(probe="interference"))
        for what, kr in (("the original object, evaluated again", k0), ("a new object built from the same arguments", None),
                         ("a deep copy of the original object", "copy")):
            try:
                if kr is None:
                    kr = build_krige(sp)
                elif isinstance(kr, str):
                    kr = copy.deepcopy(k0)
                r1 = results(kr, sp)
            except Exception as e:  # noqa
                _viol(ctx, "interference", "%s raises %r after other objects were used" % (what, e), dict(sp, others=log), "interference:exc")
                continue
            if not all(C.bit_equal(a, b_) for a, b_ in zip(r0, r1)):
                with np.errstate(all="ignore"):
                    dv = float(np.nanmax(np.abs(r0[0] - r1[0])))
                _viol(ctx, "interference", "%s gives another result after OTHER objects were created / fitted / tuned (max field deviation %.3g); "
                      "others: %s" % (what, dv, "; ".join(log)), dict(sp, others=log, which=what), "interference",
                      before=r0[0], after=r1[0])
                break
        # the textbook system of the object's own (default) parameters
        tb = textbook(sp)
        if not (tb.get("singular") or tb["cond"] > COND_MAX):
            krn = build_krige(sp)
            fr = np.asarray(call_krige(krn, sp, post_process=False)[0], dtype=float).reshape(-1)
            if not np.all(np.abs(fr - tb["raw"]) <= tb["tf"]):
                _viol(ctx, "interference", "a new object built after the other objects does not solve the kriging system of its own parameters "
                      "(target %d: dev %.3g, tol %.3g)" % _worst(np.abs(fr - tb["raw"]), tb["tf"]), dict(sp, others=log), "interference:textbook",
                      impl=fr, expected=tb["raw"])


# --------------------------------------------------------------------------- the estimated mean (kriging the mean)

def probe_mean(ctx, spec, stats):
    """"mean estimation" clause: Krige.get_mean(post_process False / True) and krige(pos, only_mean=True) against the
    directly computed values.  Without drift terms the estimated mean of an unbiased variant is the generalised-least-squares
    mean of the prepared data, mu = (1^T A^-1 d) / (1^T A^-1 1) with A = C + diag(err) (0 for the simple variants);
    get_mean() = denormalize(mu + mean) for a constant mean (None for a callable mean or with drift terms), the mean field
    = denormalize(mu + mean(x)) + trend(x).  With drift terms the mean field is d^T lambda for the system with the
    covariance part of the right-hand side set to zero."""
    tb = textbook(spec)
    if tb.get("singular") or tb["cond"] > COND_MAX:
        return
    n, N, nz, d, K = tb["n"], tb["N"], tb["nz"], tb["d"], tb["K"]
    Y = tb["Y"]
    m = Y.shape[1]
    kr = build_krige(spec, Capture("pinv"))
    unb = s_unb(spec)
    has_drift = N - n - (1 if unb else 0) > 0
    mean = tb["mean"]
    mean_callable = isinstance(mean, str)
    mval = 0.0 if (mean is None or mean_callable) else float(mean)
    A = K[:n, :n]
    ctx.count(None, hist=dict(probe="mean"))
    if not has_drift:
        if unb:
            w = np.linalg.solve(A, np.ones(n))
            mu = float(w @ d[:n]) / float(w.sum())
            sc = (np.abs(w) @ np.abs(d[:n])) / abs(float(w.sum())) + abs(mu)
        else:
            mu, sc = 0.0, 0.0
        # the implementation obtains mu from the FULL kriging system [[A, 1], [1^T, 0]] (entries of size var next to ones):
        # its solver error is governed by cond(K), not by cond(A) of the scale-invariant GLS formula used here
        t_raw = (1e3 * max(tb["cond"], np.linalg.cond(A)) * EPS + 1e-9) * sc + 1e-300
        case = dict(spec)
        g0 = kr.get_mean(post_process=False)
        if g0 is None or not abs(float(g0) - mu) <= t_raw:
            _viol(ctx, "mean", "get_mean(post_process=False) = %r, the generalised-least-squares mean of the prepared data is %.12g (tol %.3g)" % (
                g0, mu, t_raw), case, "mean:raw", impl=g0, expected=mu)
        g1 = kr.get_mean(post_process=True)
        if mean_callable:
            if g1 is not None:
                _viol(ctx, "mean", "get_mean() = %r for a callable mean (documented: None)" % (g1,), case, "mean:none", impl=g1)
        elif bool(in_range(nz, mu + mval)):
            exp = float(norm_bwd(nz, np.array([mu + mval]))[0])
            t1 = float(np.max(post_tol(nz, np.array([mu + mval]), t_raw))) + 1e-9 * abs(exp)
            if g1 is None or not _within(float(g1), exp, t1):
                _viol(ctx, "mean", "get_mean() = %r but denormalize(estimated mean %.6g + given mean %.6g) = %.12g (tol %.3g)" % (
                    g1, mu, mval, exp, t1), case, "mean:get_mean", impl=g1, expected=exp)
        raw_field = np.full(m, mu)
        t_field = np.full(m, t_raw)
    else:
        k0 = np.array(tb["k"])
        k0[:n] = 0.0
        lam0 = np.linalg.solve(K, k0)
        raw_field = d @ lam0
        t_field = tol_field(tb["cond"], d, lam0, raw_field)
        for post in (True, False):
            g = kr.get_mean(post_process=post)
            if g is not None:
                _viol(ctx, "mean", "get_mean(post_process=%s) = %r with drift terms (documented: None)" % (post, g), dict(spec), "mean:none", impl=g)
    # the mean field
    mY = fval(mean, Y, m)
    exp_f = norm_bwd(nz, raw_field + mY) + fval(tb["trend"], Y, m)
    f = np.asarray(call_krige(kr, spec, only_mean=True), dtype=float).reshape(-1)
    inr = in_range(nz, raw_field + mY)
    tp = post_tol(nz, raw_field + mY, t_field) + 1e-9 * np.abs(exp_f)
    tp = np.where(inr & np.isfinite(tp), tp, np.inf)
    with np.errstate(all="ignore"):
        dev = np.where(inr, np.abs(f - exp_f), 0.0)
        dev = np.where((f == exp_f) | ~inr, 0.0, dev)
    if f.shape != exp_f.shape or not np.all(dev <= tp):
        i_, d_, t_ = _worst(dev, tp)
        _viol(ctx, "mean", "krige(pos, only_mean=True) differs from denormalize(estimated mean + mean) + trend (target %d: dev %.3g, tol %.3g)" % (
            i_, d_, t_), dict(spec), "mean:only_mean", impl=f, expected=exp_f)
