"""C20 — operations never modify caller arrays or previously stored results.

stages: theorems props/C20.v (frame theorem for the effect programs of every public entry point, all
        configurations, all contents) ; extraction + driver (predictions of the effect model) ;
        correspondence: the implementation is run with sentinel arrays for configurations of the finite
        space; observed effects (byte-wise before/after of every caller array and every earlier result,
        np.shares_memory between inputs, outputs and stored attributes, exception or not) must equal the
        model's prediction ; probes: the same sweep with read-only arrays (catches writes that do not
        change a value), random store/transform histories, read-only probes of functions outside the model."""
import json
import time
import warnings

import numpy as np

import sys

import common as C

E = sys.modules[__name__]   # the entry-point realisations live further down in this module

warnings.simplefilter("ignore")


# --------------------------------------------------------------------------- observation machinery

def root_of(a):
    b = a
    while isinstance(getattr(b, "base", None), np.ndarray):
        b = b.base
    return b


def snap(arrs):
    return [root_of(a).tobytes() for a in arrs]


def set_readonly(arrs):
    for a in arrs:
        r = root_of(a)
        try:
            r.flags.writeable = False
        except ValueError:
            pass
        try:
            a.flags.writeable = False
        except ValueError:
            pass


def shares(xs, ys):
    return any(np.shares_memory(x, y) for x in xs for y in ys)


def as_list(x):
    """slot value -> list of ndarrays (None -> None)"""
    if x is None:
        return None
    if isinstance(x, np.ma.MaskedArray):
        return [np.ma.getdata(x)]
    if isinstance(x, np.ndarray):
        return [x]
    if isinstance(x, (tuple, list)):
        out = [np.asarray(v) for v in x if isinstance(v, np.ndarray)]
        return out or None
    return None


def parse_prediction(v):
    v = [int(x) for x in np.atleast_1d(v)]
    raised, n0, k = v[0], v[1], v[2]
    written = v[3:3 + k]
    ns = v[3 + k]
    slots = [(x - 1) if x > 0 else None for x in v[4 + k:4 + k + ns]]
    return dict(raised=bool(raised), n0=n0, written=sorted(written), slots=slots)


def observe(world, readonly):
    """run the implementation on a realised configuration.
    returns dict(raised, exc, changed cells, slots (lists of arrays or None), readonly_hit)"""
    cells = world.cells            # cell id -> list of arrays held by the caller / stored by the history
    flat = [(i, a) for i, arrs in enumerate(cells) for a in arrs]
    before = [root_of(a).tobytes() for _, a in flat]
    xbefore = [a.tobytes() for _, a in world.extra]
    if readonly:
        set_readonly([a for _, a in flat] + [a for _, a in world.extra])
    raised, exc, rets, ro_hit = False, None, [], False
    try:
        rets = world.call()
    except Exception as e:  # noqa: BLE001
        raised, exc = True, "%s: %s" % (type(e).__name__, str(e)[:200])
        if "read-only" in str(e) or "readonly" in str(e):
            ro_hit = True
    after = [root_of(a).tobytes() for _, a in flat]
    changed = sorted({i for (i, _), b, a in zip(flat, before, after) if a != b})
    changed_extra = [lab for (lab, a), b in zip(world.extra, xbefore) if a.tobytes() != b]
    slots = None
    pos_bad = None
    if not raised:
        slots = [as_list(r) for r in rets] + [as_list(world.attr(a)) for a in world.obs_attrs]
        if world.pos_expect is not None:
            have = as_list(world.attr(A_POS)) or []
            want = [np.asarray(x, dtype=float) for x in (world.pos_expect if isinstance(world.pos_expect, tuple) else [world.pos_expect])]
            if len(have) != len(want) or any(h.size != x.size or not np.array_equal(h.ravel(), x.ravel()) for h, x in zip(have, want)):
                pos_bad = "the positions stored by the object differ from the positions given"
    return dict(raised=raised, exc=exc, changed=changed, slots=slots, ro_hit=ro_hit, changed_extra=changed_extra, pos_bad=pos_bad)


def expose_alias(world, obs, i, k):
    """concrete history for stored state that aliases a caller array: the caller edits its own array in
    place after the call; returns what changed in the object (None if nothing changed)"""
    slot = obs["slots"][i]
    before = [np.array(a, copy=True) for a in slot]
    res0 = None
    if world.result_probe is not None:
        try:
            res0 = np.array(world.result_probe(), copy=True)
        except Exception:  # noqa: BLE001
            res0 = None
    for a in world.cells[k]:
        r = root_of(a)
        try:
            r.flags.writeable = True
            a.flags.writeable = True
        except ValueError:
            pass
        if a.dtype == bool:
            np.logical_not(a, out=a)
        else:
            a += 1
    after = [np.array(a, copy=True) for a in slot]
    changed = any(x.tobytes() != y.tobytes() for x, y in zip(before, after))
    if not changed:
        return None
    out = dict(stored_before=[x.ravel()[:8].tolist() for x in before], stored_after=[x.ravel()[:8].tolist() for x in after])
    if res0 is not None:
        try:
            res1 = np.asarray(world.result_probe())
            out["result_changed"] = bool(res1.shape != res0.shape or not np.array_equal(res0, res1, equal_nan=True))
            out["result_before"] = res0.ravel()[:6].tolist()
            out["result_after"] = res1.ravel()[:6].tolist()
        except Exception as e:  # noqa: BLE001
            out["result_changed"] = True
            out["result_after"] = "exception: %r" % (e,)
    return out


def compare(pred, obs, world):
    """-> (property_violation or None, tie_mismatch or None)"""
    names = world.cell_names
    if obs["ro_hit"]:
        return "in-place write into a read-only caller/stored array: %s" % obs["exc"], None
    if obs.get("changed_extra"):
        return "contents changed: %s" % obs["changed_extra"], None
    if obs.get("pos_bad"):
        return obs["pos_bad"], None
    if obs["changed"]:
        if obs["changed"] != pred["written"]:
            return "contents changed: %s" % [names[i] for i in obs["changed"]], None
    if pred["written"] and obs["changed"] != pred["written"] and not obs["raised"]:
        return None, "model predicts writes %s, observed %s" % (pred["written"], obs["changed"])
    if obs["raised"] != pred["raised"]:
        return None, "exception: model %s, implementation %s (%s)" % (pred["raised"], obs["raised"], obs["exc"])
    if obs["raised"]:
        return None, None
    ps, os_ = pred["slots"], obs["slots"]
    if len(ps) != len(os_):
        return None, "number of result slots: model %d, implementation %d" % (len(ps), len(os_))
    for i, (p, o) in enumerate(zip(ps, os_)):
        if (p is None) != (o is None):
            return None, "slot %s: model %s, implementation %s" % (world.slot_name(i), "absent" if p is None else "present",
                                                                  "absent" if o is None else "present")
    for i, (p, o) in enumerate(zip(ps, os_)):
        if o is None:
            continue
        for k, arrs in enumerate(world.cells):
            if not arrs:
                continue
            if shares(o, arrs) != (p == k):
                msg = "slot %s %s memory with %s, model says %s" % (
                    world.slot_name(i), "shares" if p != k else "does not share", names[k],
                    "alias" if p == k else "separate")
                if p != k and k < world.nargs:
                    if i >= world.nret:
                        world.unpredicted_aliases.append((i, k, msg))   # stored state is a view of a caller array
                    else:
                        world.other_mismatch = world.other_mismatch or msg   # a returned array aliases it
                    continue
                return None, msg
        for j in range(i + 1, len(ps)):
            if os_[j] is None:
                continue
            if shares(o, os_[j]) != (p == ps[j]):
                return None, "slots %s and %s: sharing observed %s, model %s" % (
                    world.slot_name(i), world.slot_name(j), shares(o, os_[j]), p == ps[j])
    if world.unpredicted_aliases:
        return None, world.unpredicted_aliases[0][2]
    if world.other_mismatch:
        return None, world.other_mismatch
    return None, None


# --------------------------------------------------------------------------- enumeration

def all_cfgs(dims):
    out = [[]]
    for d in dims:
        out = [c + [x] for c in out for x in range(d)]
    return out


def cfg_key(ep, cfg):
    return "%s:%s" % (ep, "".join(str(x) for x in cfg))


REGRESSION = [
    ("vario_estimate", [0, 0, 1, 0, 0, 0, 1, 1, 0, 0, 0, 0, 0]),   # bin_edges /= geo_scale
    ("vario_estimate", [0, 0, 1, 0, 0, 0, 1, 0, 0, 0, 0, 0, 2]),
    ("vario_estimate_axis", [0, 2, 1, 0, 0]),                      # caller mask
    ("vario_estimate_axis", [0, 2, 1, 1, 1]),
    ("field_call", [0, 1, 1, 0, 1, 0, 0]),                          # Field.__call__(field=arr) with mean
    ("field_call", [0, 1, 1, 2, 0, 1, 1]),
    ("post_field", [0, 1, 0, 1]),
    ("apply_mean_norm_trend", [0, 0, 1, 0, 1, 0]),
    ("apply_mean_norm_trend", [0, 0, 0, 1, 0, 0]),
    ("remove_trend_norm_mean", [0, 0, 1, 0, 1, 0]),
    ("remove_trend_norm_mean", [0, 0, 0, 1, 1, 1]),
    ("transform", [5, 1, 1, 1, 1, 0, 0]),                           # lognormal, process, store="b", trend
    ("transform", [0, 1, 2, 0, 1, 1, 1]),
    ("transform", [3, 1, 0, 1, 0, 2, 2]),
    ("transform", [2, 0, 1, 1, 0, 1, 0]),                           # boxcox with shift != 0 (seeded change, round 2)
    ("transform", [2, 0, 1, 1, 0, 2, 2]),
    ("array_fn", [1, 0, 1]),
    ("array_fn", [1, 0, 2]),
    ("covmodel", [0, 1, 1, 0, 0]),       # temporal model built from a full-length float64 angles array (seed C14-7)
    ("covmodel", [1, 1, 1, 1, 1]),       # angles setter of a temporal model
    ("covmodel", [5, 1, 0, 0, 0]),       # dim setter of a temporal model (re-formats the stored angles)
    ("covmodel", [0, 3, 1, 1, 1]),
    ("geo_tool", [9, 0, 1]),             # latlon2pos(temporal=True, time_scale != 1) on float64 (3, n) (seed C20-9)
    ("geo_tool", [12, 0, 1]),            # great_circle_to_chordal beyond half the circumference (seed C20-10)
    ("model_eval", [0, 3, 0]),           # isometrize of a lat-lon + time model with time anisotropy != 1
    ("model_eval", [1, 3, 0]),
    ("field_call", [0, 1, 0, 0, 0, 0, 0]),          # field=<view of the caller's buffer>, post_process=False (seed C20-12)
    ("post_field", [0, 0, 1, 0]),
    ("condsrf_call", [0, 0, 1, 0, 1, 0, 0, 1, 1]),  # ext_drift given with the call, same positions again (seed C20-14)
    ("condsrf_call", [0, 0, 1, 0, 1, 0, 1, 0, 1]),
    ("mean_trend", [0, 0, 0]),                      # vector mean array given to the constructor
    ("mean_trend", [1, 1, 0]),
]


def select_cases(drv, rng, tier):
    """(entry name, cfg) to run; the last digit of cfg is the view kind of the float64 arguments.
    thorough: every base configuration - with all three view kinds for entry points with at most 200 base
    configurations, with one (rotating) view kind for the larger ones; quick: every configuration of the small
    entry points and a seeded sample of the large ones (the theorem covers all of them)."""
    cases = []
    for name in E.ENTRY_NAMES:
        eid = E.ENTRY_NAMES.index(name)
        dims = [int(x) for x in np.atleast_1d(drv.call("dims", ("n", eid)))]
        if dims != E.DIMS[name] + [3]:
            raise RuntimeError("configuration space of %s differs between model %s and harness %s" % (name, dims, E.DIMS[name] + [3]))
        base = all_cfgs(E.DIMS[name])
        if tier == "thorough":
            off = int(rng.integers(3))
            if len(base) <= 200:
                cfgs = [c + [v] for c in base for v in range(3)]
            else:
                cfgs = [c + [(i + off) % 3] for i, c in enumerate(base)]
        else:
            cfgs = [c + [int(rng.integers(3))] for c in base]
            b = E.QUICK_BUDGET.get(name, 10 ** 9)
            if len(cfgs) > b:
                idx = rng.choice(len(cfgs), size=b, replace=False)
                cfgs = [cfgs[i] for i in sorted(idx)]
        cases += [(name, c) for c in cfgs]
    return cases


def run_case(ctx, drv, name, cfg, rng, variant, readonly, stats):
    eid = E.ENTRY_NAMES.index(name)
    pred = parse_prediction(drv.call("predict", True, ("n", eid), np.array(cfg, dtype=np.int64)))
    world = E.realise(name, cfg, rng, variant)
    if world.n0 != pred["n0"]:
        stats["tie"].append(dict(entry=name, cfg=cfg, what="number of initial buffers: model %d, harness %d" % (pred["n0"], world.n0)))
        return
    obs = observe(world, readonly)
    if obs["raised"] and not pred["raised"] and (obs["exc"] or "").startswith("RuntimeError: Optimal parameters not found"):
        # scipy's curve_fit did not converge on this random data (external optimiser, not an effect of the call):
        # nothing to compare for the tie, but the caller's arrays must still be untouched
        stats["not_converged"] = stats.get("not_converged", 0) + 1
        pred = dict(pred, raised=True)
    viol, tie = compare(pred, obs, world)
    stats["n"] += 1
    if world.unpredicted_aliases and not viol:
        exps = [(i, k, expose_alias(world, obs, i, k)) for i, k, _ in world.unpredicted_aliases]
        exps = [e for e in exps if e[2] is not None]
        exps.sort(key=lambda e: not e[2].get("result_changed", False))     # prefer a history that changes a result
        if exps and len(ctx.violations) < 20:
            i, k, exp = exps[0]
            ctx.violation("probe: alias exposure %s cfg=%s" % (name, cfg),
                          "%s %s: the stored %s is a view of the caller's %s; after the call the caller edits ITS array in place "
                          "(no GSTools call) and the stored state changes%s" % (
                              name, E.describe(name, cfg), world.slot_name(i), world.cell_names[k],
                              "; a result computed from the stored state changes too" if exp.get("result_changed") else ""),
                          dict(entry=name, cfg=cfg, variant=variant, readonly=readonly, options=E.describe(name, cfg),
                               history=["call %s" % name, "caller: %s += 1 (in place, its own array)" % world.cell_names[k],
                                        "read stored %s" % world.slot_name(i)], **exp),
                          key=cfg_key(name, cfg) + ":alias:" + world.slot_name(i))
            return
    if viol and len(ctx.violations) >= 20:
        stats["more"] = stats.get("more", 0) + 1     # enough replay files; keep counting
    elif viol:
        ctx.violation("probe: %s cfg=%s (%s)" % (name, cfg, "read-only arrays" if readonly else "byte-wise comparison"),
                      "%s %s: %s" % (name, E.describe(name, cfg), viol),
                      dict(entry=name, cfg=cfg, variant=variant, readonly=readonly, options=E.describe(name, cfg),
                           observed=dict(changed=[world.cell_names[i] for i in obs["changed"]] + list(obs.get("changed_extra") or []),
                                         stored_positions=obs.get("pos_bad"), exc=obs["exc"]),
                           predicted=pred),
                      key=cfg_key(name, cfg) + ":write")
    elif tie:
        stats["tie"].append(dict(entry=name, cfg=cfg, variant=variant, readonly=readonly, what=tie, options=E.describe(name, cfg)))


def run(ctx, only=None):
    rng = C.Rng(ctx.seed, "C20")
    ctx.rule = ("case = (public entry point, configuration digit list, layout realisation, observation mode); "
                "non-trivial = at least one array argument is aliasable (float64 ndarray) or an earlier result exists; "
                "distinct = distinct (entry point, configuration) keys")
    ctx.trusted = [
        "Coq 8.16.1 kernel (coqc); vm_compute only for the finite configuration check",
        "hand-written effect programs coq/c20/C20_Effects.v (validated by the correspondence sweep against observed effects)",
        "numpy view/copy rules as modelled by the primitives (asarray aliases iff float64 ndarray, reshape view iff possible, "
        "fancy/boolean indexing and arithmetic allocate) - validated by np.shares_memory in the sweep",
        "extraction (ExtrOcamlBasic only), OCaml 4.13, ocaml/proto.ml + drv_c20.ml",
        "harness realisation of each configuration digit as concrete arrays/options (harness/c20_entries.py)",
    ]
    ctx.not_proved = [
        "numpy's actual aliasing rules and the faithfulness of the hand-written effect programs are validated by the sweep, not proved",
        "user-supplied callables (trend/mean/drift functions, transform 'function') are assumed not to write their arguments",
        "dict arguments (init_guess, curve_fit_kwargs of fit_variogram) are outside the array model; fit_variogram mutates them (noted in design/C20.md)",
        "meshio/pyvista export (Field.mesh, vtk_export) is not modelled",
    ]
    for n in E.ENTRY_NAMES:
        ctx.tie[n] = "hand model + correspondence (observed effects)"
    proofs_ok = ctx.proofs("props/C20.v")
    tie_broken = []
    ok, out = C.build_driver("c20")
    drv = None
    if ok:
        drv = C.Driver("c20")
    else:
        tie_broken.append("extraction/driver build: " + out[-400:])
    stats = dict(n=0, tie=[])
    t0 = time.time()
    try:
        if drv is not None:
            # 1. regression cases (the configurations that refuted the pinned tree), every variant, both modes
            for name, cfg0 in REGRESSION:
                for view in range(3):
                    cfg = list(cfg0) + [view]
                    for variant in range(E.N_VARIANTS):
                        for ro in (False, True):
                            run_case(ctx, drv, name, cfg, rng, variant, ro, stats)
                            ctx.count(cfg_key(name, cfg), hist=dict(entry=name, mode="ro" if ro else "bytes", stage="regression"))
            # 2. sweep
            cases = select_cases(drv, rng, ctx.tier)
            if only:
                cases = [c for c in cases if c[0] in only]
            thorough = ctx.tier == "thorough"
            off = int(rng.integers(E.N_VARIANTS))
            for i, (name, cfg) in enumerate(cases):
                if thorough:
                    # every configuration in both observation modes; all layout realisations for the
                    # entry points with at most 2000 configurations, a rotating one for the large ones
                    small = E.CFG_COUNT[name] <= 2000
                    runs = [((i + off) % E.N_VARIANTS, False), ((i + off) % E.N_VARIANTS, True)]
                    if (name == "krige_call" and i % 4) or (name == "condsrf_call" and i % 3) or (
                            name in ("vario_estimate", "srf_call", "transform") and i % 2):
                        runs = runs[:1]        # the largest spaces: read-only mode on every 3rd / 2nd configuration
                    if small:
                        runs += [((i + off + 1) % E.N_VARIANTS, False)]
                        if E.CFG_COUNT[name] <= 500:
                            runs += [((i + off + 2) % E.N_VARIANTS, True)]
                else:
                    v = int(rng.integers(E.N_VARIANTS))
                    runs = [(v, False)] + ([(v, True)] if i % 2 == 0 else [])
                for variant, ro in runs:
                    run_case(ctx, drv, name, cfg, rng, variant, ro, stats)
                    ctx.count(cfg_key(name, cfg) if E.nontrivial(name, cfg) else None,
                              hist=dict(entry=name, mode="ro" if ro else "bytes", variant=variant))
                if i % 997 == 0:
                    ctx.sample(dict(entry=name, cfg=cfg, options=E.describe(name, cfg)))
            ctx.notes.append("sweep: %d implementation runs in %.1fs" % (stats["n"], time.time() - t0))
            if stats.get("not_converged"):
                ctx.notes.append("curve_fit did not converge in %d runs (only the caller-array comparison was made there)" % stats["not_converged"])
        # 3. probes that do not need the model
        E.history_probe(ctx, rng)
        E.readonly_extras(ctx, rng)
    finally:
        if drv:
            drv.close()
    if stats["tie"]:
        ctx.notes.append("correspondence mismatches: %d (first: %s)" % (len(stats["tie"]), json.dumps(stats["tie"][0], default=str)))
        tie_broken.append("effect model and implementation disagree on %d cases, e.g. %s" % (
            len(stats["tie"]), json.dumps(stats["tie"][0], default=str)))
    if (tie_broken or not proofs_ok) and not ctx.violations:
        ctx.violation("proof/tie", "proof obligations or the model/code tie of C20 no longer check: %s" % (
            tie_broken or getattr(ctx, "proof_failure", {}).get("output_tail", "")[-600:]),
            dict(tie_broken=tie_broken, mismatches=stats["tie"][:20], proof=getattr(ctx, "proof_failure", None)), no_input=True)


def replay(ctx, path):
    rec = json.load(open(path))
    print(json.dumps({k: rec[k] for k in ("stage", "what")}, indent=1))
    case = rec.get("case", {})
    if "entry" in case and "cfg" in case:
        rng = C.Rng(ctx.seed, "C20")
        ok, out = C.build_driver("c20")
        drv = C.Driver("c20")
        stats = dict(n=0, tie=[])
        try:
            for variant in range(E.N_VARIANTS):
                for ro in (False, True):
                    run_case(ctx, drv, case["entry"], case["cfg"], rng, variant, ro, stats)
                    ctx.count(cfg_key(case["entry"], case["cfg"]))
        finally:
            drv.close()
        if stats["tie"]:
            print("correspondence mismatch:", stats["tie"][0])
        ctx.proofs("props/C20.v")
        return ctx.finish()
    run(ctx)
    return ctx.finish()


# =========================================================================== entry points
# Realisation of every configuration digit of coq/c20/C20_Effects.v as concrete arrays and options.

ENTRY_NAMES = ["vario_estimate", "vario_estimate_axis", "standard_bins", "field_call", "post_field",
               "apply_mean_norm_trend", "remove_trend_norm_mean", "transform", "srf_call", "krige_condition",
               "krige_call", "condsrf_call", "fit_variogram", "normalizer", "generator", "array_fn", "covmodel", "geo_tool", "model_eval", "mean_trend"]
DIMS = {
    "vario_estimate": [2, 3, 3, 2, 3, 2, 2, 2, 2, 2, 2, 2, 3],
    "vario_estimate_axis": [2, 3, 2, 2, 2],
    "standard_bins": [3, 2, 2, 2, 4],
    "field_call": [3, 4, 2, 3, 2, 2, 4],
    "post_field": [3, 2, 3, 2],
    "apply_mean_norm_trend": [2, 3, 2, 2, 2, 2],
    "remove_trend_norm_mean": [2, 3, 2, 2, 2, 2],
    "transform": [10, 2, 3, 2, 2, 3, 3],
    "srf_call": [3, 3, 2, 2, 3, 2, 4, 4],
    "krige_condition": [3, 3, 3, 4, 2, 2, 2],
    "krige_call": [3, 2, 4, 2, 2, 2, 3, 2, 2, 4],
    "condsrf_call": [3, 2, 2, 3, 2, 2, 2, 4, 3],
    "fit_variogram": [3, 3, 4, 2, 2, 2],
    "normalizer": [7, 6, 2, 2, 2, 3],
    "generator": [3, 2, 2, 2],
    "array_fn": [8, 2, 3],
    "covmodel": [6, 4, 5, 5, 4],
    "geo_tool": [16, 3, 3],
    "model_eval": [7, 4, 3],
    "mean_trend": [2, 2, 3],
}
DIGIT_NAMES = {
    "vario_estimate": ["pos", "field", "bin_edges", "mask", "direction", "angles", "latlon", "geo_scale!=1", "mean+trend+normalizer",
                       "no_data", "sampling", "structured", "numeric_options"],
    "vario_estimate_axis": ["data", "kind", "missing", "no_data", "axis"],
    "standard_bins": ["pos", "latlon", "geo_scale!=1", "structured", "bin_no+max_dist"],
    "field_call": ["pos", "field", "post_process", "store", "mean+trend+normalizer", "structured", "history"],
    "post_field": ["field", "process", "save", "mean+trend+normalizer"],
    "apply_mean_norm_trend": ["pos", "field", "check_shape", "stacked", "mean+trend+normalizer", "structured"],
    "remove_trend_norm_mean": ["pos", "field", "check_shape", "stacked", "mean+trend+normalizer", "structured"],
    "transform": ["method", "process", "store", "keep_mean", "trend+normalizer", "numeric_args", "source"],
    "srf_call": ["generator", "pos", "structured", "post_process", "store", "mean+trend+normalizer", "point_volumes", "history"],
    "krige_condition": ["cond_pos", "cond_val", "ext_drift", "cond_err", "fit_variogram", "mean+trend+normalizer", "set_condition"],
    "krige_call": ["pos", "structured", "ext_drift", "only_mean", "return_var", "post_process", "store", "chunked",
                   "mean+trend+normalizer", "history"],
    "condsrf_call": ["pos", "structured", "post_process", "store", "krige_store", "mean+trend+normalizer", "nugget", "history", "ext_drift"],
    "fit_variogram": ["x_data", "y_data", "weights", "directional", "latlon", "return_r2"],
    "normalizer": ["class", "method", "data", "nan", "out_of_range", "parameters"],
    "generator": ["generator", "pos", "nugget", "options"],
    "array_fn": ["function", "field", "numeric_args"],
    "covmodel": ["operation", "model_kind", "angles", "anis", "len_scale"],
    "geo_tool": ["function", "array", "options"],
    "model_eval": ["method", "model_kind", "array"],
    "mean_trend": ["operation", "attribute", "value"],
}
QUICK_BUDGET = {"vario_estimate": 3000, "krige_call": 400, "srf_call": 300, "krige_condition": 200, "condsrf_call": 300,
                "field_call": 300, "fit_variogram": 60, "normalizer": 200, "transform": 360, "covmodel": 500}
N_VARIANTS = 3
CFG_COUNT = {k: int(np.prod(v)) for k, v in DIMS.items()}

A_POS, A_FIELD, A_A, A_B, A_CPOS, A_CVAL, A_CEXT, A_CERR, A_KPOS, A_KMAT, A_KVAR, A_MEANF = range(12)
C_FIELD, C_RAWF, C_RAWK, C_X, C_Y, C_Z = range(20, 26)
G_PERIOD = 30
M_ANIS, M_ANGLES, M_MEAN, M_TREND = 40, 41, 42, 43
C_REFEXT, C_REFEXT_Z = 26, 27
ATTR_NAME = {A_POS: "pos", A_FIELD: "field", A_A: "a", A_B: "b", A_CPOS: "_cond_pos", A_CVAL: "_cond_val",
             A_CEXT: "_cond_ext_drift", A_CERR: "_cond_err", A_KPOS: "_krige_pos", A_KMAT: "_krige_mat",
             A_KVAR: "krige_var", A_MEANF: "mean_field", C_FIELD: "field", C_RAWF: "raw_field", C_RAWK: "raw_krige",
             C_X: "x", C_Y: "y", C_Z: "z", G_PERIOD: "_period", M_ANIS: "_anis", M_ANGLES: "_angles", M_MEAN: "_mean", M_TREND: "_trend",
             C_REFEXT: "_krige_ref[raw_krige].ext_drift", C_REFEXT_Z: "_krige_ref[z].ext_drift"}
OBS_ATTRS = {
    "field_call": [A_POS, A_FIELD, A_A], "post_field": [A_POS, A_FIELD, A_A], "srf_call": [A_POS, A_FIELD, A_A],
    "transform": [A_FIELD, A_B],
    "krige_condition": [A_CPOS, A_CVAL, A_CEXT, A_CERR, A_KPOS, A_KMAT],
    "krige_call": [A_POS, A_FIELD, A_KVAR, A_MEANF, A_A, A_B],
    "condsrf_call": [A_POS, C_FIELD, C_RAWF, C_RAWK, C_X, C_Y, C_Z, A_FIELD, A_KVAR, C_REFEXT, C_REFEXT_Z],
    "generator": [G_PERIOD],
    "covmodel": [M_ANIS, M_ANGLES],
    "mean_trend": [M_MEAN, M_TREND],
}


VIEW_NAMES = ["own data", "contiguous view (row / ravel / reshape of an n-D array)", "strided view (column / slice with step)"]
CUR_VIEW = 0


def describe(name, cfg):
    d = dict(zip(DIGIT_NAMES[name], cfg))
    if len(cfg) > len(DIGIT_NAMES[name]):
        d["float64 arguments held as"] = VIEW_NAMES[cfg[len(DIGIT_NAMES[name])]]
    return d


def as_view(vals, kind=None, variant=0):
    """float64 array with the values of `vals`, held by the caller as kind 0 an array that owns its data,
    1 a contiguous view (row / slab of a bigger array, reshape or ravel of an n-D array), 2 a strided view
    (column of a table, slice with a step, transposed buffer).  The shape is the shape of vals."""
    kind = CUR_VIEW if kind is None else kind
    vals = np.ascontiguousarray(vals, dtype=np.double)
    shape = vals.shape
    if kind == 0 or vals.ndim == 0:
        return vals.copy()
    if kind == 1:
        if variant == 0:
            big = np.zeros((3,) + shape); v = big[1]                       # row / slab of a bigger array
        elif variant == 1:
            flat = np.zeros(2 * vals.size + 4); v = flat[2:2 + vals.size].reshape(shape)   # reshape of a slice
        else:
            nd = np.zeros((2, vals.size, 1)); v = nd.ravel()[vals.size:].reshape(shape)     # ravel of an n-D array
    else:
        if variant == 0:
            big = np.zeros(shape + (3,)); v = big[..., 1]                   # column of a C-ordered table
        elif variant == 1:
            big = np.zeros(shape[:-1] + (2 * shape[-1] + 1,)); v = big[..., 1::2]            # slice with step
        else:
            v = np.zeros(shape[::-1]).T if vals.ndim > 1 else np.zeros(vals.size + 2)[::-1][1:-1]   # transposed / reversed
    v[...] = vals
    return v


def nontrivial(name, cfg):
    d = describe(name, cfg)
    alias_digits = [k for k in d if k in ("pos", "field", "bin_edges", "data", "cond_pos", "cond_val", "x_data", "y_data")]
    if name == "array_fn":
        return d["field"] == 0
    if name in ("geo_tool", "model_eval"):
        return d["array"] < 2
    if name in ("transform", "post_field", "condsrf_call", "krige_call"):
        return True
    if name == "mean_trend":
        return d["value"] == 0
    if d.get("history", 0):
        return True
    for k in alias_digits:
        if name == "field_call" and k == "field":
            if d[k] in (1, 2):
                return True
        elif k == "bin_edges":
            if d[k] == 1:
                return True
        elif d[k] == 0:
            return True
    return False


class World:
    """one realised configuration: caller cells, earlier results, the call, observable attributes"""

    def __init__(self, name, nargs):
        self.name = name
        self.nargs = nargs
        self.unpredicted_aliases = []
        self.other_mismatch = None
        self.extra = []             # (label, array): arrays returned by caller-supplied callables - read-only inputs
        self.pos_expect = None      # positions the object must hold after the call (values)
        self.result_probe = None    # optional: () -> array computed from the stored state
        self.cells = [[] for _ in range(nargs)]
        self.cell_names = ["arg%d" % i for i in range(nargs)]
        self.obs_attrs = OBS_ATTRS.get(name, [])
        self.objs = {}          # attribute id -> owning object (default: self.obj)
        self.obj = None
        self.call = None
        self.nret = 0

    def arg(self, i, label, arrs):
        self.cells[i] = [a for a in arrs if isinstance(a, np.ndarray)]
        self.cell_names[i] = label

    def pre(self, attr_id, arrs, label=None):
        self.cells.append([a for a in arrs if isinstance(a, np.ndarray)])
        self.cell_names.append("stored:" + (label or ATTR_NAME[attr_id]))

    @property
    def n0(self):
        return len(self.cells)

    def attr(self, a):
        obj = self.objs.get(a, self.obj)
        if a in (C_REFEXT, C_REFEXT_Z):     # the ext_drift remembered by CondSRF for its reuse test
            ref = getattr(obj, "_krige_ref", {}).get("raw_krige" if a == C_REFEXT else "z")
            v = ref[4] if (ref is not None and len(ref) > 4) else None
            return v if isinstance(v, np.ndarray) else None
        nm = ATTR_NAME[a]
        if a in (A_FIELD, A_A, A_B, A_KVAR, A_MEANF, C_FIELD, C_RAWF, C_RAWK, C_X, C_Y, C_Z):
            if nm not in obj.field_names:
                return None
        v = getattr(obj, nm, None)
        if isinstance(v, np.ndarray) and v.size == 0 and a == A_CEXT:
            return v
        return v if isinstance(v, (np.ndarray, tuple, list)) else None

    def slot_name(self, i):
        if i < self.nret:
            return "ret%d" % i
        j = i - self.nret
        return "attr:" + ATTR_NAME[self.obs_attrs[j]] if j < len(self.obs_attrs) else "slot%d" % i


def factor(n):
    for a in range(2, n):
        if n % a == 0 and n // a >= 2:
            return a, n // a
    return None


def mk_lay(values, lay, variant, reshape=True, lead=0, ndarray_only=False):
    """an array-like holding `values` (float64 ndarray of the target shape) whose conversion
    np.asarray(x, double).reshape(target) is: lay 0 an alias, lay 1 asarray alias + reshape copy,
    lay 2 a conversion copy.  Returns (object to pass, list of caller-held ndarrays)."""
    values = np.ascontiguousarray(values, dtype=np.double)
    shape = values.shape
    if lay == 0 and CUR_VIEW:
        v = as_view(values, CUR_VIEW, variant)
        return v, [v]
    if lay == 0:
        if variant == 1:
            big = np.zeros(values.size + 5)
            v = big[3:3 + values.size].reshape(shape)
            v[...] = values
            return v, [v]
        if variant == 2 and reshape:
            v = values.reshape(shape + (1,)).copy()
            return v, [v]
        v = values.copy()
        return v, [v]
    if lay == 1:
        head = shape[:lead]
        n = int(np.prod(shape[lead:]))
        pairs = [(a, n // a) for a in range(2, n) if n % a == 0]
        if variant == 1:
            pairs = pairs[::-1]
        for a, b in pairs:
            src = np.zeros(head + (b, a))
            v = np.swapaxes(src, -1, -2)   # shape head + (a, b), last two axes Fortran ordered
            v[...] = values.reshape(head + (a, b))
            if not np.shares_memory(np.asarray(v, dtype=np.double).reshape(shape), v):
                return v, [v]
        raise RuntimeError("cannot build a non-viewable float64 layout for shape %s" % (shape,))
    # conversion copies
    if ndarray_only:
        v = values.astype(np.float32)
        return v, [v]
    if variant == 1:
        return values.tolist(), []
    if variant == 2 and values.ndim == 2:
        rows = [r.copy() for r in values]
        return tuple(rows), rows       # tuple of float64 rows: np.asarray stacks them into a new array
    v = values.astype(np.float32)
    return v, [v]


def mtn_kwargs(on, vector=False, variant=0, w=None, const_mean=False):
    """mean / trend / normalizer of a configuration with the digit 'mean+trend+normalizer' on.
    realisation 0: scalar mean, a trend callable that returns a NEW array, LogNormal normalizer;
    realisation 1: identity normalizer, non-zero scalar mean and a trend callable that returns a ROW OF THE POSITIONS
                   it was given (an existing array: the caller's coordinate row or the object's stored positions);
    realisation 2: identity normalizer, mean and trend callables that return (slices of) arrays held by the caller in
                   a closure (values pre-computed at the points, regression kriging style).
    Arrays returned by callables are read-only inputs: they are registered in w.extra and must keep their bytes."""
    import gstools as gs
    if not on:
        return {}
    if vector:
        return dict(mean=0.5, trend=0.1, normalizer=gs.normalizer.LogNormal())
    if variant == 0 or w is None:
        return dict(mean=0.3, trend=(lambda *x: 0.01 * x[0]), normalizer=gs.normalizer.LogNormal())
    if variant == 1:
        if CUR_VIEW == 1 and not const_mean:     # the MEAN callable hands back the coordinate row, constant trend
            return dict(mean=(lambda *x: x[0]), trend=0.5)
        return dict(mean=3.0, trend=(lambda *x: x[0]))
    big_t = np.linspace(0.5, 1.5, 160)
    big_m = np.linspace(2.0, 3.0, 160)
    w.extra.append(("array returned by the trend callable", big_t))
    if const_mean:
        return dict(mean=3.0, trend=(lambda *x: big_t[:np.size(x[0])]))
    w.extra.append(("array returned by the mean callable", big_m))
    return dict(mean=(lambda *x: big_m[:np.size(x[0])]), trend=(lambda *x: big_t[:np.size(x[0])]))


def f32exact(a):
    """round to values that are exactly representable in float32: a float32 / list realisation of the same positions
    then converts to exactly the same float64 values (Field._pos_equal compares exactly since /repo 1925c43)"""
    return np.asarray(a, dtype=np.float32).astype(np.double)


def base_values(rng, structured, latlon=False, other=False, st=False):
    """positions (float64, target layout) and the field shape"""
    if st:      # latitude, longitude, time
        off = 3.0 if other else 0.0
        if structured:
            ax = (np.sort(rng.uniform(-60, 60, 4)) + off, np.sort(rng.uniform(-150, 150, 6)), np.sort(rng.uniform(0, 10, 4)))
            return tuple(f32exact(a) for a in ax), (4, 6, 4)
        n = 6
        return f32exact(np.vstack([rng.uniform(-60, 60, n) + off, rng.uniform(-150, 150, n), rng.uniform(0, 10, n)])), (n,)
    if structured:
        if latlon:
            x = np.sort(rng.uniform(-60, 60, 4)); y = np.sort(rng.uniform(-150, 150, 6))
        else:
            x = np.sort(rng.uniform(0, 10, 4)) + (3.0 if other else 0.0); y = np.sort(rng.uniform(0, 10, 6))
        return (f32exact(x), f32exact(y)), (4, 6)
    n = 6
    if latlon:
        pos = np.vstack([rng.uniform(-60, 60, n), rng.uniform(-150, 150, n)])
    else:
        pos = rng.uniform(0, 10, (2, n)) + (3.0 if other else 0.0)
    return f32exact(pos), (n,)


def mk_pos(values, lay, variant, structured):
    """-> (pos object to pass, caller-held arrays)"""
    if structured:
        objs, held = [], []
        for ax in values:
            o, h = mk_lay(ax, lay, variant)
            objs.append(o); held += h
        return tuple(objs), held
    return mk_lay(values, lay, variant)


def the_model(nugget=0.0, latlon=False, st=False):
    import gstools as gs
    if st:      # lat-lon + time model with a time anisotropy != 1: isometrize() scales the time axis
        return gs.Gaussian(latlon=True, temporal=True, var=1.5, len_scale=700.0, anis=0.25, nugget=nugget,
                           geo_scale=gs.KM_SCALE)
    if latlon:
        return gs.Exponential(latlon=True, var=1.5, len_scale=0.5, nugget=nugget, geo_scale=gs.KM_SCALE)
    return gs.Gaussian(dim=2, var=1.5, len_scale=2.0, nugget=nugget)


# ---- vario_estimate
def real_vario_estimate(cfg, rng, variant):
    import gstools as gs
    posd, kind, be, mask, dr, ang, latlon, geo, mtn, nodata, sampling, structured, nopt = cfg
    w = World("vario_estimate", 7)
    pv, fshape = base_values(rng, structured, latlon)
    pos, held = mk_pos(pv, 0 if posd == 0 else 2, variant, structured) if structured else \
        mk_lay(pv, 0 if posd == 0 else 2, variant, reshape=False)
    w.arg(0, "pos", held)
    fv = rng.uniform(1.0, 2.0, fshape)
    if nodata:
        fv.flat[1] = -999.0
    elif not mtn:
        fv.flat[2] = -0.0
    if kind == 0:
        field = as_view(fv, None, variant); w.arg(1, "field", [field])
    elif kind == 1:
        field = fv.astype(np.float32) if variant != 1 else fv.tolist()
        w.arg(1, "field", [field] if isinstance(field, np.ndarray) else [])
    else:
        m = np.zeros(fshape, dtype=bool); m.flat[0] = True
        field = np.ma.array(fv.copy(), mask=m)
        w.arg(1, "field.data", [np.ma.getdata(field)]); w.arg(2, "field.mask", [np.ma.getmaskarray(field)])
    kw = {}
    if be:
        top = (6000.0 if geo else 1.0) if latlon else 6.0
        bev = np.linspace(0.0, top, 4)
        if be == 1:
            bev = as_view(bev, None, variant); kw["bin_edges"] = bev; w.arg(3, "bin_edges", [bev])
        else:
            kw["bin_edges"] = bev.tolist() if variant != 2 else bev.astype(np.float32)
            w.arg(3, "bin_edges", [kw["bin_edges"]] if isinstance(kw["bin_edges"], np.ndarray) else [])
    if mask:
        mk = np.zeros(fshape, dtype=bool); mk.flat[3] = True
        kw["mask"] = mk; w.arg(4, "mask", [mk])
    if dr:
        dv = np.array([[1.0, 0.0], [0.0, 1.0]]) if variant != 2 else np.array([1.0, 1.0])
        if dr == 1:
            dv = as_view(dv, None, variant)
        kw["direction"] = dv if dr == 1 else dv.tolist()
        w.arg(5, "direction", [dv] if dr == 1 else [])
    if ang:
        av = np.array([0.3]); kw["angles"] = av; w.arg(6, "angles", [av])
    if nodata:
        kw["no_data"] = -999.0
    if sampling:
        kw.update(sampling_size=[4, 3, 5][nopt], sampling_seed=3 + nopt)
    kw.update(mtn_kwargs(mtn, variant=variant, w=w))
    scale = gs.KM_SCALE if geo else gs.RADIAN_SCALE
    if nopt == 1:       # non-default numeric options
        kw.update(estimator="cressie", bandwidth=2.0, angles_tol=0.3)
        if not be:
            kw.update(bin_no=4, max_dist=(3000.0 if geo else 0.6) if latlon else 5.0)
    elif nopt == 2:
        kw.update(bandwidth=0.5, angles_tol=1.0)
        if not be:
            kw.update(bin_no=3)
        if geo and latlon and be:
            scale = gs.DEGREE_SCALE
            kw["bin_edges"] = None
            bev = np.linspace(0.0, 60.0, 4); kw["bin_edges"] = bev if be == 1 else bev.tolist()
            w.arg(3, "bin_edges", [bev] if be == 1 else [])
    kw.update(latlon=bool(latlon), geo_scale=scale,
              mesh_type="structured" if structured else "unstructured", return_counts=True)
    w.nret = 3
    w.call = lambda: list(gs.vario_estimate(pos, field, **kw))
    return w


# ---- vario_estimate_axis
def real_vario_estimate_axis(cfg, rng, variant):
    import gstools as gs
    f64, kind, missing, nodata, axis = cfg
    w = World("vario_estimate_axis", 2)
    fv = rng.uniform(1.0, 2.0, (4, 6))
    if missing:
        fv[1, 2] = -999.0 if nodata else np.nan
    data = as_view(fv, None, variant) if f64 == 0 else fv.astype(np.float32)
    if kind == 0:
        field = data
    elif kind == 1:
        field = np.ma.array(data)
    else:
        m = np.zeros((4, 6), dtype=bool); m[0, 0] = True; m[2, 3] = True
        field = np.ma.array(data, mask=m)
        w.arg(1, "field.mask", [np.ma.getmaskarray(field)])
    w.arg(0, "field.data", [np.ma.getdata(field)])
    kw = dict(no_data=-999.0) if nodata else {}
    w.nret = 1
    w.call = lambda: [gs.vario_estimate_axis(field, direction="x" if axis == 0 else ("y" if variant != 2 else 1), **kw)]
    return w


# ---- standard_bins
def real_standard_bins(cfg, rng, variant):
    import gstools as gs
    lay, latlon, geo, structured, given = cfg
    w = World("standard_bins", 1)
    pv, _ = base_values(rng, structured, latlon)
    pos, held = mk_pos(pv, lay, variant, structured)
    w.arg(0, "pos", held)
    kw = [{}, dict(bin_no=5), dict(max_dist=3.0), dict(bin_no=5, max_dist=3.0)][given]
    w.nret = 1
    w.call = lambda: [gs.standard_bins(pos, dim=2, latlon=bool(latlon), mesh_type="structured" if structured else "unstructured",
                                       geo_scale=(gs.KM_SCALE if geo else gs.RADIAN_SCALE), **kw)]
    return w


def field_history(w, obj, rng, structured, hist, call0, extra_pre=(), st=False):
    """earlier call on the object; registers the earlier results as cells; returns position values
    (None for history 3: the call under test is made WITHOUT pos, on the stored positions)"""
    pv0, fshape = base_values(rng, structured, st=st)
    if hist:
        call0(pv0)
        p = obj.pos
        w.pre(A_POS, list(p) if isinstance(p, tuple) else [p])
        for a, o, nm in extra_pre:
            w.pre(a, [getattr(o, nm)], label=nm)
    if hist == 1:
        w.pos_expect = pv0
        return (tuple(a.copy() for a in pv0) if structured else pv0.copy()), fshape
    if hist == 2:
        pv, _ = base_values(rng, structured, other=True, st=st)
        w.pos_expect = pv
        return pv, fshape
    w.pos_expect = pv0
    if hist == 3:
        return None, fshape
    return pv0, fshape


def mk_pos_opt(w, pv, lay, variant, structured):
    """position argument (None when the stored positions are to be used)"""
    if pv is None:
        return None
    pos, held = mk_pos(pv, lay, variant, structured)
    w.arg(0, "pos", held)
    return pos


STORE3 = {0: True, 1: "a", 2: False}


# ---- Field.__call__
def real_field_call(cfg, rng, variant):
    import gstools as gs
    play, fld, pp, store, mtn, structured, hist = cfg
    w = World("field_call", 2)
    st = variant == 2       # realisation 2: lat-lon + time model (time anisotropy != 1), positions (lat, lon, t)
    obj = gs.field.Field(the_model(st=st), **mtn_kwargs(mtn, variant=variant, w=w))
    w.obj = obj
    mt = "structured" if structured else "unstructured"
    pv, fshape = field_history(w, obj, rng, structured, hist, lambda p: obj(p, mesh_type=mt),
                               extra_pre=[(A_FIELD, obj, "field")], st=st)
    pos = mk_pos_opt(w, pv, play, variant, structured)
    arr = None
    if fld:
        arr, h = mk_lay(rng.normal(size=fshape), fld - 1, variant)
        w.arg(1, "field", h)
    w.nret = 1
    w.call = lambda: [obj(pos, field=arr, mesh_type=mt, post_process=bool(pp), store=STORE3[store])]
    return w


# ---- Field.post_field
def real_post_field(cfg, rng, variant):
    import gstools as gs
    lay, process, save, mtn = cfg
    w = World("post_field", 1)
    obj = gs.field.Field(the_model(), **mtn_kwargs(mtn, variant=variant, w=w))
    w.obj = obj
    pv, fshape = base_values(rng, False)
    obj(pv)
    w.pos_expect = pv
    arr, h = mk_lay(rng.normal(size=fshape), lay, variant)
    w.arg(0, "field", h)
    w.pre(A_POS, [obj.pos]); w.pre(A_FIELD, [obj.field])
    w.nret = 1
    w.call = lambda: [obj.post_field(arr, name="a" if save == 1 else "field", process=bool(process), save=save != 2)]
    return w


# ---- apply_mean_norm_trend / remove_trend_norm_mean
def real_mnt_tool(which):
    def real(cfg, rng, variant):
        import gstools as gs
        posd, lay, check_shape, stacked, mtn, structured = cfg
        w = World(which, 2)
        pv, fshape = base_values(rng, structured)
        pos, held = mk_pos(pv, 0 if posd == 0 else 2, variant, structured)
        if not structured and posd == 1 and not check_shape:
            pos = tuple(np.asarray(r, dtype=float) for r in pv); held = list(pos)   # dim = len(pos) must be 2
        w.arg(0, "pos", held)
        shape = ((2,) + fshape) if stacked else fshape
        vals = rng.uniform(1.0, 2.0, shape)
        if check_shape:    # the code reads field.shape: ndarray inputs only, leading stack axis kept
            arr, h = mk_lay(vals, lay, variant if lay else variant % 2, lead=1 if stacked else 0, ndarray_only=True)
        else:   # no reshape in the code: the array must already have the target shape
            arr, h = mk_lay(vals, 0 if lay < 2 else 2, 0 if lay == 2 else variant % 2, reshape=False)
        w.arg(1, "field", h)
        fn = getattr(gs.normalizer, which)
        mkw = mtn_kwargs(mtn, variant=variant, w=w)
        w.nret = 1
        w.call = lambda: [fn(pos, arr, mesh_type="structured" if structured else "unstructured",
                             check_shape=bool(check_shape), stacked=bool(stacked), **mkw)]
        return w
    return real


METHODS = ["binary", "discrete", "boxcox", "zinnharvey", "normal_force_moments", "normal_to_lognormal",
           "normal_to_uniform", "normal_to_arcsin", "normal_to_uquad", "apply_function"]


def transform_args(method, opt, w=None, direct=False):
    """numeric / option arguments of a transform: opt 0 defaults, 1 and 2 non-default sets.
    array arguments given by the caller are registered as cells of w"""
    base = 1 if direct else 0        # argument index of values / thresholds
    if method == 0:      # binary
        return [{}, dict(divide=0.8, upper=2.5, lower=-1.5), dict(upper=3.0)][opt]
    if method == 1:      # discrete
        if opt == 0:
            return dict(values=[1.0, 2.0, 3.0])
        vals = np.array([1.0, 2.0, 4.0])
        if w is not None:
            w.arg(base, "values", [vals])
        if opt == 1:
            thr = np.array([0.7, 1.4])
            if w is not None:
                w.arg(base + 1, "thresholds", [thr])
            return dict(values=vals, thresholds=thr)
        return dict(values=vals, thresholds="equal")
    if method == 2:      # boxcox
        return [dict(lmbda=0.5), dict(lmbda=0.5, shift=1.5), dict(lmbda=0, shift=2.0)][opt]
    if method == 3:      # zinnharvey
        return [{}, dict(conn="low"), dict(conn="high")][opt]
    if method == 6:      # uniform
        return [{}, dict(low=2.0, high=5.0), dict(low=-1.0)][opt]
    if method in (7, 8):  # arcsin, uquad
        return [{}, dict(a=1.0, b=3.0), dict(a=-2.0)][opt]
    if method == 9:      # user function
        return [dict(function=lambda x: 2.0 * x + 1.0), dict(function=lambda x, k, s: k * x + s, k=3.0, s=1.5),
                dict(function=np.exp)][opt]
    return {}


# ---- Field.transform and the transform wrappers
def real_transform(cfg, rng, variant):
    import gstools as gs
    method, process, store, keep_mean, mtn, opt, src = cfg
    w = World("transform", 2)
    kw = dict(mean=1.0)
    if mtn:
        if variant == 0:
            kw.update(trend=(lambda *x: 0.01 * x[0]), normalizer=gs.normalizer.LogNormal())
        else:   # identity normalizer, trend callable returning an existing array (position row / closure-held array)
            kw.update({k2: v2 for k2, v2 in mtn_kwargs(1, variant=variant, w=w, const_mean=True).items() if k2 == "trend"})
    structured = variant == 2
    pv, fshape = base_values(rng, structured)
    mt = "structured" if structured else "unstructured"
    caller_arr = []
    if src == 0:
        obj = gs.SRF(the_model(), seed=int(rng.integers(1 << 30)), mode_no=20, **kw)
        obj(pv, mesh_type=mt)
    elif src == 1:
        cpv, cvv = cond_values(rng, 8)
        obj = gs.krige.Krige(the_model(), cpv, cvv, **kw)
        obj(pv, mesh_type=mt, return_var=False)
    else:       # the stored field IS the caller's array (stored without post-processing)
        obj = gs.field.Field(the_model(), **kw)
        arr = as_view(rng.uniform(1.0, 2.0, fshape), None, variant)
        obj(pv, field=arr, mesh_type=mt, post_process=False)
        caller_arr = [arr]
    w.obj = obj
    p = obj.pos
    w.pre(A_POS, list(p) if isinstance(p, tuple) else [p])
    w.pre(A_FIELD, [obj.field] + caller_arr, label="field" + (" (= caller's array)" if caller_arr else ""))
    extra = transform_args(method, opt, w)
    st = {0: True, 1: "b", 2: False}[store]
    name = METHODS[method]
    w.nret = 1
    if variant == 1:     # module-level wrapper functions
        fn = getattr(gs.transform, name)
        w.call = lambda: [fn(obj, store=st, process=bool(process), keep_mean=bool(keep_mean), **extra)]
    elif variant == 2:   # transform.apply
        w.call = lambda: [gs.transform.apply(obj, name, store=st, process=bool(process), keep_mean=bool(keep_mean), **extra)]
    else:                # Field.transform
        w.call = lambda: [obj.transform(name, store=st, process=bool(process), keep_mean=bool(keep_mean), **extra)]
    return w


ARRAY_FNS = ["array_discrete", "array_boxcox", "array_zinnharvey", "array_force_moments", "array_to_lognormal",
             "array_to_uniform", "array_to_arcsin", "array_to_uquad"]


# ---- gstools.transform.array_* called directly on a caller array
def real_array_fn(cfg, rng, variant):
    import gstools as gs
    fn, dd, opt = cfg
    w = World("array_fn", 3)
    vals = rng.normal(size=(9,) if variant != 2 else (3, 4))
    if dd == 0:
        data, h = mk_lay(vals, 0, variant % 2, reshape=False)
    else:
        data, h = mk_lay(vals, 2, variant % 2, reshape=False)
    w.arg(0, "field", h)
    mv = [{}, dict(mean=0.3, var=2.0), dict(mean=-1.0)][opt]
    if fn == 0:
        kw = transform_args(1, opt, w, direct=True)
        if opt == 2:
            kw.update(mean=0.2, var=1.5)
    elif fn == 1:
        kw = transform_args(2, opt)
    elif fn == 2:
        kw = dict(transform_args(3, opt), **mv)
    elif fn == 3:
        kw = [{}, dict(mean=2.0, var=3.0), dict(var=0.5)][opt]
    elif fn == 4:
        kw = {}
    elif fn == 5:
        kw = dict(transform_args(6, opt), **mv)
    else:
        kw = dict(transform_args(7, opt), **mv)
    f = getattr(gs.transform, ARRAY_FNS[fn])
    w.nret = 1
    w.call = lambda: [f(data, **kw)]
    return w


# ---- SRF.__call__
def real_srf_call(cfg, rng, variant):
    import gstools as gs
    gen, play, structured, pp, store, mtn, pvd, hist = cfg
    w = World("srf_call", 2)
    gkw = dict(generator=["RandMeth", "VectorField", "Fourier"][gen])
    if gen == 2:
        gkw.update(period=[20.0, 20.0], mode_no=[8, 8])
    elif gen == 0:
        gkw.update(mode_no=20)
    else:
        gkw.update(mode_no=20)
    st = variant == 2 and gen == 0 and pvd == 0     # lat-lon + time model (RandMeth, no upscaling)
    obj = gs.SRF(the_model(st=st), seed=int(rng.integers(1 << 30)), upscaling="coarse_graining", **gkw,
                 **mtn_kwargs(mtn, vector=gen == 1, variant=variant, w=w))
    w.obj = obj
    mt = "structured" if structured else "unstructured"
    pv, fshape = field_history(w, obj, rng, structured, hist, lambda p: obj(p, mesh_type=mt),
                               extra_pre=[(A_FIELD, obj, "field")], st=st)
    pos = mk_pos_opt(w, pv, play, variant, structured)
    kw = {}
    if pvd:
        vol = rng.uniform(0.5, 1.5, fshape)
        if pvd == 3:
            kw["point_volumes"] = 1.7
        elif pvd == 1:
            kw["point_volumes"] = vol; w.arg(1, "point_volumes", [vol])
        else:
            kw["point_volumes"] = vol.astype(np.float32); w.arg(1, "point_volumes", [kw["point_volumes"]])
    w.nret = 1
    w.call = lambda: [obj(pos, seed=int(7), mesh_type=mt, post_process=bool(pp), store=STORE3[store], **kw)]
    return w


def cond_values(rng, n=10, st=False):
    if st:
        cp = np.vstack([rng.uniform(-60, 60, n), rng.uniform(-150, 150, n), rng.uniform(0, 10, n)])
    else:
        cp = rng.uniform(0, 10, (2, n))
    cv = rng.uniform(1.0, 2.0, n)
    return cp, cv


# ---- Krige.__init__ / set_condition
def real_krige_condition(cfg, rng, variant):
    import gstools as gs
    cpl, cvl, ext, err, fitv, mtn, recond = cfg
    w = World("krige_condition", 4)
    n = 10
    st = variant == 2 and not fitv      # lat-lon + time model (fit_variogram is rejected for it)
    cpv, cvv = cond_values(rng, n, st)
    cp, h = mk_lay(cpv, cpl, variant); w.arg(0, "cond_pos", h)
    cv, h = mk_lay(cvv, cvl, variant); w.arg(1, "cond_val", h)
    kw = {}
    if ext:
        ev = rng.normal(size=n)
        e, h = mk_lay(ev, 0 if ext == 1 else 2, variant, reshape=False)
        kw["ext_drift"] = e; w.arg(2, "ext_drift", h)
    if err == 1:
        kw["cond_err"] = 0.1
    elif err >= 2:
        ce, h = mk_lay(rng.uniform(0.05, 0.2, n), 0 if err == 2 else 2, variant if err == 2 else 0)
        kw["cond_err"] = ce; w.arg(3, "cond_err", h)
    kw["fit_variogram"] = bool(fitv)
    mkw = mtn_kwargs(mtn, variant=variant, w=w)
    probe_pos = cond_values(rng, 4, st)[0]
    getk = {}
    w.result_probe = lambda: getk["k"]()(probe_pos, ext_drift=(np.linspace(0.0, 1.0, 4) if ext else None),
                                         return_var=False, store=False)      # kriging from the stored conditions
    ckw = {}            # constructor-only numeric / flag options, varied with the realisation
    if variant == 1:
        ckw = dict(pseudo_inv_type="pinvh", exact=(err == 0))
    elif variant == 2:
        ckw = dict(unbiased=False, pseudo_inv=False)
    holder = {}
    w.nret = 0
    if recond:
        cp0, cv0 = cond_values(rng, n, st)
        k0 = gs.krige.Krige(the_model(nugget=0.1 * variant, st=st), cp0, cv0, ext_drift=(rng.normal(size=n) if ext else None),
                            **ckw, **mkw)
        w.obj = k0
        for a in (A_CPOS, A_CVAL, A_CEXT, A_KPOS, A_KMAT):
            w.pre(a, [getattr(k0, ATTR_NAME[a])])

        getk["k"] = lambda: k0

        def call():
            k0.set_condition(cp, cv, **kw)
            return []
        w.call = call
    else:
        class Late:     # the object exists only after the call
            field_names = []

            def __getattr__(self, nm):
                return getattr(holder["k"], nm)
        w.obj = Late()
        getk["k"] = lambda: holder["k"]

        def call():
            holder["k"] = gs.krige.Krige(the_model(nugget=0.1 * variant, st=st), cp, cv, **kw, **ckw, **mkw)
            return []
        w.call = call
    return w


STORE_K = {0: True, 1: ["a", "b"], 2: False}


# ---- Krige.__call__
def real_krige_call(cfg, rng, variant):
    import gstools as gs
    play, structured, ext, only_mean, rv, pp, store, chunk, mtn, hist = cfg
    w = World("krige_call", 2)
    n = 8
    st = variant == 2
    cpv, cvv = cond_values(rng, n, st)
    ckw = [{}, dict(exact=True, pseudo_inv_type="pinvh"), dict(unbiased=False, cond_err=rng.uniform(0.05, 0.2, n))][variant]
    k = gs.krige.Krige(the_model(nugget=0.1 * variant, st=st), cpv, cvv, ext_drift=(rng.normal(size=n) if ext else None),
                       **ckw, **mtn_kwargs(mtn, variant=variant, w=w))
    w.obj = k
    mt = "structured" if structured else "unstructured"
    for a in (A_CPOS, A_CVAL, A_CEXT, A_KPOS, A_KMAT):
        w.pre(a, [getattr(k, ATTR_NAME[a])])
    npts = ((96 if st else 24) if structured else 6)
    pv, fshape = field_history(w, k, rng, structured, hist,
                               lambda p: k(p, mesh_type=mt, ext_drift=(rng.normal(size=npts) if ext else None)),
                               extra_pre=[(A_FIELD, k, "field"), (A_KVAR, k, "krige_var")], st=st)
    pos = mk_pos_opt(w, pv, play, variant, structured)
    kw = {}
    if ext:
        e, h = mk_lay(rng.normal(size=(1, npts)), ext - 1, variant)
        if ext == 1 and variant == 0:
            e = e.reshape(-1); h = [e]
        kw["ext_drift"] = e; w.arg(1, "ext_drift", h)
    if chunk:
        kw["chunk_size"] = [4, 1, 5][variant]
    two = bool(rv) and not only_mean
    w.nret = 2 if two else 1

    def call():
        r = k(pos, mesh_type=mt, only_mean=bool(only_mean), return_var=bool(rv), post_process=bool(pp),
              store=STORE_K[store], **kw)
        return list(r) if two else [r]
    w.call = call
    return w


# ---- CondSRF.__call__
def real_condsrf_call(cfg, rng, variant):
    import gstools as gs
    play, structured, pp, store, kstore, mtn, nugget, hist, ext = cfg
    w = World("condsrf_call", 2)
    n = 8
    stk = variant == 2
    cpv, cvv = cond_values(rng, n, stk)
    cext = rng.normal(size=n) if ext else None
    mkw = mtn_kwargs(mtn, variant=variant, w=w)
    k = gs.krige.Krige(the_model(nugget=0.2 if nugget else 0.0, st=stk), cpv, cvv, ext_drift=cext, **mkw)
    gseed = int(rng.integers(1 << 30))
    c = gs.CondSRF(k, seed=gseed, mode_no=20)
    w.obj = c
    for a in (A_POS, A_FIELD, A_KVAR, A_CPOS, A_CVAL, A_CEXT, A_KPOS, A_KMAT):
        w.objs[a] = k
    mt = "structured" if structured else "unstructured"
    for a in (A_CPOS, A_CVAL, A_CEXT, A_KPOS, A_KMAT):
        w.pre(a, [getattr(k, ATTR_NAME[a])])
    pv0, fshape = base_values(rng, structured, st=stk)
    npts = int(np.prod(fshape))
    extv = f32exact(rng.normal(size=npts))       # the drift values at the target points (the same in the earlier call)
    ekw = {}
    if hist:
        c(pv0, mesh_type=mt, **(dict(ext_drift=extv.copy()) if ext else {}))
        p = k.pos
        w.pre(A_POS, list(p) if isinstance(p, tuple) else [p])
        w.pre(C_FIELD, [c.field]); w.pre(C_RAWF, [c.raw_field]); w.pre(C_RAWK, [c.raw_krige])
        w.pre(A_FIELD, [k.field], label="krige.field"); w.pre(A_KVAR, [k.krige_var], label="krige.krige_var")
        if ext:
            w.pre(C_REFEXT, [c._krige_ref["raw_krige"][4]])
    if hist == 1:
        pv = tuple(a.copy() for a in pv0) if structured else pv0.copy()
    elif hist == 2:
        pv, _ = base_values(rng, structured, other=True, st=stk)
    elif hist == 3:
        pv = None
    else:
        pv = pv0
    w.pos_expect = pv0 if pv is None else pv
    pos = mk_pos_opt(w, pv, play, variant, structured)
    st = {0: True, 1: ["x", "y", "z"], 2: False}[store]
    if ext:
        if ext == 1:
            e = as_view(extv, None, variant) if (CUR_VIEW or variant != 1) else as_view(extv.reshape(fshape), 0)
            ekw["ext_drift"] = e; w.arg(1, "ext_drift", [e])
        else:
            e = extv.astype(np.float32) if variant != 1 else extv.tolist()
            ekw["ext_drift"] = e; w.arg(1, "ext_drift", [e] if isinstance(e, np.ndarray) else [])
        def stale():
            """conditioned field on the stored positions with the caller's (possibly edited) drift array minus the
            field of a FRESH CondSRF with the same conditions, seed and drift: zero unless stale kriging is reused"""
            got = c(seed=11, ext_drift=ekw["ext_drift"], store=False, krige_store=False)
            k2 = gs.krige.Krige(the_model(nugget=0.2 if nugget else 0.0, st=stk), cpv, cvv, ext_drift=cext, **mkw)
            c2 = gs.CondSRF(k2, seed=gseed, mode_no=20)
            ref = c2(k.pos, seed=11, mesh_type=k.mesh_type, ext_drift=np.array(ekw["ext_drift"], dtype=float),
                     store=False, krige_store=False)
            return np.round(got - ref, 9)
        w.result_probe = stale if not nugget else None
    w.nret = 1
    w.call = lambda: [c(pos, seed=11, mesh_type=mt, post_process=bool(pp), store=st, krige_store=bool(kstore), **ekw)]
    return w


# ---- CovModel.fit_variogram
def real_fit_variogram(cfg, rng, variant):
    import gstools as gs
    xl, yl, wd, dirv, latlon, r2 = cfg
    w = World("fit_variogram", 3)
    nb = 8
    if latlon:
        model = gs.Exponential(latlon=True, geo_scale=gs.KM_SCALE, len_scale=500.0)
        xv = np.linspace(100.0, 3000.0, nb)
        yv = 1.2 * (1 - np.exp(-xv / 700.0))
    else:
        model = gs.Exponential(dim=2, len_scale=2.0)
        xv = np.linspace(0.5, 8.0, nb)
        yv = 1.2 * (1 - np.exp(-xv / 2.0))
    yv = yv + rng.normal(scale=0.01, size=nb)
    if dirv:
        yv = np.concatenate([yv, 0.9 * yv])
    x, h = mk_lay(xv, xl, variant); w.arg(0, "x_data", h)
    y, h = mk_lay(yv, yl, variant); w.arg(1, "y_data", h)
    kw = {}
    if wd == 1:
        kw["weights"] = "inv"
    elif wd >= 2:
        wv = np.linspace(1.0, 2.0, nb)
        if wd == 3:
            wv = wv.astype(np.float32)
        kw["weights"] = wv; w.arg(2, "weights", [wv])
    w.nret = 1

    if variant == 1:
        kw.update(init_guess={"default": "current", "len_scale": float(xv[2])}, sill=1.3, loss="linear")
    elif variant == 2:
        kw.update(method="dogbox", max_eval=200, nugget=False, init_guess="current")
        model.set_arg_bounds(len_scale=[float(xv[0]) / 10, float(xv[-1]) * 10])

    def call():
        r = model.fit_variogram(x, y, return_r2=bool(r2), **kw)
        return [r[1]]
    w.call = call
    return w


NORM_CLASSES = ["Normalizer", "LogNormal", "BoxCox", "BoxCoxShift", "YeoJohnson", "Modulus", "Manly"]
NORM_METHODS = ["normalize", "denormalize", "derivative", "fit", "loglikelihood", "kernel_loglikelihood"]


# ---- Normalizer.*
def real_normalizer(cfg, rng, variant):
    import gstools as gs
    cls, meth, dd, nan, oor, par = cfg
    w = World("normalizer", 1)
    pk = {}
    if par and cls >= 2:       # non-default parameters: the lmbda = 0 / lmbda = 2 branches, shifts
        pk = {2: [dict(lmbda=0.0), dict(lmbda=-0.7)], 3: [dict(lmbda=0.0, shift=1.5), dict(lmbda=2.0, shift=6.0)],
              4: [dict(lmbda=0.0), dict(lmbda=2.0)], 5: [dict(lmbda=0.0), dict(lmbda=0.4)],
              6: [dict(lmbda=0.0), dict(lmbda=-0.5)]}[cls][par - 1]
    nrm = getattr(gs.normalizer, NORM_CLASSES[cls])(**pk)
    vals = rng.uniform(1.0, 2.0, 8 if variant != 2 else (2, 4))
    if nan:
        vals.flat[1] = np.nan
    if oor:
        vals.flat[2] = -5.0
    data = as_view(vals, None, variant) if dd == 0 else vals.astype(np.float32)
    w.arg(0, "data", [data])
    m = NORM_METHODS[meth]
    w.nret = 1 if meth < 3 else 0

    def call():
        r = getattr(nrm, m)(data)
        return [r] if meth < 3 else []
    w.call = call
    return w


# ---- generators
def real_generator(cfg, rng, variant):
    from gstools.field import generator as G
    gen, pd, nug, gopt = cfg
    w = World("generator", 3)
    model = the_model(nugget=0.3 if nug else 0.0)
    pv, _ = base_values(rng, False)
    pos, h = mk_lay(pv, 0 if pd == 0 else 2, variant, reshape=False)
    w.arg(0, "pos", h)
    holder = {}
    per = np.array([20.0, 25.0]) if not gopt else np.array([13.0]); mno = np.array([8, 6]) if not gopt else np.array([4, 10])
    if gen == 2:
        w.arg(1, "period", [per]); w.arg(2, "mode_no", [mno])

    class Late:
        field_names = []

        def __getattr__(self, nm):
            g = holder.get("g")
            return getattr(g, nm) if (g is not None and gen == 2) else None
    w.obj = Late()
    w.nret = 1

    def call():
        if gen == 0:
            g = G.RandMeth(model, mode_no=20, seed=5, **(dict(sampling="inversion", verbose=False) if gopt else {}))
        elif gen == 1:
            g = G.IncomprRandMeth(model, mode_no=20, seed=5, **(dict(mean_velocity=2.5) if gopt else {}))
        else:
            g = G.Fourier(model, period=per, mode_no=mno, seed=5)
        holder["g"] = g
        return [g(pos, add_nugget=not (gopt and variant == 1))]
    w.call = call
    return w


COV_OPS = ["constructor", "angles=", "anis=", "len_scale=", "integral_scale=", "dim="]


# ---- CovModel construction and parameter setters
def real_covmodel(cfg, rng, variant):
    import gstools as gs
    op, kind, ang, ani, ls = cfg
    w = World("covmodel", 3)
    temporal, latlon = kind in (1, 3), kind >= 2
    cls = [gs.Gaussian, gs.Exponential, gs.Stable][variant]
    if latlon:
        dim = 3 + int(temporal)
        ckw = dict(latlon=True, temporal=temporal)
    elif temporal:
        dim = [3, 2, 4][variant]
        ckw = dict(spatial_dim=dim - 1, temporal=True)
    else:
        dim = [3, 2, 4][variant]
        ckw = dict(dim=dim)
    n_ang, n_ani = dim * (dim - 1) // 2, dim - 1

    def param(vals_fn, d, exact, other_attr):
        """array argument of layout digit d (1 exact float64, 2 short, 3 long, 4 other)"""
        n = {1: exact, 2: max(exact - 1, 0), 3: exact + 2, 4: exact}[d]
        vals = vals_fn(n)
        if d == 4:
            v = vals.tolist() if variant != 1 else vals.astype(np.float32)
            return v, ([v] if isinstance(v, np.ndarray) else [])
        if d == 1 and variant == 2 and other_attr is not None:
            # the caller hands over the parameter array of ANOTHER model (e.g. Model(angles=m3.angles))
            other = cls(dim=dim, **{other_attr: vals})
            v = getattr(other, other_attr)
            return v, [v]
        v, h = mk_lay(vals, 0, variant % 2, reshape=False)
        return v, h
    args = {}
    if ang:
        args["angles"], h = param(lambda n: rng.uniform(0.1, 1.0, n), ang, n_ang, "angles"); w.arg(0, "angles", h)
    if ani:
        args["anis"], h = param(lambda n: rng.uniform(0.3, 0.9, n), ani, n_ani, "anis"); w.arg(1, "anis", h)
    if ls:
        n = 1 if ls == 2 else dim
        lv = rng.uniform(1.0, 3.0, n)
        if ls == 3:
            lsv, h = (lv.tolist() if variant != 1 else lv.astype(np.float32)), []
            h = [lsv] if isinstance(lsv, np.ndarray) else []
        else:
            lsv, h = mk_lay(lv, 0, variant % 2, reshape=False)
        w.arg(2, "len_scale", h)
    else:
        lsv = 2.5
    holder = {}

    class Late:
        field_names = []

        def __getattr__(self, nm):
            return getattr(holder["m"], nm)
    w.obj = Late()
    w.nret = 0
    if op == 0:
        def call():
            holder["m"] = cls(len_scale=lsv, **ckw, **args)
            return []
    else:
        m = cls(len_scale=2.0, anis=0.5, angles=0.2, **ckw)
        holder["m"] = m
        w.pre(M_ANIS, [m.anis]); w.pre(M_ANGLES, [m.angles])

        def call():
            if op == 1:
                m.angles = args.get("angles", 0.3)
            elif op == 2:
                m.anis = args.get("anis", 0.7)
            elif op == 3:
                m.len_scale = lsv
            elif op == 4:
                m.integral_scale = lsv
            else:
                m.dim = dim if latlon else (dim + 1 if dim < 4 else dim - 1)
            return []
    w.call = call
    return w


def mk_arr(vals, lay, variant, reshape):
    """array argument of layout class lay for a function with (reshape=True) or without a reshape step:
    without reshape class 1 is a strided (non-contiguous) float64 view, which np.asarray still aliases"""
    vals = np.asarray(vals, dtype=np.double)
    if reshape or lay != 1:
        return mk_lay(vals, lay, variant if (reshape or lay == 2) else variant % 2, reshape=reshape)
    if vals.ndim == 1:
        big = np.zeros(2 * vals.size + 1); v = big[1::2]
    else:
        big = np.zeros(vals.shape[:-1] + (2 * vals.shape[-1],)); v = big[..., ::2]
    v[...] = vals
    return v, [v]


GEO_FNS = ["set_angles", "set_anis", "matrix_*", "generate_grid", "generate_st_grid", "format_struct_pos_dim",
           "format_struct_pos_shape", "format_unstruct_pos_shape", "ang2dir", "latlon2pos", "pos2latlon",
           "chordal_to_great_circle", "great_circle_to_chordal", "special.inc_gamma/exp_int/inc_beta",
           "special.tplstable_cor", "special.tpl_*_spec_dens"]


# ---- public helpers of gstools.tools called directly on caller arrays
def real_geo_tool(cfg, rng, variant):
    from gstools.tools import geometric as G, special as S
    fn, lay, opt = cfg
    w = World("geo_tool", 2)
    w.nret = 1
    dim = [3, 2, 4][variant]
    n_ang = dim * (dim - 1) // 2
    n = 6

    def one(vals, reshape, label="array"):
        if fn == 14 and lay == 2:       # tplstable_cor divides its argument: array-likes with "/" only
            v = np.asarray(vals, dtype=np.float32)
            w.arg(0, label, [v])
            return v
        obj, h = mk_arr(vals, lay, variant, reshape)
        w.arg(0, label, h)
        return obj

    def axes(lens):
        objs, held = [], []
        for m in lens:
            o, h = mk_arr(f32exact(np.sort(rng.uniform(0, 10, m))), lay, variant, fn in (5, 6))
            objs.append(o); held += h
        w.arg(0, "axes", held)
        return tuple(objs)
    if fn == 0:
        a = one(rng.uniform(0.1, 1.0, [n_ang, n_ang + 2, max(n_ang - 1, 0)][opt]), False, "angles")
        w.call = lambda: [G.set_angles(dim, a)]
    elif fn == 1:
        a = one(rng.uniform(0.3, 0.9, [dim - 1, dim + 1, max(dim - 2, 0)][opt]), False, "anis")
        w.call = lambda: [G.set_anis(dim, a)]
    elif fn == 2:
        if opt == 2:
            a = one(rng.uniform(0.3, 0.9, dim - 1), False, "anis")
            f = [G.matrix_isotropify, G.matrix_anisotropify][variant % 2]
            w.call = lambda: [f(dim, a)]
        elif opt == 1:
            a = one(rng.uniform(0.1, 1.0, n_ang), False, "angles")
            f = [G.matrix_isometrize, G.matrix_anisometrize][variant % 2]
            w.call = lambda: [f(dim, a, rng.uniform(0.3, 0.9, dim - 1))]
        else:
            a = one(rng.uniform(0.1, 1.0, n_ang), False, "angles")
            f = [G.matrix_rotate, G.matrix_derotate, G.rotated_main_axes][variant]
            w.call = lambda: [f(dim, a)]
    elif fn == 3:
        ax = axes([[4, 6], [4, 6, 4], [4]][opt])
        w.call = lambda: [G.generate_grid(ax)]
    elif fn == 4:
        t = np.linspace(0.0, 3.0, [3, 2, 1][opt]); w.arg(1, "time", [t])
        if opt == 1:
            ax = axes([4, 6])
            w.call = lambda: [G.generate_st_grid(ax, t, mesh_type="structured")]
        else:
            pv, _ = base_values(rng, False)
            pos = one(pv, False, "pos")
            w.call = lambda: [G.generate_st_grid(pos, t)]
    elif fn == 5:
        if opt == 1:
            a = one(f32exact(rng.uniform(0, 10, 8)), True, "axis")
            w.call = lambda: [G.format_struct_pos_dim(a, 1)[0]]
        else:
            ax = axes([4, 6] if opt == 0 else [4, 6, 4])
            w.call = lambda: [G.format_struct_pos_dim(ax, len(ax))[0]]
    elif fn == 6:
        ax = axes([[4, 6], [4, 6], [4, 4]][opt])
        shape = [(4, 6), (2, 4, 6), (4, 4)][opt]
        w.call = lambda: [G.format_struct_pos_shape(ax, shape, check_stacked_shape=(opt == 1))[0]]
    elif fn == 7:
        pv, _ = base_values(rng, False)
        if opt == 2:
            pos = one(pv[0], False, "pos"); shape = (n,)
        else:
            pos = one(pv, False, "pos"); shape = (n,) if opt == 0 else (3, n)
        w.call = lambda: [G.format_unstruct_pos_shape(pos, shape, check_stacked_shape=(opt == 1))[0]]
    elif fn == 8:
        if opt == 0:
            a = one(rng.uniform(0.1, 1.0, 2), False, "angles"); d = 3
        elif opt == 1:
            a = one(rng.uniform(0.1, 1.0, (3, 2)), False, "angles"); d = 3
        else:
            a = one(rng.uniform(0.1, 1.0, 3), False, "angles"); d = 2
        w.call = lambda: [G.ang2dir(a, dtype=np.double, dim=d)]
    elif fn in (9, 10):
        temporal = opt > 0
        radius, tscale = [(1.0, 1.0), (6371.0, 0.5), (1.0, 3.0)][opt]
        ll = np.vstack([rng.uniform(-80, 80, n), rng.uniform(-170, 170, n)] + ([rng.uniform(0, 10, n)] if temporal else []))
        if fn == 9:
            a = one(f32exact(ll), True, "latlon")
            w.call = lambda: [G.latlon2pos(a, radius=radius, temporal=temporal, time_scale=tscale)]
        else:
            a = one(G.latlon2pos(ll, radius=radius, temporal=temporal, time_scale=tscale), True, "pos")
            w.call = lambda: [G.pos2latlon(a, radius=radius, temporal=temporal, time_scale=tscale)]
    elif fn in (11, 12):
        radius = [1.0, 6371.0, 2.0][opt]
        # distances up to (and, for the non-default sets, beyond) the diameter / half the circumference
        top = (2.0 if fn == 11 else np.pi) * radius * (1.0 if opt == 0 else 1.5)
        a = one(np.linspace(0.0, top, 7), False, "dist")
        f = G.chordal_to_great_circle if fn == 11 else G.great_circle_to_chordal
        w.call = lambda: [f(a, radius)]
    elif fn == 13:
        k = (opt * 3 + variant) % 6
        x = np.array([0.0, 1e-12, 0.3, 0.9, 0.5, 0.99]) if k == 5 else np.array([0.0, 1e-30, 0.5, 2.0, 40.0, 300.0])
        a = one(x, False, "x")
        f, pre = [(S.inc_gamma, (1.5,)), (S.inc_gamma_low, (1.5,)), (S.exp_int, (2.5,)), (S.exp_int, (1.0,)),
                  (S.exp_int, (3,)), (S.inc_beta, (1.5, 2.0))][k]
        w.call = lambda: [np.asarray(f(*pre, a))]
    elif fn == 14:
        a = one(np.array([0.0, 1e-14, 0.5, 2.0, 30.0, -1.0]), False, "r")
        ls, hu, al = [(1.0, 0.5, 1.5), (3.0, 0.2, 2.0), (0.5, 0.9, 0.7)][opt]
        w.call = lambda: [S.tplstable_cor(a, ls, hu, al)]
    else:
        a = one(np.array([0.0, 1e-6, 0.1, 1.0, 10.0, 200.0]), False, "k")
        f = [S.tpl_exp_spec_dens, S.tpl_gau_spec_dens][variant % 2]
        low = [0.0, 0.5, 0.0][opt]
        w.call = lambda: [f(a, dim, [1.0, 2.0, 0.3][opt], [0.5, 0.3, 0.8][opt], low)]
    return w


MODEL_METHODS = [["isometrize"], ["anisometrize"], ["cov_spatial", "vario_spatial", "cor_spatial"],
                 ["variogram", "covariance", "correlation", "cov_nugget", "vario_nugget"],
                 ["vario_yadrenko", "cov_yadrenko", "cor_yadrenko"],
                 ["spectral_density", "spectrum", "spectral_rad_pdf", "ln_spectral_rad_pdf"],
                 ["vario_axis", "cov_axis", "cor_axis"]]


def kind_model(kind, variant=0, nugget=0.0):
    """plain / temporal / lat-lon / lat-lon + time (time anisotropy != 1) model"""
    import gstools as gs
    cls = [gs.Gaussian, gs.Exponential, gs.Matern][variant]
    if kind == 0:
        return cls(dim=3, var=1.5, len_scale=2.0, anis=[0.7, 0.5], angles=[0.2, 0.3, 0.1], nugget=nugget)
    if kind == 1:
        return cls(spatial_dim=2, temporal=True, var=1.5, len_scale=2.0, anis=[0.8, 0.4], angles=0.3, nugget=nugget)
    if kind == 2:
        return cls(latlon=True, var=1.5, len_scale=700.0, geo_scale=gs.KM_SCALE, nugget=nugget)
    return cls(latlon=True, temporal=True, var=1.5, len_scale=700.0, anis=0.25, geo_scale=gs.KM_SCALE, nugget=nugget)


# ---- CovModel evaluation methods on caller arrays
def real_model_eval(cfg, rng, variant):
    from gstools.tools import geometric as G
    fn, kind, lay = cfg
    w = World("model_eval", 1)
    m = kind_model(kind, variant)
    names = MODEL_METHODS[fn]
    meth = getattr(m, names[variant % len(names)])
    n = 6
    latlon, temporal = kind >= 2, kind in (1, 3)
    if fn == 0 or (fn == 2 and False):
        if latlon:
            vals = np.vstack([rng.uniform(-80, 80, n), rng.uniform(-170, 170, n)] + ([rng.uniform(0, 10, n)] if temporal else []))
        else:
            vals = rng.uniform(0, 10, (3, n))
        a, h = mk_arr(f32exact(vals), lay, variant, True)
        w.call = lambda: [meth(a)]
    elif fn in (1, 2):
        if latlon:
            ll = np.vstack([rng.uniform(-80, 80, n), rng.uniform(-170, 170, n)] + ([rng.uniform(0, 10, n)] if temporal else []))
            vals = G.latlon2pos(ll, radius=m.geo_scale, temporal=temporal, time_scale=0.25)
        else:
            vals = rng.uniform(0, 10, (3, n))
        a, h = mk_arr(vals, lay, variant, True)
        w.call = lambda: [meth(a)]
    else:
        top = 3.0 if (fn == 4 or (latlon and fn != 5)) else 8.0
        vals = np.linspace(0.0, top, n)
        a, h = mk_arr(vals, lay, variant, fn == 6 and False)
        if fn == 6:
            ax = variant % m.dim
            w.call = lambda: [meth(a, axis=ax)]
        else:
            w.call = lambda: [meth(a)]
    w.arg(0, "array", h)
    w.nret = 1
    return w


# ---- mean / trend arrays given to Field / SRF / Krige (constructor and attribute setters)
def real_mean_trend(cfg, rng, variant):
    import gstools as gs
    op, which, val = cfg
    w = World("mean_trend", 1)
    nm = ["mean", "trend"][which]
    if val == 2:
        value = 1.5
    else:
        vec = rng.uniform(1.0, 2.0, 2)
        value, h = (as_view(vec, None, variant), None) if val == 0 else ((vec.tolist() if variant != 1 else vec.astype(np.float32)), None)
        w.arg(0, nm, [value] if isinstance(value, np.ndarray) else [])
    model = the_model()
    holder = {}

    class Late:
        field_names = []

        def __getattr__(self, a):
            return getattr(holder["o"], a)
    w.obj = Late()
    w.nret = 0

    def build(**kw):
        if variant == 1:
            return gs.field.Field(model, value_type="vector", **kw)
        return gs.SRF(model, generator="VectorField", seed=3, mode_no=20, **kw)
    if op == 0:
        def call():
            holder["o"] = build(**{nm: value})
            return []
    else:
        o = build(mean=np.array([0.5, 0.7]), trend=np.array([0.1, 0.2]))
        holder["o"] = o
        w.pre(M_MEAN, [o.mean]); w.pre(M_TREND, [o.trend])

        def call():
            setattr(o, nm, value)
            return []
    w.call = call
    return w


REALISERS = {
    "vario_estimate": real_vario_estimate, "vario_estimate_axis": real_vario_estimate_axis,
    "standard_bins": real_standard_bins, "field_call": real_field_call, "post_field": real_post_field,
    "apply_mean_norm_trend": real_mnt_tool("apply_mean_norm_trend"),
    "remove_trend_norm_mean": real_mnt_tool("remove_trend_norm_mean"),
    "transform": real_transform, "srf_call": real_srf_call, "krige_condition": real_krige_condition,
    "krige_call": real_krige_call, "condsrf_call": real_condsrf_call, "fit_variogram": real_fit_variogram,
    "normalizer": real_normalizer, "generator": real_generator, "array_fn": real_array_fn,
    "covmodel": real_covmodel, "geo_tool": real_geo_tool, "model_eval": real_model_eval,
    "mean_trend": real_mean_trend,
}


def realise(name, cfg, rng, variant):
    global CUR_VIEW
    cfg = list(cfg)
    CUR_VIEW = cfg[-1]          # how float64 arguments are held: 0 own data / 1 contiguous view / 2 strided view
    try:
        return REALISERS[name](cfg[:-1], rng, variant)
    finally:
        CUR_VIEW = 0


# --------------------------------------------------------------------------- probes without the model

def history_probe(ctx, rng):
    """random histories of generate / transform / krige / condition calls on one object: every array
    returned or stored earlier must keep its bytes (and the caller's arrays too)"""
    import gstools as gs
    nseq = 60 if ctx.tier == "thorough" else 12
    for s in range(nseq):
        mtn = bool(rng.integers(2))
        kind = int(rng.integers(3))
        pv, _ = base_values(rng, False)
        caller = {"pos": pv}
        if kind == 0:
            kw = dict(mean=1.0)
            if mtn:
                kw.update(trend=(lambda *x: 0.01 * x[0]), normalizer=gs.normalizer.LogNormal())
            obj = gs.SRF(the_model(), seed=int(rng.integers(1 << 30)), mode_no=20, **kw)
        elif kind == 1:
            cpv, cvv = cond_values(rng, 8)
            caller.update(cond_pos=cpv, cond_val=cvv)
            obj = gs.krige.Krige(the_model(), cpv, cvv, **mtn_kwargs(mtn))
        else:
            cpv, cvv = cond_values(rng, 8)
            caller.update(cond_pos=cpv, cond_val=cvv)
            obj = gs.CondSRF(gs.krige.Krige(the_model(nugget=0.1), cpv, cvv, **mtn_kwargs(mtn)), seed=3, mode_no=20)
        held = [("caller's " + k, v, v.tobytes()) for k, v in caller.items()]   # (description, array, bytes when handed out)
        ops = []

        def hand_out(desc, arrs):
            for a in arrs:
                if isinstance(a, np.ndarray):
                    held.append((desc, a, a.tobytes()))
        names = ["field", "f1", "f2", "f3"]
        for step in range(int(rng.integers(4, 9))):
            have = [n for n in obj.field_names]
            op = int(rng.integers(4))
            desc = None
            try:
                if op == 0 or not have:
                    nm = names[int(rng.integers(len(names)))]
                    st = True if nm == "field" else nm
                    pp = bool(rng.integers(2))
                    desc = "call(store=%r, post_process=%s)" % (st, pp)
                    if kind == 0:
                        r = obj(pv, seed=int(rng.integers(100)), store=st, post_process=pp)
                    elif kind == 1:
                        r = obj(pv, store=[st, "var_" + nm] if st is not True else True, post_process=pp)
                    else:
                        r = obj(pv, seed=int(rng.integers(100)), store=[st, "raw_" + nm, "rk_" + nm] if st is not True else True,
                                post_process=pp)
                    hand_out(desc, list(r) if isinstance(r, tuple) else [r])
                elif op in (1, 2):
                    src = have[int(rng.integers(len(have)))]
                    meth = ["normal_to_lognormal", "boxcox", "discrete", "apply_function", "zinnharvey", "binary"][int(rng.integers(6))]
                    dst = [True, False, names[int(rng.integers(len(names)))]][int(rng.integers(3))]
                    proc = bool(rng.integers(2))
                    extra = {"discrete": dict(values=[1.0, 2.0, 3.0]), "apply_function": dict(function=lambda x: x + 1.0)}.get(meth, {})
                    desc = "transform(%s, field=%r, store=%r, process=%s)" % (meth, src, dst, proc)
                    r = obj.transform(meth, field=src, store=dst, process=proc, **extra)
                    hand_out(desc, [r])
                else:
                    desc = "read stored fields"
                    hand_out(desc, [obj[n] for n in have])
            except (ValueError, TypeError) as e:   # operation rejected by GSTools (e.g. transform needing a constant mean)
                desc = (desc or "op") + " -> " + type(e).__name__
            ops.append(desc)
            bad = [(d, i) for i, (d, a, b) in enumerate(held) if a.tobytes() != b]
            if bad:
                ctx.violation("probe: history", "an array handed out by %r was altered by the later operation %r" % (bad[0][0], desc),
                              dict(kind=["SRF", "Krige", "CondSRF"][kind], mtn=mtn, ops=ops, seed=ctx.seed),
                              key="history:%s:%s" % (["SRF", "Krige", "CondSRF"][kind], (desc or "").split("(")[0]))
                break
            ctx.count(("history", kind, desc), hist=dict(entry="history", op=(desc or "").split("(")[0]))


def readonly_extras(ctx, rng):
    """entry points outside the effect model, probed with read-only float64 arrays (a write raises)"""
    import gstools as gs
    from gstools.tools import geometric as GEO

    def ro(a):
        a = np.array(a, dtype=float); a.flags.writeable = False
        return a
    n = 9
    x = ro(rng.uniform(0.1, 10, n)); pos = ro(rng.uniform(0, 10, (2, n)))
    model = the_model(nugget=0.1)
    tpl = gs.TPLStable(dim=2)
    ll = gs.Exponential(latlon=True, geo_scale=gs.KM_SCALE, len_scale=300.0)
    llpos = ro(np.vstack([rng.uniform(-60, 60, n), rng.uniform(-150, 150, n)]))
    cp, cv = cond_values(rng, 8)
    probes = [
        ("CovModel.variogram..", lambda: [getattr(model, f)(x) for f in ("variogram", "covariance", "correlation", "cov_nugget",
                                                                        "vario_nugget", "spectral_density", "spectrum",
                                                                        "spectral_rad_pdf", "ln_spectral_rad_pdf")]),
        ("CovModel.*_spatial/isometrize", lambda: (model.isometrize(pos), model.anisometrize(pos), model.cov_spatial(pos),
                                                   model.vario_spatial(pos), model.cor_spatial(pos))),
        ("CovModel latlon yadrenko", lambda: (ll.vario_yadrenko(ro(x / 10)), ll.cov_yadrenko(ro(x / 10)), ll.isometrize(llpos),
                                              ll.cov_spatial(llpos))),
        ("TPLStable.correlation", lambda: (tpl.correlation(x), tpl.variogram(ro([0.0, 1e-12, 1.0])))),
        ("vario_estimate + fit on read-only", lambda: gs.Gaussian(dim=2).fit_variogram(
            *[ro(v) for v in gs.vario_estimate(pos, ro(rng.normal(size=n)), ro(np.linspace(0, 5, 5)))])),
        ("krige classes", lambda: [cls(the_model(), ro(cp), ro(cv))(pos) for cls in (gs.krige.Simple, gs.krige.Ordinary)]
         + [gs.krige.Universal(the_model(), ro(cp), ro(cv), "linear")(pos),
            gs.krige.ExtDrift(the_model(), ro(cp), ro(cv), ro(rng.normal(size=8)))(pos, ext_drift=ro(rng.normal(size=n))),
            gs.krige.Detrended(the_model(), ro(cp), ro(cv), lambda *p: p[0])(pos)]),
        ("tools: rotated_main_axes/generate_grid/latlon2pos", lambda: (
            GEO.generate_grid([ro([0, 1, 2]), ro([0, 1])]), GEO.latlon2pos(llpos), GEO.pos2latlon(ro(GEO.latlon2pos(llpos))),
            GEO.generate_st_grid(pos, ro([0.0, 1.0])), GEO.ang2dir(ro([0.3, 0.7])), GEO.rotated_main_axes(2, ro([0.4])))),
        ("fit_normalizer paths", lambda: (
            gs.vario_estimate(pos, ro(rng.uniform(1, 2, n)), ro(np.linspace(0, 5, 5)), normalizer=gs.normalizer.BoxCox, fit_normalizer=True),
            gs.krige.Krige(the_model(), ro(cp), ro(cv), normalizer=gs.normalizer.BoxCox(), fit_normalizer=True, fit_variogram=True),
            gs.normalizer.YeoJohnson(data=ro(rng.uniform(1, 2, n))))),
        ("transform.array_*", lambda: [getattr(gs.transform, f)(ro(rng.normal(size=n))) for f in (
            "array_to_lognormal", "array_zinnharvey", "array_force_moments", "array_to_uniform", "array_to_arcsin",
            "array_to_uquad", "array_boxcox")] + [gs.transform.array_discrete(ro(rng.normal(size=n)), ro([1.0, 2.0, 3.0]))]),
    ]
    # dict arguments of fit_variogram are the caller's objects as well: they must come back unchanged
    import copy
    ig = {"default": "current", "len_scale": 2.0, "anis": [0.9]}
    ckw = {"ftol": 1e-9}
    ig0, ckw0 = copy.deepcopy(ig), copy.deepcopy(ckw)
    xb = np.linspace(0.5, 8.0, 8)
    for rep in range(2):
        gs.Exponential(dim=2).fit_variogram(xb, 1.2 * (1 - np.exp(-xb / 2.0)), init_guess=ig, curve_fit_kwargs=ckw)
    ctx.count(("readonly-extra", "fit_variogram dict arguments"), hist=dict(entry="extra:fit_variogram dicts"))
    if ig != ig0 or ckw != ckw0:
        ctx.violation("probe: dict arguments", "fit_variogram changed the caller's %s dict: %r -> %r" % (
            ("init_guess", ig0, ig) if ig != ig0 else ("curve_fit_kwargs", ckw0, sorted(ckw))),
            dict(init_guess_before=ig0, init_guess_after={k: (v if not isinstance(v, np.ndarray) else v.tolist()) for k, v in ig.items()},
                 seed=ctx.seed), key="extra:fit_variogram:dict-arguments")
    for name, fn in probes:
        ctx.count(("readonly-extra", name), hist=dict(entry="extra:" + name))
        try:
            fn()
        except Exception as e:  # noqa: BLE001
            if "read-only" in str(e) or "readonly" in str(e):
                ctx.violation("probe: read-only extras", "%s writes into a read-only caller array: %s" % (name, e),
                              dict(probe=name, seed=ctx.seed), key="extra:%s:write" % name)
            else:
                ctx.notes.append("extra probe %s raised %s: %s" % (name, type(e).__name__, str(e)[:120]))
