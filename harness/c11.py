"""C11 — seeded field generation is deterministic and local.

stages: translate summator.pyx -> Gallina (tie 1) ; theorems props/C11.v ; extraction + driver ;
        correspondence: generator calls / generate_grid / compare vs the extracted model, and the extracted
        RandMeth / IncomprRandMeth / Fourier state machines vs the real objects on random histories (tie 2) ;
        probes on the implementation: permutation / subset / batching / structured / meshio / store name,
        history vs fresh object, equal histories => equal nugget noise ; corpus case of known finding (c)."""
import copy
import json
import os

import numpy as np

import common as C

STATS = dict(gen_ops=0, resets=0, int_seed_states=0, entropy_states=0, fields_checked=0, noise_fields=0, raises=0,
             fresh_generators_built=0)
KEY_C = "isclose-stale: in-place model parameter change with |delta| <= 1e-8 + 1e-5*|v| before SRF.__call__"

CLS_PPF = ["Gaussian", "Exponential"]        # inversion sampling path
CLS_MCMC = ["Stable", "Matern", "Rational", "SuperSpherical", "TPLGaussian"]   # MCMC sampling path; all have optional arguments
VAR = [0.5, 1.0, 2.3]
LEN = [1.0, 2.5, 7.0]
ANIS = [1.0, 0.7, 0.4]
ANG = [0.0, 0.3, 1.1]
NUG = [0.0, 0.0, 0.3]
# optional (shape) arguments per class: two clearly different values each
OPT = {"Stable": [("alpha", [1.5, 0.8])], "Matern": [("nu", [1.0, 2.5])], "Rational": [("alpha", [1.0, 3.0])],
       "SuperSpherical": [("nu", [2.0, 3.5])], "TPLGaussian": [("hurst", [0.5, 0.8]), ("len_low", [0.0, 0.5])]}
PERIODS = [5.0, 8.0, 10.0, 12.5]
N_ANG = {1: 0, 2: 1, 3: 3}


def merge_local_known_findings(ctx):
    """known_findings.json is assembled by the coordinator from known_findings.d/*.json; read our own fragment
    directly so that the check does not depend on that step having been run"""
    p = os.path.join(C.VERIF, "known_findings.d", "C11.json")
    if os.path.exists(p):
        have = {k.get("key") for k in ctx.kf}
        for e in json.load(open(p)):
            if e.get("key") not in have:
                ctx.kf.append(e)


# --------------------------------------------------------------------------- models and their encoding

def rand_spec(rng, dim, cls=None, nugget=None, rotated=None):
    if cls is None:
        cls = str(rng.choice(CLS_PPF)) if rng.random() < 0.7 else str(rng.choice(CLS_MCMC))
    sp = dict(cls=cls, dim=int(dim), var=float(rng.choice(VAR)), len_scale=float(rng.choice(LEN)),
              nugget=float(rng.choice(NUG)) if nugget is None else float(nugget))
    if dim > 1:
        sp["anis"] = [float(rng.choice(ANIS)) for _ in range(dim - 1)]
        if rotated is False:
            sp["angles"] = [0.0] * N_ANG[dim]
        else:
            sp["angles"] = [float(rng.choice(ANG[1:] if rotated else ANG)) for _ in range(N_ANG[dim])]
    for arg, vals in OPT.get(cls, []):
        sp[arg] = float(rng.choice(vals))
    return sp


def build_model(gs, sp):
    kw = {k: v for k, v in sp.items() if k != "cls"}
    return getattr(gs, sp["cls"])(**kw)


def enc_model(m, tags, sampling="auto"):
    """(tag, dim, ppf, params) : what covmodel.tools.compare looks at, in its order"""
    key = (m.name, tuple(sorted(m.opt_arg)), bool(m.latlon), bool(m.temporal))
    tag = tags.setdefault(key, len(tags) + 1)
    par = [m.var, m.var_raw, m.nugget, m.len_scale, m.rescale] + list(np.atleast_1d(m.anis)) + list(
        np.atleast_1d(m.angles)) + [getattr(m, o) for o in m.opt_arg]
    ppf = sampling == "inversion" or (sampling == "auto" and bool(m.has_ppf))
    return (int(tag), int(m.dim), int(ppf), tuple(float(x) for x in par))


class Table:
    """the distinct model VALUES that occur in a history (rows of the driver's model table)"""

    def __init__(self, sampling="auto"):
        self.rows, self.objs, self.tags, self.sampling = [], [], {}, sampling

    def idx(self, m):
        e = enc_model(m, self.tags, self.sampling)
        for i, r in enumerate(self.rows):
            if r == e:
                return i
        self.rows.append(e)
        self.objs.append(copy.deepcopy(m))
        return len(self.rows) - 1

    def args(self):
        meta = np.array([[r[0], r[1], r[2]] for r in self.rows], dtype=np.int64).reshape(len(self.rows), 3)
        width = max(len(r[3]) for r in self.rows)
        par = np.zeros((len(self.rows), width))
        for i, r in enumerate(self.rows):
            par[i, :len(r[3])] = r[3]
        return meta, par, np.array([len(r[3]) for r in self.rows], dtype=np.int64)


class Seeds:
    """seed arguments of a plan -> Python objects with controlled identity"""

    def __init__(self):
        self.objs, self.keep, self.n = {}, [], 0

    def get(self, s):
        """returns (python object, kind, value, identity token)"""
        if s[0] == "nan":
            return np.nan, 0, 0, 0
        if s[0] == "none":
            return None, 1, 0, 0
        v, key = int(s[1]), s[2]
        if key == "new":            # a new object holding the value (for v > 256 never the object seen before)
            o = int(str(v))
            self.keep.append(o)
            self.n += 1
            return o, 2, v, 1000 + self.n
        if key in ("np", "np32"):
            o = np.int64(v) if key == "np" else np.int32(v)
            self.keep.append(o)
            self.n += 1
            return o, 2, v, 1000 + self.n
        if (v, key) not in self.objs:
            self.objs[(v, key)] = (int(str(v)), len(self.objs) + 1)
        o, tok = self.objs[(v, key)]
        return o, 2, v, tok


SEED_POOL = [3, 7, 300, 100000, 100000, 20170519, 2147483600, 4294967200]
_LAST = [None]          # last integer seed of the plan being generated (neighbouring seeds are derived from it)


def near_seed(rng, s):
    """a seed close to s: s+1, s-1, s+7, or s*(1+3e-6) — different values that np.isclose would call equal for s >~ 1e5"""
    d = int(rng.choice([1, -1, 7, max(1, int(s * 3e-6)), 0]))
    return int(min(max(s + d, 0), 2 ** 32 - 1))


def rand_seed(rng, allow_none=True):
    r = rng.random()
    if r < 0.18:
        return ["nan"]
    if r < 0.24 and allow_none:
        return ["none"]
    if _LAST[0] is not None and rng.random() < 0.5:
        v = near_seed(rng, _LAST[0])
    else:
        v = int(rng.choice(SEED_POOL))
    _LAST[0] = v
    keys = ["A", "A", "B", "new", "np"] + (["np32"] if v < 2 ** 31 else [])
    return ["int", v, str(rng.choice(keys))]


def rand_pos(rng, dim, n, scale=10.0):
    return np.ascontiguousarray(rng.uniform(-scale, scale, size=(dim, n)))


OFFSETS = [4.0e5, 5.7e6, 1.2e7]


class PosGen:
    """positions of the calls of one history: O(10) coordinates, or UTM-like coordinates (offset 1e5..1e7 plus O(100)
    structure) where successive calls are shifted by a few units (far below np.allclose's tolerance relative to the
    magnitude, but of the order of a correlation length), or coordinates of order 1e-9"""

    def __init__(self, prng, scale):
        self.prng, self.scale, self.last = prng, scale, None
        r = prng.random()
        self.mode = "plain" if r < 0.45 else ("offset" if r < 0.85 else "tiny")

    def next(self, dim, n):
        g = self.prng
        if self.mode != "plain" and self.last is not None and self.last.shape[0] == dim and g.random() < 0.7:
            sh = g.uniform(-5, 5, size=(dim, 1)) + g.uniform(-1, 1, size=self.last.shape)
            pos = self.last + (sh if self.mode == "offset" else 1e-9 * sh)
        elif self.mode == "offset":
            pos = np.array(OFFSETS[:dim])[:, None] + g.uniform(-50, 50, size=(dim, n))
        elif self.mode == "tiny":
            pos = 1e-9 * g.uniform(-5, 5, size=(dim, n))
        else:
            pos = g.uniform(-self.scale, self.scale, size=(dim, n))
        self.last = np.ascontiguousarray(pos)
        return self.last.copy()


def call_positions(srf, pos):
    """the positions SRF.__call__ hands to the generator for the PRESENT model: isometrized, except for vector
    fields of isotropic non-lat-lon models, which are evaluated in the given coordinates (/repo fa84f81: the rotation
    angles of an isotropic model must not de-rotate the positions of an incompressible vector field)"""
    m = srf.model
    if srf.value_type == "vector" and not m.latlon and m.is_isotropic:
        return np.ascontiguousarray(np.asarray(pos, dtype=np.double).reshape((m.dim, -1)))
    return m.isometrize(pos)


def master_of(gen):
    return gen._rng._master_rng._master_rng_fct


def same_state(a, b):
    return a[0] == b[0] and np.array_equal(a[1], b[1]) and a[2] == b[2]


class Stream:
    """independent reconstruction of the master RNG: state after k sub-stream draws, and the k-th sub-seed"""

    def __init__(self):
        self.base = None       # (state, pos) captured for entropy seeds

    def _rs(self, kind, val):
        if kind == 0:
            return np.random.RandomState(val), 0
        rs = np.random.RandomState(0)
        rs.set_state(self.base[0])
        return rs, self.base[1]

    def state_after(self, kind, val, pos):
        if kind == 1 and self.base is None:
            return None
        rs, p0 = self._rs(kind, val)
        if pos < p0:
            return None
        for _ in range(pos - p0):
            rs.randint(1, 2 ** 16)
        return rs.get_state()

    def subseed(self, kind, val, k):
        if kind == 1 and self.base is None:
            return None
        rs, p0 = self._rs(kind, val)
        if k < p0:
            return None
        x = None
        for _ in range(k - p0 + 1):
            x = rs.randint(1, 2 ** 16)
        return x


# --------------------------------------------------------------------------- RandMeth / IncomprRandMeth histories

def gen_plan_rm(rng, cls, n_ops):
    _LAST[0] = None
    dim = int(rng.integers(2, 4)) if cls == "IncomprRandMeth" else int(rng.integers(1, 4))
    r_ = rng.random()
    sampling = "auto" if r_ < 0.7 else ("mcmc" if r_ < 0.85 else "inversion")
    ppf_only = sampling == "inversion"      # inversion sampling: classes with an analytic radial cdf (3-D: pdf + cdf, no ppf)
    spec = rand_spec(rng, dim, cls=str(rng.choice(CLS_PPF)) if ppf_only else None)
    init = dict(cls=cls, spec=spec, mode_no=int(rng.choice([4, 9, 16])), seed=rand_seed(rng), sampling=sampling)
    ops = []
    for _ in range(n_ops):
        r = rng.random()
        if r < 0.30:
            ops.append(["call", rand_seed(rng), int(rng.integers(1, 6)), str(rng.choice(["field", "f2", "none"]))])
        elif r < 0.55:
            attr = str(rng.choice(["var", "len_scale", "nugget", "anis", "angles", "opt", "opt", "anis_elem", "angles_elem"]))
            ops.append(["mod", attr, int(rng.integers(0, 6))])
        elif r < 0.62:
            ops.append(["restore"])
        elif r < 0.68:
            d2 = dim if (cls == "IncomprRandMeth" or rng.random() < 0.5) else int(rng.integers(1, 4))
            ops.append(["setmodel", rand_spec(rng, d2, cls=str(rng.choice(CLS_PPF)) if ppf_only else None)])
        elif r < 0.76:
            ops.append(["gen.seed", rand_seed(rng)])
        elif r < 0.82:
            ops.append(["gen.reset_seed", rand_seed(rng)])
        elif r < 0.89:
            ops.append(["gen.mode_no", int(rng.choice([4, 9, 16]))])
        elif r < 0.95:
            ops.append(["gen.update", bool(rng.random() < 0.6), rand_seed(rng)])
        else:
            ops.append(["gen.call", int(rng.integers(1, 5)), bool(rng.random() < 0.7)])
    return dict(kind="rm_history", init=init, ops=ops, pos_seed=int(rng.integers(1 << 30)))


def apply_mod(model, attr, k):
    """in-place parameter change of the field's model; values are either identical to the present ones
    or differ by far more than the isclose tolerance of compare()"""
    if attr == "opt" and model.name in OPT:
        args = OPT[model.name]
        arg, vals = args[k % len(args)]
        setattr(model, arg, vals[(k // len(args)) % 2])      # ONLY the optional argument changes
        return
    if attr == "anis_elem" and model.dim > 1:
        # element-wise edit of the array the property hands out (no setter involved): model.anis[i] = v / model.anis *= c
        if k % 2:
            model.anis[(k // 2) % (model.dim - 1)] = ANIS[(k // 2) % 3]
        else:
            model.anis *= [0.5, 2.0, 0.8][(k // 2) % 3]
        return
    if attr == "angles_elem" and model.dim > 1:
        model.angles[(k // 2) % N_ANG[model.dim]] = ANG[k % 3] + 0.2 * (k // 3)
        return
    k = k % 3
    if attr == "var":
        model.var = VAR[k]
    elif attr == "len_scale":
        model.len_scale = LEN[k]
    elif attr == "nugget":
        model.nugget = [0.0, 0.3, 0.6][k]
    elif attr == "anis" and model.dim > 1:
        model.anis = [ANIS[(k + i) % 3] for i in range(model.dim - 1)]
    elif attr == "angles" and model.dim > 1:
        model.angles = [ANG[(k + i) % 3] for i in range(N_ANG[model.dim])]
    else:
        model.var = VAR[(k + 1) % 3]


def fresh_rm(gs, cache, cls, tbl, midx, n, seed):
    key = (cls, midx, n, seed)
    if key not in cache:
        G = getattr(gs.field.generator, cls)
        cache[key] = G(copy.deepcopy(tbl.objs[midx]), mode_no=n, seed=seed, sampling=tbl.sampling)
    return cache[key]


def expected_rm_field(gs, cls, fresh, gmodel, n, pos, noise, mean_u=1.0):
    """the formula of (Incompr)RandMeth.__call__ evaluated on the arrays of a FRESH generator"""
    from gstools.field import generator as G
    pos = np.asarray(pos, dtype=np.double)
    if cls == "IncomprRandMeth":
        sm = G._summate_incompr(fresh._cov_sample, fresh._z_1, fresh._z_2, pos)
        shape = np.ones(len(sm.shape), dtype=int)
        shape[0] = gmodel.dim
        e1 = np.zeros(shape)
        e1[0] = 1.0
        return mean_u * e1 + mean_u * np.sqrt(gmodel.var / n) * sm + noise(sm.shape)
    sm = G._summate(fresh._cov_sample, fresh._z_1, fresh._z_2, pos)
    return np.sqrt(gmodel.var / n) * sm + noise(sm.shape)


def run_plan_rm(ctx, gs, drv, plan):
    """execute a plan on a real SRF object, run the same generator-level operations through the extracted
    state machine, compare after every operation.  Returns the number of generator-level operations."""
    init = plan["init"]
    cls = init["cls"]
    seeds = Seeds()
    tbl = Table(init["sampling"])
    prng = np.random.default_rng(plan["pos_seed"])
    pgen = PosGen(prng, 10.0)
    model = build_model(gs, init["spec"])
    orig_spec = init["spec"]
    so, sk, sv, stok = seeds.get(init["seed"])
    if sk == 0:
        so, sk = None, 1           # the constructors take None, not NaN
    srf = gs.SRF(model, generator=cls, mode_no=init["mode_no"], seed=so, sampling=init["sampling"])
    tbl.idx(model)             # row 0 = the initial model value
    gen = srf.generator
    gops = []                  # generator-level operations for the driver
    obs = []                   # observations of the implementation after each of them
    held = [gen._rng]
    resets = [1]

    def observe(out=None, info=None, mid=False):
        if gen._rng is not held[-1]:
            held.append(gen._rng)
            resets[0] += 1
        obs.append(dict(mid=mid, resets=resets[0], seed=gen.seed, mode_no=gen.mode_no, model=enc_model(gen.model, tbl.tags, tbl.sampling),
                        master=master_of(gen).get_state(), z1=gen._z_1, z2=gen._z_2, cs=gen._cov_sample,
                        gmodel=copy.deepcopy(gen.model), out=out, info=info))

    observe()
    for op in plan["ops"]:
        k = op[0]
        if k == "mod":
            apply_mod(srf.model, op[1], op[2])
        elif k == "restore":
            for a in ("var", "len_scale", "nugget"):
                setattr(srf.model, a, orig_spec[a])
            if srf.model.dim == orig_spec["dim"] and srf.model.dim > 1:
                srf.model.anis = orig_spec["anis"]
                srf.model.angles = orig_spec["angles"]
        elif k == "setmodel":
            srf.model = build_model(gs, op[1])
            orig_spec = op[1]
        elif k == "call":
            o, kd, v, tok = seeds.get(op[1])
            pos = pgen.next(srf.model.dim, op[2])
            n = pos.shape[1]
            store = {"field": True, "f2": "f2", "none": False}[op[3]]
            midx = tbl.idx(srf.model)
            iso = call_positions(srf, pos)
            fld = srf(pos, seed=o, store=store)
            gops.append([0, midx, kd, v, tok])
            observe(mid=True)      # SRF.__call__ is one step of the implementation: the stream position is seen after it
            shape = n
            gops.append([4, shape, 1, 0, 0])
            observe(out=np.array(fld), info=dict(pos=iso, raw_pos=pos, srf=True))
        elif k == "gen.seed":
            o, kd, v, tok = seeds.get(op[1])
            gen.seed = o
            gops.append([1, -1, kd, v, tok])
            observe()
        elif k == "gen.reset_seed":
            o, kd, v, tok = seeds.get(op[1])
            gen.reset_seed(o)
            gops.append([2, -1, kd, v, tok])
            observe()
        elif k == "gen.mode_no":
            gen.mode_no = op[1]
            gops.append([3, op[1], 0, 0, 0])
            observe()
        elif k == "gen.update":
            o, kd, v, tok = seeds.get(op[2])
            if op[1]:
                midx = tbl.idx(srf.model)
                gen.update(srf.model, o)
            else:
                midx = -1
                gen.update(None, o)
            gops.append([0, midx, kd, v, tok])
            observe()
        elif k == "gen.call":
            pos = rand_pos(prng, gen.model.dim, op[1])
            fld = gen(pos, add_nugget=op[2])
            gops.append([4, op[1], int(op[2]), 0, 0])
            observe(out=np.array(fld), info=dict(pos=pos, srf=False))
    # ---- the model on the same generator-level history
    meta, par, npar = tbl.args()
    rows = drv.call("rm_hist", meta, par, npar, np.array([0, init["mode_no"], sk, sv, stok], dtype=np.int64),
                    np.array(gops, dtype=np.int64).reshape(len(gops), 5))
    rows = np.asarray(rows).reshape(len(gops) + 1, -1)
    cache = {}
    stream = Stream()
    last_resets = 0
    pending = False
    for t, (row, ob) in enumerate(zip(rows, obs)):
        (m_resets, m_pos, _ent, skind, sval, ekind, evl, m_n, m_midx, md_ek, md_ev, md_mi, md_n,
         out_kind, o_ek, o_ev, o_mi, o_n, has_noise, n_ek, n_ev, n_pos, n_shape, out_is_state) = [int(x) for x in row[:24]]
        what = None
        if m_resets != ob["resets"]:
            what = "re-seeded or not: model says %d resets so far, implementation %d" % (m_resets, ob["resets"])
        elif (skind == 0) != (ob["seed"] is None) or (skind == 1 and int(ob["seed"]) != sval):
            what = "stored seed: model %s, implementation %r" % ((skind, sval), ob["seed"])
        elif m_n != ob["mode_no"]:
            what = "mode_no: model %d, implementation %d" % (m_n, ob["mode_no"])
        elif tbl.rows[m_midx] != ob["model"]:
            what = "generator's model copy: model row %r, implementation %r" % (tbl.rows[m_midx], ob["model"])
        else:
            if (m_resets != last_resets or pending) and ekind == 1:
                # seed None: OS entropy, take the state as given (after the whole SRF call if observed mid-call)
                pending = ob["mid"]
                if not pending:
                    stream.base = (ob["master"], m_pos)
            exp_state = stream.state_after(ekind, evl, m_pos)
            if not ob["mid"] and (exp_state is None or not same_state(exp_state, ob["master"])):
                what = "RNG stream position: master RNG is not at sub-stream %d after seeding with %s" % (m_pos, (ekind, evl))
        last_resets = m_resets
        STATS["int_seed_states" if md_ek == 0 else "entropy_states"] += 1
        if what is None and md_ek == 0:
            fr = fresh_rm(gs, cache, cls, tbl, md_mi, md_n, md_ev)
            if not (C.bit_equal(fr._z_1, ob["z1"]) and C.bit_equal(fr._z_2, ob["z2"]) and C.bit_equal(fr._cov_sample, ob["cs"])):
                what = "modes differ from those of a fresh generator (seed %d, model row %d, mode_no %d)" % (md_ev, md_mi, md_n)
        if what is None and (out_kind == 1) != (ob["out"] is not None):
            what = "operation kind mismatch"
        if what is None and out_kind == 1 and not out_is_state:
            what = "model output does not use the state's model/mode number"
        if what is None and out_kind == 1 and o_ek == 0:
            fr = fresh_rm(gs, cache, cls, tbl, o_mi, o_n, o_ev)
            gm = tbl.objs[o_mi]

            def noise(shape, gm=gm):
                if not has_noise:
                    return 0.0
                sub = stream.subseed(n_ek, n_ev, n_pos)
                return np.sqrt(gm.nugget) * np.random.RandomState(sub).normal(size=shape)
            STATS["fields_checked"] += 1
            STATS["noise_fields"] += int(has_noise)
            exp = expected_rm_field(gs, cls, fr, gm, o_n, ob["info"]["pos"], noise)
            exp = np.reshape(exp, np.shape(ob["out"]))
            if has_noise != (gm.nugget > 0 and (ob["info"]["srf"] or gops[t - 1][2] == 1)):
                what = "nugget drawn or not"
            elif not C.bit_equal(exp, ob["out"]):
                what = ("field of the history object differs from the field of a fresh generator (seed %d, model row %d, mode_no %d%s)"
                        % (o_ev, o_mi, o_n, ", noise sub-stream %d" % n_pos if has_noise else ""))
        if what is not None:
            step = "init" if t == 0 else "generator-level op %d %r" % (t - 1, gops[t - 1])
            # a counter-example to the property itself?  (field / modes / noise differ from a fresh object)
            is_prop = "fresh generator" in what
            ctx.violation("correspondence: %s history vs state machine, at %s" % (cls, step), what,
                          dict(plan=plan, step=t, gops=gops), key="rm_history:" + what.split(":")[0],
                          no_input=not is_prop)
            return len(gops)
    STATS["gen_ops"] += len(gops)
    STATS["resets"] += int(rows[-1][0])
    STATS["fresh_generators_built"] += len(cache)
    return len(gops)


# --------------------------------------------------------------------------- Fourier histories

def rand_period(rng, dim):
    k = int(rng.integers(1, dim + 2))
    return [float(rng.choice(PERIODS)) for _ in range(k)]


def rand_mode_no(rng, dim, odd_ok=True):
    k = int(rng.integers(1, dim + 1))
    vals = [2, 4, 6] if not (odd_ok and rng.random() < 0.06) else [3, 4, 5]
    return [int(rng.choice(vals)) for _ in range(k)]


def gen_plan_fo(rng, n_ops):
    _LAST[0] = None
    dim = int(rng.integers(1, 4))
    spec = rand_spec(rng, dim, cls=str(rng.choice(CLS_PPF + ["Stable", "Matern", "SuperSpherical", "TPLGaussian"])))
    init = dict(cls="Fourier", spec=spec, period=rand_period(rng, dim), mode_no=rand_mode_no(rng, dim, odd_ok=False),
                seed=rand_seed(rng))
    ops = []
    for _ in range(n_ops):
        r = rng.random()
        if r < 0.30:
            ops.append(["call", rand_seed(rng), int(rng.integers(1, 6)), str(rng.choice(["field", "f2", "none"]))])
        elif r < 0.52:
            ops.append(["mod", str(rng.choice(["var", "len_scale", "nugget", "anis", "anis", "angles", "opt", "opt", "anis_elem", "anis_elem", "angles_elem"])), int(rng.integers(0, 6))])
        elif r < 0.58:
            ops.append(["restore"])
        elif r < 0.65:
            ops.append(["setmodel", rand_spec(rng, dim if rng.random() < 0.4 else int(rng.integers(1, 4)), cls=str(rng.choice(CLS_PPF)))])
        elif r < 0.71:
            ops.append(["gen.seed", rand_seed(rng)])
        elif r < 0.75:
            ops.append(["gen.reset_seed", rand_seed(rng)])
        elif r < 0.82:
            ops.append(["gen.period", rand_period(rng, 3)])
        elif r < 0.89:
            ops.append(["gen.mode_no", rand_mode_no(rng, 3)])
        elif r < 0.96:
            ops.append(["gen.update", bool(rng.random() < 0.6), rand_seed(rng),
                        rand_period(rng, 3) if rng.random() < 0.5 else None,
                        rand_mode_no(rng, 3) if rng.random() < 0.5 else None])
        else:
            ops.append(["gen.call", int(rng.integers(1, 5)), bool(rng.random() < 0.7)])
    return dict(kind="fo_history", init=init, ops=ops, pos_seed=int(rng.integers(1 << 30)))


def fresh_fo(gs, cache, tbl, midx, period, mode_no, seed):
    key = (midx, tuple(period), tuple(mode_no), seed)
    if key not in cache:
        cache[key] = gs.field.generator.Fourier(copy.deepcopy(tbl.objs[midx]), period=list(period), mode_no=list(mode_no), seed=seed)
    return cache[key]


def run_plan_fo(ctx, gs, drv, plan):
    from gstools.field import generator as G
    init = plan["init"]
    seeds = Seeds()
    tbl = Table("auto")
    prng = np.random.default_rng(plan["pos_seed"])
    pgen = PosGen(prng, 6.0)
    model = build_model(gs, init["spec"])
    orig_spec = init["spec"]
    so, sk, sv, stok = seeds.get(init["seed"])
    if sk == 0:
        so, sk = None, 1
    pers, mns = [list(init["period"])], [list(init["mode_no"])]
    srf = gs.SRF(model, generator="Fourier", period=list(init["period"]), mode_no=list(init["mode_no"]), seed=so)
    tbl.idx(model)
    gen = srf.generator
    gops, obs = [], []
    held = [gen._rng]
    resets = [1]

    def observe(out=None, info=None, raised=False, mid=False):
        if gen._rng is not held[-1]:
            held.append(gen._rng)
            resets[0] += 1
        obs.append(dict(mid=mid, raised=raised, resets=resets[0], seed=gen.seed, mode_no=[int(x) for x in gen.mode_no],
                        period=np.array(gen.period, dtype=float), delta=np.array(gen._delta_k, dtype=float),
                        model=enc_model(gen.model, tbl.tags), master=master_of(gen).get_state(),
                        modes=gen._modes, z1=gen._z_1, z2=gen._z_2, sf=gen._spectrum_factor, out=out, info=info))

    def gen_update(midx, mobj, o, kd, v, tok, per, mn):
        pi = ni = -1
        kw = {}
        if per is not None:
            pers.append(list(per))
            pi = len(pers) - 1
            kw["period"] = per[0] if (len(per) == 1 and v % 2 == 0) else list(per)
        if mn is not None:
            mns.append(list(mn))
            ni = len(mns) - 1
            kw["mode_no"] = mn[0] if (len(mn) == 1 and v % 2 == 1) else list(mn)
        gops.append([0, midx, kd, v, tok, pi, ni])
        try:
            gen.update(mobj, o, **kw)
        except ValueError:
            observe(raised=True)
            return False
        observe()
        return True

    observe()
    alive = True
    for op in plan["ops"]:
        if not alive:
            break
        k = op[0]
        if k == "mod":
            apply_mod(srf.model, op[1], op[2])
        elif k == "restore":
            for a in ("var", "len_scale", "nugget"):
                setattr(srf.model, a, orig_spec[a])
            if srf.model.dim == orig_spec["dim"] and srf.model.dim > 1:
                srf.model.anis = orig_spec["anis"]
                srf.model.angles = orig_spec["angles"]
        elif k == "setmodel":
            srf.model = build_model(gs, op[1])
            orig_spec = op[1]
        elif k == "call":
            o, kd, v, tok = seeds.get(op[1])
            pos = pgen.next(srf.model.dim, op[2])
            n = pos.shape[1]
            store = {"field": True, "f2": "f2", "none": False}[op[3]]
            midx = tbl.idx(srf.model)
            iso = call_positions(srf, pos)
            fld = srf(pos, seed=o, store=store)
            gops.append([0, midx, kd, v, tok, -1, -1])
            observe(mid=True)
            gops.append([4, n, 1, 0, 0, 0, 0])
            observe(out=np.array(fld), info=dict(pos=iso, srf=True))
        elif k == "gen.seed":
            o, kd, v, tok = seeds.get(op[1])
            gen.seed = o
            gops.append([1, -1, kd, v, tok, 0, 0])
            observe()
        elif k == "gen.reset_seed":
            o, kd, v, tok = seeds.get(op[1])
            gen.reset_seed(o)
            gops.append([2, -1, kd, v, tok, 0, 0])
            observe()
        elif k == "gen.period":
            pers.append(list(op[1]))
            gops.append([0, -1, 0, 0, 0, len(pers) - 1, -1])
            try:
                gen.period = list(op[1])
                observe()
            except ValueError:
                observe(raised=True)
                alive = False
        elif k == "gen.mode_no":
            mns.append(list(op[1]))
            gops.append([0, -1, 0, 0, 0, -1, len(mns) - 1])
            try:
                gen.mode_no = list(op[1])
                observe()
            except ValueError:
                observe(raised=True)
                alive = False
        elif k == "gen.update":
            o, kd, v, tok = seeds.get(op[2])
            if op[1]:
                alive = gen_update(tbl.idx(srf.model), srf.model, o, kd, v, tok, op[3], op[4])
            else:
                alive = gen_update(-1, None, o, kd, v, tok, op[3], op[4])
        elif k == "gen.call":
            pos = rand_pos(prng, gen.model.dim, op[1], scale=6.0)
            fld = gen(pos, add_nugget=op[2])
            gops.append([4, op[1], int(op[2]), 0, 0, 0, 0])
            observe(out=np.array(fld), info=dict(pos=pos, srf=False))
    meta, par, npar = tbl.args()
    wp = max(len(p) for p in pers)
    wm = max(len(p) for p in mns)
    P = np.zeros((len(pers), wp))
    M = np.zeros((len(mns), wm), dtype=np.int64)
    for i, p in enumerate(pers):
        P[i, :len(p)] = p
    for i, p in enumerate(mns):
        M[i, :len(p)] = p
    res = drv.call("fo_hist", meta, par, npar, np.array([0, 0, 0, sk, sv, stok], dtype=np.int64),
                   P, np.array([len(p) for p in pers], dtype=np.int64), M, np.array([len(p) for p in mns], dtype=np.int64),
                   np.array(gops, dtype=np.int64).reshape(len(gops), 7))
    irows, frows = res
    irows = np.asarray(irows).reshape(-1, 26) if np.size(irows) else np.zeros((0, 26), dtype=np.int64)
    frows = np.asarray(frows).reshape(-1, 6) if np.size(frows) else np.zeros((0, 6))
    cache = {}
    stream = Stream()
    last_resets = 0
    pending = False

    def fail(t, what, is_prop):
        step = "init" if t == 0 else "generator-level op %d %r" % (t - 1, gops[t - 1])
        ctx.violation("correspondence: Fourier history vs state machine, at %s" % step, what,
                      dict(plan=plan, step=t, gops=gops), key="fo_history:" + what.split(":")[0], no_input=not is_prop)
        return len(gops)

    if len(irows) != len(obs):
        return fail(min(len(irows), len(obs)), "history length: model produced %d states, implementation %d" % (len(irows), len(obs)), False)
    for t, (ir, fr_, ob) in enumerate(zip(irows, frows, obs)):
        (ok, m_resets, m_pos, _ent, skind, sval, ekind, evl, m_midx, dim, plen, nlen, mn0, mn1, mn2, g_ok, sf_ok,
         z_ek, z_ev, z_n, out_kind, has_noise, n_ek, n_ev, n_pos, n_shape) = [int(x) for x in ir[:26]]
        if (ok == 0) != ob["raised"]:
            return fail(t, "exception: model %s, implementation %s" % ("raises" if ok == 0 else "succeeds", "raised" if ob["raised"] else "succeeded"), False)
        if ok == 0:
            STATS["raises"] += 1
            break
        STATS["gen_ops"] += 1
        STATS["int_seed_states" if ekind == 0 else "entropy_states"] += 1
        m_mn = [mn0, mn1, mn2][:nlen]
        what = None
        if m_resets != ob["resets"]:
            what = "re-seeded or not: model says %d resets so far, implementation %d" % (m_resets, ob["resets"])
        elif (skind == 0) != (ob["seed"] is None) or (skind == 1 and int(ob["seed"]) != sval):
            what = "stored seed: model %s, implementation %r" % ((skind, sval), ob["seed"])
        elif tbl.rows[m_midx] != ob["model"]:
            what = "generator's model copy: model row %r, implementation %r" % (tbl.rows[m_midx], ob["model"])
        elif m_mn != ob["mode_no"]:
            what = "grid shape (mode_no): model %r, implementation %r" % (m_mn, ob["mode_no"])
        elif plen != len(ob["period"]) or not C.bit_equal(fr_[:plen], ob["period"]):
            what = "period: model %r, implementation %r" % (list(fr_[:plen]), list(ob["period"]))
        elif not C.close(fr_[3:3 + plen], ob["delta"], rtol=1e-15):
            what = "delta_k: model %r, implementation %r" % (list(fr_[3:3 + plen]), list(ob["delta"]))
        elif not (g_ok and sf_ok and z_n == int(np.prod(m_mn)) and (z_ek, z_ev) == (ekind, evl)):
            what = "model state not fresh (grid/spectrum/amplitudes not derived from the present settings)"
        else:
            if (m_resets != last_resets or pending) and ekind == 1:
                pending = ob["mid"]
                if not pending:
                    stream.base = (ob["master"], m_pos)
            exp_state = stream.state_after(ekind, evl, m_pos)
            if not ob["mid"] and (exp_state is None or not same_state(exp_state, ob["master"])):
                what = "RNG stream position: master RNG is not at sub-stream %d after seeding with %s" % (m_pos, (ekind, evl))
        last_resets = m_resets
        fr = None
        if what is None:
            # derived arrays = those of a fresh Fourier(model copy, period, mode_no, seed)
            fr = fresh_fo(gs, cache, tbl, m_midx, ob["period"], m_mn, evl if ekind == 0 else 12345)
            if not (C.bit_equal(fr._modes, ob["modes"]) and C.bit_equal(fr._spectrum_factor, ob["sf"]) and C.bit_equal(fr._delta_k, ob["delta"])):
                what = "mode grid / spectrum factor differ from those of a fresh generator (model row %d, period %r, mode_no %r)" % (
                    m_midx, list(ob["period"]), m_mn)
            elif ekind == 0 and not (C.bit_equal(fr._z_1, ob["z1"]) and C.bit_equal(fr._z_2, ob["z2"])):
                what = "random amplitudes differ from those of a fresh generator (seed %d)" % evl
        if what is None and (out_kind == 1) != (ob["out"] is not None):
            what = "operation kind mismatch"
        if what is None and out_kind == 1 and ekind == 0:
            gm = tbl.objs[m_midx]
            sm = G._summate_fourier(fr._spectrum_factor, fr._modes, fr._z_1, fr._z_2, np.asarray(ob["info"]["pos"], dtype=np.double))
            STATS["fields_checked"] += 1
            STATS["noise_fields"] += int(has_noise)
            if has_noise:
                sub = stream.subseed(n_ek, n_ev, n_pos)
                exp = sm + np.sqrt(gm.nugget) * np.random.RandomState(sub).normal(size=sm.shape)
            else:
                exp = sm + 0.0
            if has_noise != (gm.nugget > 0 and (ob["info"]["srf"] or gops[t - 1][2] == 1)):
                what = "nugget drawn or not"
            elif not C.bit_equal(np.reshape(exp, np.shape(ob["out"])), ob["out"]):
                what = "field of the history object differs from the field of a fresh generator (seed %d, model row %d%s)" % (
                    evl, m_midx, ", noise sub-stream %d" % n_pos if has_noise else "")
        if what is not None:
            return fail(t, what, "fresh generator" in what)
    return len(gops)


# --------------------------------------------------------------------------- numeric ties (calls, grid, compare)

def amp_scale(a, z1, z2, sf=None):
    w = np.abs(z1) + np.abs(z2)
    if sf is not None:
        w = w * np.abs(sf)
    return float(abs(a) * w.sum()) + 1e-300


def tie_calls(ctx, gs, drv, rng, reps, offset=0):
    """generator __call__ and generate_grid vs the extracted definitions the theorems are about"""
    from gstools.tools.geometric import generate_grid
    for rep in range(offset, offset + reps):
        dim = int(rng.integers(1, 4))
        n = int(rng.choice([1, 2, 5]))
        N = int(rng.choice([3, 8]))
        sched = int(rng.integers(0, 3))
        m = build_model(gs, rand_spec(rng, dim, cls=str(rng.choice(CLS_PPF)), nugget=0.0))
        pos = rand_pos(rng, dim, n)
        g = gs.field.generator.RandMeth(m, mode_no=N, seed=int(rng.integers(1, 1000)))
        ref = g(pos)
        mod = drv.call("randmeth_call", ("n", sched), float(m.var), ("n", N), g._cov_sample, g._z_1, g._z_2, np.zeros(n), pos)
        ctx.count(("tie", "randmeth_call", dim, n, N), hist=dict(stage="tie:randmeth_call", dim=dim))
        sc = amp_scale(np.sqrt(m.var / N), g._z_1, g._z_2)
        if not C.close(ref, mod, rtol=1e-9, scale=sc):
            ctx.violation("correspondence: RandMeth.__call__ vs model randmeth_call", "generator call differs from its model",
                          dict(dim=dim, n=n, N=N, ref=[C.fhex(x) for x in ref], model=[C.fhex(x) for x in np.ravel(mod)]),
                          key="tie:randmeth_call", no_input=True)
        one = drv.call("rm_value", float(m.var), ("n", N), g._cov_sample, g._z_1, g._z_2, np.ascontiguousarray(pos[:, 0]))
        if not C.close([ref[0]], [one], rtol=1e-9, scale=sc):
            ctx.violation("correspondence: RandMeth.__call__ vs model rm_value", "per-point value differs",
                          dict(dim=dim, ref=C.fhex(ref[0]), model=C.fhex(one)), key="tie:rm_value", no_input=True)
        per = [float(rng.choice(PERIODS)) for _ in range(dim)]
        mn = [int(rng.choice([2, 4])) for _ in range(dim)]
        f = gs.field.generator.Fourier(m, period=per, mode_no=mn, seed=int(rng.integers(1, 1000)))
        ref = f(pos)
        mod = drv.call("fourier_call", ("n", sched), f._spectrum_factor, f._modes, f._z_1, f._z_2, np.zeros(n), pos)
        ctx.count(("tie", "fourier_call", dim, n), hist=dict(stage="tie:fourier_call", dim=dim))
        sc = amp_scale(1.0, f._z_1, f._z_2, f._spectrum_factor)
        if not C.close(ref, mod, rtol=1e-9, scale=sc):
            ctx.violation("correspondence: Fourier.__call__ vs model fourier_call", "generator call differs from its model",
                          dict(dim=dim, n=n, ref=[C.fhex(x) for x in ref], model=[C.fhex(x) for x in np.ravel(mod)]),
                          key="tie:fourier_call", no_input=True)
        if dim >= 2:
            mu = float(rng.choice([1.0, 0.5, 3.0]))
            v = gs.field.generator.IncomprRandMeth(m, mean_velocity=mu, mode_no=N, seed=int(rng.integers(1, 1000)))
            ref = v(pos)
            mod = drv.call("incompr_call", mu, float(m.var), ("n", N), v._cov_sample, v._z_1, v._z_2, pos)
            ctx.count(("tie", "incompr_call", dim, n, N), hist=dict(stage="tie:incompr_call", dim=dim))
            sc = amp_scale(2 * mu * np.sqrt(m.var / N), v._z_1, v._z_2) + abs(mu)
            if not C.close(ref, np.asarray(mod).reshape(ref.shape), rtol=1e-9, scale=sc):
                ctx.violation("correspondence: IncomprRandMeth.__call__ vs model incompr_call", "generator call differs from its model",
                              dict(dim=dim, n=n, N=N), key="tie:incompr_call", no_input=True)
            dd, ii = int(rng.integers(dim)), int(rng.integers(n))
            one = drv.call("ic_value", mu, float(m.var), ("n", N), v._cov_sample, v._z_1, v._z_2, ("n", dim), ("n", dd),
                           np.ascontiguousarray(pos[:, ii]))
            if not C.close([ref[dd, ii]], [one], rtol=1e-9, scale=sc):
                ctx.violation("correspondence: IncomprRandMeth.__call__ vs model ic_value", "per-point component differs",
                              dict(dim=dim, d=dd, ref=C.fhex(ref[dd, ii]), model=C.fhex(one)), key="tie:ic_value", no_input=True)
        # generate_grid / C-order index
        lens = [int(rng.integers(1, 4)) for _ in range(dim)]
        axes = [np.sort(rng.uniform(-5, 5, k)) for k in lens]
        A = np.zeros((dim, max(lens)))
        for i, a in enumerate(axes):
            A[i, :len(a)] = a
        ref = generate_grid(axes)
        mod = drv.call("generate_grid", A, np.array(lens, dtype=np.int64))
        idx = [int(rng.integers(0, k)) for k in lens]
        fi = drv.call("flat_index", np.array(lens, dtype=np.int64), np.array(idx, dtype=np.int64))
        pa = drv.call("point_at", A, np.array(lens, dtype=np.int64), np.array(idx, dtype=np.int64))
        ctx.count(("tie", "generate_grid", tuple(lens)), hist=dict(stage="tie:generate_grid", dim=dim))
        ok = (C.bit_equal(ref, np.asarray(mod).reshape(ref.shape)) and fi == int(np.ravel_multi_index(idx, lens))
              and C.bit_equal(pa, [a[i] for a, i in zip(axes, idx)]) and C.bit_equal(ref[:, fi], pa))
        if not ok:
            ctx.violation("correspondence: generate_grid vs model", "structured grid expansion differs from the model",
                          dict(lens=lens, idx=idx), key="tie:generate_grid", no_input=True)


def model_params(m):
    d = dict(var=float(m.var), len_scale=float(m.len_scale), nugget=float(m.nugget))
    if m.dim > 1:
        d["anis"] = [float(x) for x in m.anis]
        d["angles"] = [float(x) for x in np.atleast_1d(m.angles)]
    for o in m.opt_arg:
        d[o] = float(getattr(m, o))
    return d


def followup_pair(ctx, gs, a, b, label):
    """CovModel.__eq__ calls a and b equal although the modelled compare separates them: run the property on this
    pair — SRF on a, call, change the model IN PLACE to b's parameters, call again, vs a freshly built SRF on b"""
    pa, pb = model_params(a), model_params(b)
    pos = np.array([[0.3, 1.7, -2.2, 4.1]] * a.dim) * np.arange(1, a.dim + 1)[:, None]
    found = False
    for kind in ("RandMeth", "Fourier") + (("IncomprRandMeth",) if a.dim > 1 else ()):
        kw = dict(period=8.0, mode_no=4) if kind == "Fourier" else dict(mode_no=12)
        m = copy.deepcopy(a)
        srf = gs.SRF(m, generator=kind, seed=20170519, **kw)
        srf(pos)
        for k, v in pb.items():
            if pa[k] != v:
                setattr(m, k, v)
        hist = np.array(srf(pos))
        fresh = np.array(gs.SRF(copy.deepcopy(b), generator=kind, seed=20170519, **kw)(pos))
        ctx.count(("followup", kind, a.name, a.dim), hist=dict(stage="probe:compare-followup", generator=kind))
        if not C.bit_equal(hist, fresh):
            found = True
            ctx.violation("probe: in-place model change not seen by the generator (%s; %s)" % (kind, label),
                          "after changing %s in place from %r to %r the SRF still generates with the old model: field differs from a freshly constructed SRF's" % (
                              a.name, {k: pa[k] for k in pa if pa[k] != pb[k]}, {k: pb[k] for k in pb if pa[k] != pb[k]}),
                          dict(generator=kind, cls=a.name, dim=a.dim, before=pa, after=pb, settings=kw, seed=20170519,
                               pos=pos.tolist(), max_abs_diff=float(np.max(np.abs(hist - fresh)))),
                          key="model-change-unseen:%s:%s" % (a.name, kind))
    return found


def tie_compare(ctx, gs, drv, rng, reps, offset=0):
    """covmodel.tools.compare (CovModel.__eq__) vs the modelled isclose comparison, incl. pairs around the tolerance"""
    tags = {}
    for rep in range(offset, offset + reps):
        dim = int(rng.integers(1, 4))
        sp = rand_spec(rng, dim)
        a = build_model(gs, sp)
        b = build_model(gs, sp)
        kind = str(rng.choice(["same", "tiny", "edge-in", "edge-out", "big", "class", "dim"]))
        attr = str(rng.choice(["var", "len_scale", "nugget", "anis", "angles", "opt", "opt"]))
        if attr == "opt" and not a.opt_arg:
            attr = "var"
        if attr == "opt" and kind in ("tiny", "edge-in", "edge-out", "big"):
            rel = {"tiny": 1e-9, "edge-in": 5e-6, "edge-out": 2.5e-5, "big": 0.3}[kind]
            o = str(rng.choice(list(a.opt_arg)))
            v = getattr(a, o)
            setattr(b, o, v * (1 - rel) + (0.05 if (kind == "big" and v == 0.0) else 0.0))
        elif kind in ("tiny", "edge-in", "edge-out", "big"):
            rel = {"tiny": 1e-9, "edge-in": 5e-6, "edge-out": 2.5e-5, "big": 0.3}[kind]
            if attr == "anis" and dim > 1:
                b.anis = np.array(a.anis) * (1 - rel)
            elif attr == "angles" and dim > 1:
                b.angles = np.array(a.angles) * (1 + rel) + (rel if kind == "big" else 0.0)
            elif attr == "nugget":
                b.nugget = a.nugget * (1 + rel) + (rel if kind == "big" else 0.0)
            elif attr == "len_scale":
                b.len_scale = a.len_scale * (1 + rel)
            else:
                b.var = a.var * (1 + rel)
        elif kind == "class":
            sp2 = dict(sp, cls="Exponential" if sp["cls"] != "Exponential" else "Gaussian")
            for o in ("alpha", "nu"):
                sp2.pop(o, None)
            b = build_model(gs, sp2)
        elif kind == "dim":
            b = build_model(gs, rand_spec(rng, 1 + dim % 3, cls=sp["cls"]))
        ea, eb = enc_model(a, tags), enc_model(b, tags)
        ref = bool(a == b)
        mod = drv.call("compare", ("z", ea[0]), ("n", ea[1]), np.array(ea[3]), ("z", eb[0]), ("n", eb[1]), np.array(eb[3]))
        ctx.count(("tie", "compare", kind, attr if kind in ("tiny", "edge-in", "edge-out", "big") else "-", dim),
                  hist=dict(stage="tie:compare", compare_kind=kind))
        if ref != mod:
            found = False
            if ref and not mod and a.name == b.name and a.dim == b.dim:
                found = followup_pair(ctx, gs, a, b, "%s, %s" % (kind, attr))
            if not found:
                ctx.violation("correspondence: CovModel.__eq__ vs model compare", "model comparison differs from its model (%s, %s): %r vs %r" % (kind, attr, ref, mod),
                              dict(a=list(ea[3]), b=list(eb[3]), kind=kind), key="tie:compare", no_input=True)


# --------------------------------------------------------------------------- probes on the implementation

def field_tolerance(model, gen, pos, kind):
    """rounding bound for evaluating the same location inside different batches: 0 (bitwise) for unrotated
    models; for rotated ones np.dot(matrix, pos) may take a different BLAS kernel per batch shape, each
    coordinate being a length-dim dot product: |dx'| <= 2*dim*eps*(|M| |x|), |dphase_j| <= sum_d |k_dj| dx'_d,
    |dfield| <= amp * sum_j (|z1_j|+|z2_j|) |dphase_j| ; factor 4 for the rounding of the sum itself"""
    if model.dim == 1 or np.all(np.asarray(model.angles) == 0.0):
        return 0.0
    from gstools.tools.geometric import matrix_isometrize
    M = np.abs(matrix_isometrize(model.dim, model.angles, model.anis))
    dx = 2 * model.dim * np.finfo(float).eps * (M @ np.abs(pos)).max(axis=1)
    if kind == "Fourier":
        k, w, a = gen._modes, (np.abs(gen._z_1) + np.abs(gen._z_2)) * np.abs(gen._spectrum_factor), 1.0
    else:
        k, w, a = gen._cov_sample, np.abs(gen._z_1) + np.abs(gen._z_2), np.sqrt(model.var / gen.mode_no)
        if kind == "IncomprRandMeth":
            a = 2 * a
    dph = (np.abs(k) * dx[:, None]).sum(axis=0)
    return float(4 * a * (w * dph).sum())


def eq_tol(a, b, tol):
    a, b = np.asarray(a), np.asarray(b)
    if a.shape != b.shape:
        return False
    if tol == 0.0:
        return C.bit_equal(a, b)
    return bool(np.all(np.abs(a - b) <= tol))


def make_srf(gs, rng, kind, dim, rotated):
    m = build_model(gs, rand_spec(rng, dim, cls=str(rng.choice(CLS_PPF)), nugget=0.0, rotated=rotated))
    seed = int(rng.choice([5, 100000, 20260930]))
    if kind == "Fourier":
        return m, gs.SRF(m, generator="Fourier", period=[float(rng.choice(PERIODS)) for _ in range(dim)],
                         mode_no=[int(rng.choice([4, 6])) for _ in range(dim)], seed=seed)
    return m, gs.SRF(m, generator=kind, mode_no=int(rng.choice([8, 25])), seed=seed)


def probe_locality(ctx, gs, rng, reps, offset=0):
    import meshio
    for rep in range(offset, offset + reps):
        kind = ["RandMeth", "IncomprRandMeth", "Fourier"][rep % 3]
        dim = int(rng.integers(2, 4)) if kind == "IncomprRandMeth" else int(rng.integers(1, 4))
        rotated = bool(rng.random() < 0.5) if dim > 1 else False
        m, srf = make_srf(gs, rng, kind, dim, rotated)
        gen = srf.generator
        n = int(rng.integers(2, 30))
        pos = rand_pos(rng, dim, n, scale=6.0)
        tol = field_tolerance(m, gen, pos, kind)
        full = np.array(srf(pos))
        case = dict(generator=kind, dim=dim, n=n, rotated=rotated, spec=repr(m), pos=[C.fhex(x) for x in pos.ravel()], tol=tol)
        ctx.count(("locality", kind, dim, rotated), hist=dict(stage="probe:locality", generator=kind, dim=dim, rotated=rotated))

        def bad(what, key, extra=None):
            ctx.violation("probe: locality (%s)" % what, "%s: value at a location depends on %s" % (kind, what),
                          dict(case, **(extra or {})), key="locality:%s:%s" % (kind, key))
        # 1. permutation of the same point set: bitwise (same batch shape)
        perm = rng.permutation(n)
        if not eq_tol(np.array(srf(pos[:, perm])), full[..., perm], tol):
            bad("the order of the points", "perm", dict(perm=perm.tolist()))
        # 2. subset / single point / batches
        sub = np.sort(rng.choice(n, size=int(rng.integers(1, n + 1)), replace=False))
        if not eq_tol(np.array(srf(pos[:, sub])), full[..., sub], tol):
            bad("which other points are requested", "subset", dict(subset=sub.tolist()))
        i = int(rng.integers(n))
        if not eq_tol(np.array(srf(pos[:, i:i + 1])), full[..., i:i + 1], tol):
            bad("which other points are requested (single point)", "single", dict(i=i))
        cuts = np.sort(rng.choice(np.arange(1, n), size=min(n - 1, int(rng.integers(1, 4))), replace=False))
        parts = [np.array(srf(p)) for p in np.split(pos, cuts, axis=1)]
        if not eq_tol(np.concatenate(parts, axis=-1), full, tol):
            bad("batching", "split", dict(cuts=cuts.tolist()))
        # 3. the generator itself on isometrized positions: bitwise for every model (theorem C11_perm_subset_*)
        iso = np.ascontiguousarray(m.isometrize(pos))
        gfull = gen(iso)
        if not (C.bit_equal(gen(np.ascontiguousarray(iso[:, perm])), gfull[..., perm])
                and C.bit_equal(gen(np.ascontiguousarray(iso[:, sub])), gfull[..., sub])
                and C.bit_equal(np.concatenate([gen(np.ascontiguousarray(p)) for p in np.split(iso, cuts, axis=1)], axis=-1), gfull)):
            bad("order / subset / batching inside the generator call", "generator")
        # 4. store name / not storing
        a = np.array(srf(pos, store="other_name"))
        b = np.array(srf(pos, store=False))
        if not (C.bit_equal(a, full) and C.bit_equal(b, full) and C.bit_equal(srf["other_name"], full)):
            bad("the storage name", "store")
        # 5. structured vs unstructured
        lens = [int(rng.integers(1, 5)) for _ in range(dim)]
        axes = [np.sort(rng.uniform(-6, 6, k)) for k in lens]
        st = np.array(srf.structured(axes))
        grid = np.array(np.meshgrid(*axes, indexing="ij")).reshape(dim, -1)
        tol2 = field_tolerance(m, gen, grid, kind)
        un = np.array(srf.unstructured(grid))
        idx = tuple(int(rng.integers(0, k)) for k in lens)
        pt = np.array([[a_[i_]] for a_, i_ in zip(axes, idx)])
        one = np.array(srf.unstructured(pt))
        if not (eq_tol(st.reshape(un.shape), un, tol2) and eq_tol(st[(Ellipsis,) + idx].reshape(one.shape), one, tol2)):
            bad("structured vs unstructured evaluation", "structured", dict(lens=lens, idx=list(idx)))
        # 6. meshio mesh (points and centroids)
        if dim >= 2:
            npts = int(rng.integers(4, 9))
            pts = rng.uniform(-6, 6, size=(npts, dim))
            cells = [("line", np.array([[k, (k + 1) % npts] for k in range(npts - 1)]))]
            if dim == 2:
                cells.append(("triangle", np.array([[0, 1, 2], [1, 2, 3]])))
            mesh = meshio.Mesh(pts, cells)
            srf.mesh(mesh, points="points", name="fp")
            un = np.array(srf.unstructured(pts.T))
            tol3 = field_tolerance(m, gen, pts.T, kind)
            got = np.asarray(mesh.point_data["fp"])
            got = got.T if kind == "IncomprRandMeth" else got
            okm = eq_tol(got, un, tol3)
            srf.mesh(mesh, points="centroids", name="fc")
            cen = np.vstack([np.mean(pts[c.data], axis=1) for c in mesh.cells])
            unc = np.array(srf.unstructured(cen.T))
            gotc = np.concatenate([np.asarray(x) for x in mesh.cell_data["fc"]], axis=0)
            gotc = gotc.T if kind == "IncomprRandMeth" else gotc
            okm = okm and eq_tol(gotc, unc, field_tolerance(m, gen, cen.T, kind))
            if not okm:
                bad("meshio-mesh vs unstructured evaluation", "mesh")


def final_settings(srf, kind):
    g = srf.generator
    if kind == "Fourier":
        return dict(period=[float(x) for x in g.period], mode_no=[int(x) for x in g.mode_no])
    return dict(mode_no=int(g.mode_no))


def probe_history_vs_fresh(ctx, gs, rng, reps, offset=0):
    """nugget-free: any history on one object, then one call, vs a freshly constructed object with the final
    settings (no use of the model: pure implementation probe)"""
    for rep in range(offset, offset + reps):
        kind = ["RandMeth", "Fourier", "IncomprRandMeth"][rep % 3]
        dim = int(rng.integers(2, 4)) if kind == "IncomprRandMeth" else int(rng.integers(1, 4))
        sp = rand_spec(rng, dim, cls=str(rng.choice(CLS_PPF if rng.random() < 0.5 else CLS_MCMC)), nugget=0.0)
        model = build_model(gs, sp)
        seed0 = int(rng.choice([5, 100000, 20170519, 2147483600]))
        if kind == "Fourier":
            srf = gs.SRF(model, generator=kind, period=rand_period(rng, dim), mode_no=rand_mode_no(rng, dim, False), seed=seed0)
        else:
            srf = gs.SRF(model, generator=kind, mode_no=int(rng.choice([6, 12])), seed=seed0)
        trace = []
        for _ in range(int(rng.integers(1, 8))):
            r = rng.random()
            if r < 0.45:
                attr = str(rng.choice(["var", "len_scale", "anis", "angles", "anis_elem", "angles_elem"] + (["opt"] * 4 if sp["cls"] in OPT else [])))
                k = int(rng.integers(0, 6))
                apply_mod(srf.model, attr, k)
                trace.append(["mod", attr, k])
            elif r < 0.65:
                cur = int(srf.generator.seed)
                s = int(rng.choice([5, 100000, 31, 20170519])) if rng.random() < 0.4 else near_seed(rng, max(cur, 100000))
                srf(rand_pos(rng, srf.model.dim, 3, 6.0), seed=int(str(s)))
                trace.append(["call", s])
            elif r < 0.75:
                srf(rand_pos(rng, srf.model.dim, 2, 6.0))
                trace.append(["call", "nan"])
            elif r < 0.85 and kind == "Fourier":
                p = rand_period(rng, 3)
                srf.generator.period = p
                trace.append(["period", p])
            elif r < 0.92 and kind == "Fourier":
                mn = rand_mode_no(rng, 3, False)
                srf.generator.mode_no = mn
                trace.append(["mode_no", mn])
            elif kind != "Fourier":
                n = int(rng.choice([6, 12, 20]))
                srf.generator.mode_no = n
                trace.append(["mode_no", n])
        pos = rand_pos(rng, srf.model.dim, 5, 6.0)
        hist = np.array(srf(pos))
        fresh_srf = gs.SRF(copy.deepcopy(srf.model), generator=kind, seed=int(str(srf.generator.seed)), **final_settings(srf, kind))
        fresh = np.array(fresh_srf(pos))
        ctx.count(("history-vs-fresh", kind, dim, len(trace)), hist=dict(stage="probe:history-vs-fresh", generator=kind, dim=dim))
        if not C.bit_equal(hist, fresh):
            ctx.violation("probe: history vs fresh object (%s)" % kind,
                          "after a history of calls and in-place changes the field differs from a freshly constructed generator's",
                          dict(generator=kind, spec=sp, seed0=seed0, trace=trace, pos=[C.fhex(x) for x in pos.ravel()],
                               max_abs_diff=float(np.max(np.abs(hist - fresh)))), key="history-vs-fresh:%s" % kind)


def probe_seed_change(ctx, gs, rng, reps, offset=0):
    """after changing the seed of an EXISTING generator (through SRF.__call__(seed=), generator.seed =, update(seed=),
    update(model, seed)) the field equals that of a freshly constructed generator with that seed; seeds: equal, neighbouring
    (s+1, s-1, s+7, s*(1+3e-6)), far apart; held by int / new int object / np.int64 / np.int32; ensemble loops seed = s + i"""
    routes = ["call", "setter", "update", "update_model"]
    for rep in range(offset, offset + reps):
        kind = ["RandMeth", "Fourier", "IncomprRandMeth"][rep % 3]
        route = routes[(rep // 3) % 4]
        dim = int(rng.integers(2, 4)) if kind == "IncomprRandMeth" else int(rng.integers(1, 4))
        sp = rand_spec(rng, dim, cls=str(rng.choice(CLS_PPF)), nugget=0.0)
        kw = dict(period=rand_period(rng, dim), mode_no=rand_mode_no(rng, dim, False)) if kind == "Fourier" else dict(mode_no=int(rng.choice([6, 12])))
        s = int(rng.choice([9, 300, 100000, 20170519, 2147483600, 4294967200]))
        srf = gs.SRF(build_model(gs, sp), generator=kind, seed=s, **kw)
        pos = rand_pos(rng, dim, 4, 6.0)
        srf(pos)
        members = []
        chain = []
        for step in range(int(rng.integers(2, 5))):
            s2 = near_seed(rng, s) if rng.random() < 0.75 else int(rng.choice(SEED_POOL))
            typ = str(rng.choice(["int", "newint", "np64"] + (["np32"] if s2 < 2 ** 31 else [])))
            obj = {"int": s2, "newint": int(str(s2)), "np64": np.int64(s2), "np32": np.int32(s2) if s2 < 2 ** 31 else s2}[typ]
            chain.append([s2, typ])
            if route == "call":
                fld = np.array(srf(pos, seed=obj))
            else:
                if route == "setter":
                    srf.generator.seed = obj
                elif route == "update":
                    srf.generator.update(seed=obj)
                else:
                    srf.generator.update(srf.model, obj)
                fld = np.array(srf(pos))
            fresh = np.array(gs.SRF(build_model(gs, sp), generator=kind, seed=int(s2), **kw)(pos))
            ctx.count(("seed-change", kind, route, dim, typ, "same" if s2 == s else ("near" if abs(s2 - s) <= max(7, s * 1e-5) else "far")),
                      hist=dict(stage="probe:seed-change", generator=kind, route=route,
                                seed_relation="same" if s2 == s else ("near" if abs(s2 - s) <= max(7, s * 1e-5) else "far")))
            got_seed = srf.generator.seed
            if not (C.bit_equal(fld, fresh) and int(got_seed) == s2):
                ctx.violation("probe: seed change on an existing generator (%s, %s)" % (kind, route),
                              "after changing the seed %d -> %d (%s) through %s the field differs from a freshly constructed generator's (stored seed %r)" % (
                                  s, s2, typ, route, got_seed),
                              dict(generator=kind, route=route, spec=sp, settings=kw, seed0=s, chain=chain, pos=[C.fhex(x) for x in pos.ravel()],
                                   max_abs_diff=float(np.max(np.abs(fld - fresh)))), key="seed-change:%s:%s" % (kind, route))
                break
            members.append((s2, fld))
            s = s2


MESH_DIRS = {
    1: ["all", "x", "y", "z", "zy", "yx", [0], [1], [2], [2, 0]],
    2: ["all", "xy", "xz", "yz", "zx", "yx", "zy", "zyx", [0, 1], [0, 2], [1, 2], [2, 1], [2, 0, 1]],
    3: ["all", "xyz", "zyx", "yxz", "zxy", [0, 1, 2], [2, 1, 0], [1, 2, 0]],
}


def select_of(direction, dim):
    if isinstance(direction, str):
        return list(range(dim)) if direction == "all" else ["xyz".index(c) for c in direction][:dim]
    return list(direction)[:dim]


def probe_mesh(ctx, gs, rng, reps, offset=0):
    """Field.mesh on meshio meshes (3-D and 2-D point clouds, several cell blocks) for every documented kind of
    `direction` (axis strings and index lists, permuted and non-leading axes), points and centroids: the returned field and
    what is written to point_data / cell_data equal the unstructured evaluation at the selected coordinates"""
    import meshio
    for rep in range(offset, offset + reps):
        kind = ["RandMeth", "Fourier", "IncomprRandMeth"][rep % 3]
        dim = int(rng.integers(2, 4)) if kind == "IncomprRandMeth" else 1 + (rep // 3) % 3
        mdim = 3 if (dim == 3 or rng.random() < 0.75) else 2
        rotated = bool(rng.random() < 0.3) if dim > 1 else False
        m, srf = make_srf(gs, rng, kind, dim, rotated)
        gen = srf.generator
        npts = int(rng.integers(6, 12))
        pts = rng.uniform(-6, 6, size=(npts, mdim))
        blocks = [("line", np.array([[k, k + 1] for k in range(int(rng.integers(1, npts - 1)))])),
                  ("triangle", np.array([rng.choice(npts, 3, replace=False) for _ in range(int(rng.integers(1, 4)))]))]
        if mdim == 3:
            blocks.append(("tetra", np.array([rng.choice(npts, 4, replace=False) for _ in range(int(rng.integers(1, 3)))])))
        if rng.random() < 0.5:
            blocks.append(("line", np.array([[0, npts - 1]])))
        dirs = [d for d in MESH_DIRS[dim] if max(select_of(d, dim)) < mdim]
        direction = dirs[int(rng.integers(len(dirs)))]
        sel = select_of(direction, dim)
        mesh = meshio.Mesh(pts, blocks)
        vec = kind == "IncomprRandMeth"
        for mode in ("points", "centroids"):
            if mode == "points":
                coords = pts.T[sel]
            else:
                coords = np.vstack([np.mean(pts[c.data], axis=1) for c in mesh.cells]).T[sel]
            coords = np.ascontiguousarray(coords)
            want = np.array(srf.unstructured(coords))
            tol = field_tolerance(m, gen, coords, kind)
            name = "f_" + mode
            case = dict(generator=kind, dim=dim, mesh_dim=mdim, rotated=rotated, spec=repr(m), direction=direction, points=mode,
                        mesh_points=[C.fhex(x) for x in pts.ravel()], cells=[(t, np.asarray(c).tolist()) for t, c in blocks],
                        seed=int(gen.seed), tol=tol)
            ctx.count(("mesh", kind, dim, mdim, str(direction), mode), hist=dict(stage="probe:mesh", generator=kind, dim=dim,
                                                                                  direction=str(direction), points=mode))
            try:
                out = np.array(srf.mesh(mesh, points=mode, direction=direction, name=name))
            except Exception as e:      # noqa: BLE001  (an unexpected exception is a finding with its input)
                ctx.violation("probe: Field.mesh (%s, direction=%r)" % (mode, direction), "unexpected %s: %s" % (type(e).__name__, e),
                              case, key="mesh:%s:exception" % kind)
                continue
            if mode == "points":
                stored = np.asarray(mesh.point_data[name])
                stored = stored.T if vec else stored
                shapes_ok = True
            else:
                parts = [np.asarray(x) for x in mesh.cell_data[name]]
                shapes_ok = [len(x) for x in parts] == [len(c.data) for c in mesh.cells]
                stored = np.concatenate(parts, axis=0)
                stored = stored.T if vec else stored
            if not (shapes_ok and eq_tol(out, want, tol) and eq_tol(stored, want, tol)):
                ctx.violation("probe: Field.mesh vs unstructured evaluation (%s, direction=%r)" % (mode, direction),
                              "%s: field on the mesh (%s, direction=%r -> axes %r) differs from the unstructured evaluation at the selected coordinates" % (
                                  kind, mode, direction, sel),
                              dict(case, max_abs_diff_returned=float(np.max(np.abs(out - want))) if out.shape == want.shape else None,
                                   max_abs_diff_stored=float(np.max(np.abs(stored - want))) if stored.shape == want.shape else None),
                              key="mesh:%s:%s" % (kind, mode))


def probe_positions(ctx, gs, rng, reps, offset=0):
    """successive calls of ONE object on position sets that np.allclose calls equal (difference small RELATIVE to the
    coordinate magnitude, or below atol) but that are different locations: UTM-like offsets 1e5..1e7 shifted by a few
    units, staggered structured grids at such offsets, coordinates of order 1e-9.  The second call must equal a fresh
    object's evaluation at the NEW positions and srf.pos must be the new positions"""
    for rep in range(offset, offset + reps):
        kind = ["RandMeth", "Fourier", "IncomprRandMeth"][rep % 3]
        dim = int(rng.integers(2, 4)) if kind == "IncomprRandMeth" else int(rng.integers(1, 4))
        rotated = bool(rng.random() < 0.25) if dim > 1 else False
        sp = rand_spec(rng, dim, cls=str(rng.choice(CLS_PPF)), nugget=0.0, rotated=rotated)
        kw = dict(period=[float(rng.choice(PERIODS)) for _ in range(dim)], mode_no=[4] * dim) if kind == "Fourier" else dict(mode_no=12)
        seed = int(rng.choice([5, 20170519]))
        srf = gs.SRF(build_model(gs, sp), generator=kind, seed=seed, **kw)
        scen = str(rng.choice(["offset-shift", "offset-shift", "tiny", "offset-scale", "plain-shift"]))
        structured = bool(rng.random() < 0.45)
        off = np.array([float(rng.choice(OFFSETS)) for _ in range(dim)])
        if structured:
            lens = [int(rng.integers(2, 5)) for _ in range(dim)]
            base = [np.sort(rng.uniform(-40, 40, k)) for k in lens]
        else:
            n = int(rng.integers(2, 9))
            base = [rng.uniform(-40, 40, n) for _ in range(dim)]
        sets = []
        for step in range(3):
            if scen == "offset-shift":       # a few units (of the order of the correlation length) at 1e5..1e7; step 2 of a structured grid = staggered by half a cell
                sh = rng.uniform(-6, 6, dim) if not (structured and step == 2) else np.array([0.5 * (b[-1] - b[0]) / max(1, len(b) - 1) for b in base])
                cur = [off[d] + base[d] + (sh[d] if step else 0.0) for d in range(dim)]
            elif scen == "tiny":
                cur = [1e-9 * (base[d] + (rng.uniform(-3, 3) if step else 0.0)) for d in range(dim)]
            elif scen == "offset-scale":     # relative change 3e-6 of large coordinates
                cur = [(off[d] + base[d]) * (1 + 3e-6 * step) for d in range(dim)]
            else:
                cur = [base[d] + (rng.uniform(-6, 6) if step else 0.0) for d in range(dim)]
            sets.append([np.ascontiguousarray(c, dtype=float) for c in cur])
        ctx.count(("positions", kind, dim, scen, structured), hist=dict(stage="probe:positions", generator=kind, dim=dim, scenario=scen,
                                                                       mesh_type="structured" if structured else "unstructured"))
        mt = "structured" if structured else "unstructured"
        for step, cur in enumerate(sets):
            got = np.array(srf(tuple(cur), mesh_type=mt))
            fresh_srf = gs.SRF(build_model(gs, sp), generator=kind, seed=seed, **kw)
            want = np.array(fresh_srf(tuple(cur), mesh_type=mt))
            grid = np.array(np.meshgrid(*cur, indexing="ij")).reshape(dim, -1) if structured else np.array(cur)
            tol = field_tolerance(srf.model, srf.generator, grid, kind)
            pos_ok = len(srf.pos) == dim and all(C.bit_equal(a, b) for a, b in zip(srf.pos, cur))
            if not (eq_tol(got, want, 0.0 if tol == 0.0 else 2 * tol) and pos_ok):
                ctx.violation("probe: successive calls on nearly equal positions (%s, %s, %s)" % (kind, scen, mt),
                              "call %d of one object on positions that differ from the previous ones by less than np.allclose's tolerance "
                              "differs from a fresh evaluation at these positions%s" % (step + 1, "" if pos_ok else " (srf.pos still holds the previous positions)"),
                              dict(generator=kind, spec=sp, settings=kw, seed=seed, scenario=scen, mesh_type=mt, step=step,
                                   position_sets=[[[C.fhex(x) for x in a] for a in st] for st in sets[:step + 1]],
                                   max_abs_diff=float(np.max(np.abs(got - want))) if got.shape == want.shape else None, srf_pos_is_new=pos_ok),
                              key="positions:%s:%s" % (kind, mt))
                break


def _hist_positions(rng, family, fdim, structured, stored=None):
    """positions for the general history probe: (pos tuple, mesh type); lat-lon models get degrees.
    Point counts 1..7 include n == dim and n == dim +- 1"""
    if family == "latlon":
        lo, hi = [-80.0, -170.0, 0.0][:fdim], [80.0, 170.0, 20.0][:fdim]
    else:
        off = float(rng.choice([0.0, 0.0, 4.0e5]))
        lo, hi = [off - 8.0] * fdim, [off + 8.0] * fdim
    if structured:
        return tuple(np.sort(rng.uniform(lo[d], hi[d], int(rng.integers(1, 5)))) for d in range(fdim)), "structured"
    n = int(rng.choice([1, 2, fdim, fdim + 1, int(rng.integers(1, 8))]))
    return tuple(rng.uniform(lo[d], hi[d], n) for d in range(fdim)), "unstructured"


def _layout(rng, pos, mt):
    """the same positions handed over in another container / memory layout (values identical)"""
    if mt != "unstructured":
        k = int(rng.integers(3))
        return [tuple(pos), [list(p) for p in pos], tuple(np.array(p)[::-1][::-1] for p in pos)][k], ["tuple", "lists", "views"][k]
    a = np.array(pos, dtype=float)
    k = int(rng.integers(6))
    if k == 0:
        return tuple(np.array(p) for p in pos), "tuple"
    if k == 1:
        return a.copy(), "C-2d"
    if k == 2:
        return np.asfortranarray(a), "F-2d"
    if k == 3:
        big = np.zeros((a.shape[0], 2 * a.shape[1]))
        big[:, ::2] = a
        return big[:, ::2], "strided"
    if k == 4:
        return np.ascontiguousarray(a.T).T, "transposed"
    return [list(p) for p in pos], "lists"


def _hist_model(gs, rng, kind, family, nug, ppf_only=False):
    if family == "latlon":
        temporal = bool(rng.random() < 0.4)
        kw = dict(latlon=True, geo_scale=float(rng.choice([1.0, 57.3, 6371.0])), var=float(rng.choice(VAR)),
                  len_scale=float(rng.choice([0.3, 1.0])), nugget=nug)
        if temporal:
            kw.update(temporal=True, anis=[float(rng.choice([0.5, 2.0]))])
        return getattr(gs, str(rng.choice(CLS_PPF)))(**kw)
    if family == "temporal":
        sd = int(rng.integers(1, 3))
        return getattr(gs, str(rng.choice(CLS_PPF)))(temporal=True, spatial_dim=sd, var=float(rng.choice(VAR)), len_scale=float(rng.choice(LEN)),
                                                     nugget=nug, anis=[float(rng.choice(ANIS)) for _ in range(sd)])
    dim = int(rng.integers(2, 4)) if kind == "IncomprRandMeth" else int(rng.integers(1, 4))
    cls = str(rng.choice(CLS_PPF)) if (ppf_only or kind == "Fourier" or rng.random() < 0.7) else str(rng.choice(CLS_MCMC))
    return build_model(gs, rand_spec(rng, dim, cls=cls, nugget=nug))


def _hist_change(gs, rng, srf, kind, family, nug, trace):
    """one in-place change of ONE attribute of the field's model (clearly different or identical values).  List-valued
    attributes are handed over as numpy arrays which the caller then edits in place: the model must keep the values it
    was given.  Returns None or a description of an aliasing violation."""
    m = srf.model
    attrs = ["var", "nugget", "len_scale", "rescale", "anis", "anis_elem"]
    if family == "plain":
        attrs += ["len_scale_list", "angles", "opt", "opt", "angles_elem"]
    attr = str(rng.choice(attrs))
    k = int(rng.integers(0, 6))
    alias = None

    def assign_array(name, val):
        arr = np.array(val, dtype=float)
        setattr(m, name, arr)
        before = np.array(getattr(m, "anis" if name == "len_scale" else name), dtype=float).copy()
        arr *= 1.7                      # the caller goes on working with its array
        arr += 0.3
        after = np.array(getattr(m, "anis" if name == "len_scale" else name), dtype=float)
        return None if np.array_equal(before, after) else "model.%s follows the caller's later in-place edits of the array it was given" % name

    if attr == "anis_elem":
        # element-wise in-place edit of the array the property hands out: no setter is involved
        n_an = len(np.atleast_1d(m.anis))
        if n_an == 0:
            m.var = VAR[k % 3]
            val = "var"
        elif k % 2:
            val = ["anis[%d] =" % ((k // 2) % n_an), [0.5, 0.8, 0.3][(k // 2) % 3]]
            m.anis[(k // 2) % n_an] = val[1]
        else:
            val = ["anis *=", [0.5, 0.9, 0.7][(k // 2) % 3]]
            m.anis *= val[1]
    elif attr == "angles_elem" and m.dim > 1:
        val = ["angles[%d] =" % ((k // 2) % N_ANG[m.dim]), ANG[k % 3] + 0.2 * (k // 3)]
        m.angles[(k // 2) % N_ANG[m.dim]] = val[1]
    elif attr == "nugget":
        val = [0.4, 0.7, 0.2][k % 3] if nug else 0.0
        m.nugget = val
    elif attr == "rescale":
        val = [1.0, 2.0, 0.5][k % 3]
        m.rescale = val
    elif attr == "len_scale_list" and m.dim > 1:
        val = [LEN[(k + i) % 3] for i in range(m.dim)]
        val[0] = max(val)                       # main axis longest: anisotropy ratios <= 1
        alias = assign_array("len_scale", val)
    elif attr == "anis" and family != "plain":
        if len(np.atleast_1d(m.anis)) == 0:
            m.var = VAR[k % 3]
            val = "var"
        else:
            val = [float([0.5, 2.0, 1.0][(k + i) % 3]) for i in range(len(np.atleast_1d(m.anis)))]
            alias = assign_array("anis", val)
    elif attr == "anis" and m.dim > 1:
        val = [ANIS[(k + i) % 3] for i in range(m.dim - 1)]
        alias = assign_array("anis", val)
    elif attr == "angles" and m.dim > 1:
        val = [ANG[(k + i) % 3] for i in range(N_ANG[m.dim])]
        alias = assign_array("angles", val)
    elif attr == "len_scale" and family == "latlon":
        val = [0.3, 1.0, 0.6][k % 3]
        m.len_scale = val
    else:
        val = k
        apply_mod(m, attr if attr != "len_scale_list" else "len_scale", k)
    trace.append(["mod", attr, val if not isinstance(val, np.ndarray) else val.tolist()])
    return alias


def interfere(gs, rng, trace=None):
    """things that must NOT influence the object under test: numpy's global random state, other models with their own
    hankel_kw / argument bounds / optional arguments, other generators and fields evaluated in between"""
    k = int(rng.integers(6))
    if k == 0:
        np.random.seed(int(rng.integers(1 << 30)))
        np.random.normal(size=3)
        what = "np.random.seed + draws"
    elif k == 1:
        m = gs.Stable(dim=int(rng.integers(1, 4)), alpha=1.3, hankel_kw={"N": 150, "h": 0.002})
        m.hankel_kw = {"N": int(rng.choice([100, 300])), "h": float(rng.choice([0.0005, 0.003])), "alt": False}
        m.spectral_density(np.array([0.5, 1.0]))
        what = "other model with custom hankel_kw"
    elif k == 2:
        m = gs.Matern(dim=2, nu=1.2)
        m.set_arg_bounds(var=[0.0, 7.0], len_scale=[0.05, 70.0], nu=[0.3, 40.0])
        m.nu = 3.3
        m.len_scale = 60.0
        m2 = gs.Gaussian(dim=3)
        m2.set_arg_bounds(check_args=False, anis=[0.01, 5.0])
        what = "other models with custom argument bounds"
    elif k == 3:
        kind = str(rng.choice(["RandMeth", "Fourier", "IncomprRandMeth"]))
        m = gs.Exponential(dim=2, var=1.7, len_scale=3.0, nugget=0.2, anis=0.5, angles=0.4)
        kw = dict(period=9.0, mode_no=4) if kind == "Fourier" else dict(mode_no=7)
        o = gs.SRF(m, generator=kind, seed=int(rng.integers(1, 10 ** 6)), **kw)
        o(rng.uniform(-5, 5, size=(2, 3)))
        o.structured([np.linspace(0, 1, 2), np.linspace(0, 1, 3)])
        what = "other %s SRF evaluated" % kind
    elif k == 4:
        m = gs.Rational(dim=2, alpha=2.0, hankel_kw={"N": 120})
        g = gs.field.generator.RandMeth(m, mode_no=4, seed=11)
        g(np.zeros((2, 1)))
        np.random.rand(2)
        what = "other MCMC-sampled generator + global draws"
    else:
        m = gs.TPLGaussian(dim=1, hurst=0.6, len_low=0.2)
        m.hankel_kw = None
        m.hankel_kw = {"a": -1, "b": 1, "N": 250}
        gs.Gaussian(dim=2).hankel_kw = {"h": 0.01}
        what = "hankel_kw reset / set on other models"
    if trace is not None:
        trace.append(["interfere", what])


def probe_srf_history(ctx, gs, rng, reps, offset=0):
    """GENERAL history probe (implementation only).  Random operation sequences on ONE SRF object:
    srf(pos) / srf() and srf(seed=) on STORED positions / set_pos / mesh-type switches / positions in various containers
    and memory layouts (tuple, lists, C / Fortran / strided / transposed 2-D arrays; n = 1, 2, dim, dim+1, ...) / in-place
    change of every model attribute (var, nugget, len_scale scalar and list, anis incl. the time axis, angles, rescale,
    optional arguments) / model replacement (incl. other geo_scale) / generator attributes (mode_no, sampling incl.
    "inversion", period, seed setter, reset_seed) / the CALLER editing in place the arrays it handed over earlier
    (positions, period, mode_no, anis, angles, len_scale) / INTERFERENCE by other objects and numpy's global random
    state / replacing the object by its copy.deepcopy or pickle round trip while the original is used on.
    After EVERY call the result is compared with a SHADOW object: a fresh SRF(copy of the present model, present seed,
    generator settings AS GIVEN by the caller at the time), rebuilt whenever the present parameters differ from those of
    the last call (the real generator must then have re-sampled and restarted its nugget stream) and otherwise called in
    lock step (so that with a nugget the same sub-stream is due).  Same positions, same mesh type => bitwise equality."""
    import pickle
    for rep in range(offset, offset + reps):
        kind = ["RandMeth", "Fourier", "IncomprRandMeth", "RandMeth"][rep % 4]
        nug = [0.0, 0.4][(rep // 4) % 2]
        family = "plain"
        if kind == "RandMeth" and rng.random() < 0.3:
            family = str(rng.choice(["latlon", "temporal"]))
        sampling0 = "auto"
        if kind != "Fourier" and family == "plain" and rng.random() < 0.25:
            sampling0 = "inversion"
        model = _hist_model(gs, rng, kind, family, nug, ppf_only=(sampling0 == "inversion"))
        seed = int(rng.choice([7, 424242, 20170519]))
        fdim = model.field_dim
        caller = []                    # arrays the caller handed over and still owns: [kind, array]
        if kind == "Fourier":
            sett = dict(period=[float(rng.choice(PERIODS)) for _ in range(model.dim)], mode_no=[int(rng.choice([2, 4])) for _ in range(model.dim)])
            given = {}
            for k_ in ("period", "mode_no"):
                if rng.random() < 0.6:      # full-length arrays of the natural dtype, kept by the caller
                    given[k_] = np.array(sett[k_], dtype=float if k_ == "period" or rng.random() < 0.5 else np.int64)
                    caller.append([k_, given[k_]])
                else:
                    given[k_] = list(sett[k_])
        else:
            sett = dict(mode_no=int(rng.choice([6, 12])), sampling=sampling0)
            given = dict(sett)
        items = list(given.items()) + [("seed", seed)]
        order = rng.permutation(len(items))
        srf = gs.SRF(model, generator=kind, **{items[i][0]: items[i][1] for i in order})     # keyword order must not matter
        trace = [["init", kind, repr(model), {k_: (v.tolist() if isinstance(v, np.ndarray) else v) for k_, v in given.items()}, seed,
                  [items[i][0] for i in order]]]
        shadow, last_key = None, None
        exp_pos, exp_mt = None, None
        n_calls = 0

        def fail(what, extra=None, tag="history"):
            ctx.violation("probe: SRF history vs fresh object with the present parameters (%s, %s, %s, nugget %s)" % (kind, family, exp_mt, nug), what,
                          dict(dict(generator=kind, family=family, nugget=nug, trace=trace, present_model=repr(srf.model)), **(extra or {})),
                          key="srf-history:%s:%s:%s" % (kind, "nugget" if nug else "nugget-free", tag))

        failed = False
        for step in range(int(rng.integers(5, 13))):
            r = rng.random()
            call = None
            g = srf.generator
            if r < 0.20:
                pos, mt = _hist_positions(rng, family, fdim, bool(rng.random() < 0.4))
                sd = None if rng.random() < 0.6 else int(rng.choice([7, 424242, 424243, 20170519]))
                call = ("pos", pos, mt, sd)
            elif r < 0.38 and exp_pos is not None:
                sd = None if rng.random() < 0.5 else int(rng.choice([7, 424242, 424243, 20170519]))
                call = ("stored", None, None, sd)
            elif r < 0.45:
                pos, mt = _hist_positions(rng, family, fdim, bool(rng.random() < 0.5))
                given_pos, lay = _layout(rng, pos, mt)
                srf.set_pos(given_pos, mt)
                exp_pos, exp_mt = tuple(np.array(p, dtype=float) for p in pos), mt
                if isinstance(given_pos, np.ndarray) or isinstance(given_pos, tuple):
                    caller.append(["pos", given_pos])
                trace.append(["set_pos", mt, lay, [[C.fhex(x) for x in p] for p in pos]])
            elif r < 0.66:
                alias = _hist_change(gs, rng, srf, kind, family, nug, trace)
                if alias:
                    fail(alias, tag="alias")
                    failed = True
                    break
            elif r < 0.71:
                m2 = _hist_model(gs, rng, kind, family, nug, ppf_only=(kind != "Fourier" and g.sampling == "inversion"))
                if m2.field_dim == fdim and (kind != "Fourier" or m2.dim == srf.model.dim):
                    srf.model = m2
                    trace.append(["setmodel", repr(m2)])
            elif r < 0.78:
                # a setter that changes a value re-samples at once (the Fourier grid setters always do): the streams
                # restart even if a later setter restores the old value before the next call
                if kind == "Fourier":
                    last_key = None
                    which = "period" if rng.random() < 0.5 else "mode_no"
                    val = [float(rng.choice(PERIODS)) for _ in range(srf.model.dim)] if which == "period" else [int(rng.choice([2, 4, 6])) for _ in range(srf.model.dim)]
                    sett[which] = list(val)
                    if rng.random() < 0.6:
                        arr = np.array(val, dtype=float if which == "period" or rng.random() < 0.5 else np.int64)
                        caller.append([which, arr])
                        setattr(g, which, arr)
                    else:
                        setattr(g, which, list(val))
                    trace.append([which, val])
                elif rng.random() < 0.5:
                    n = int(rng.choice([6, 12, 20]))
                    if n != g.mode_no:
                        last_key = None
                    g.mode_no = n
                    sett["mode_no"] = n
                    trace.append(["mode_no", n])
                else:
                    opts = ["auto", "mcmc"] + (["inversion"] * 2 if (family == "plain" and srf.model.name in CLS_PPF) else [])
                    sm = str(rng.choice(opts))
                    if sm != g.sampling:
                        last_key = None
                    g.sampling = sm
                    sett["sampling"] = sm
                    trace.append(["sampling", sm])
            elif r < 0.84:
                if rng.random() < 0.5:
                    sd = int(rng.choice([7, 424242, 424243]))
                    if sd != int(g.seed):
                        last_key = None
                    g.seed = sd
                    trace.append(["gen.seed", sd])
                else:
                    g.reset_seed()
                    last_key = None         # an explicit reset restarts the streams whatever the parameters
                    trace.append(["gen.reset_seed"])
            elif r < 0.90:
                interfere(gs, rng, trace)
            elif r < 0.95 and caller:
                # the caller edits in place every array it handed over earlier
                for what, arr0 in caller:
                    for arr in (arr0 if isinstance(arr0, tuple) else (arr0,)):
                        if not isinstance(arr, np.ndarray) or not arr.flags.writeable:
                            continue
                        if arr.dtype.kind == "f":
                            arr *= 3.0
                            arr += 1.0
                        else:
                            arr += 2
                trace.append(["caller edits its arrays in place", [c[0] for c in caller]])
                caller = []
            else:
                # go on with a copy of the object (deepcopy, or pickle round trip); the original is used on meanwhile
                how_copy = "deepcopy" if rng.random() < 0.5 else "pickle"
                try:
                    new = copy.deepcopy(srf) if how_copy == "deepcopy" else pickle.loads(pickle.dumps(srf))
                except Exception as e:      # noqa: BLE001
                    fail("%s of the SRF object fails: %s: %s" % (how_copy, type(e).__name__, e), tag="copy")
                    failed = True
                    break
                if exp_pos is not None:
                    for _ in range(int(rng.integers(1, 3))):
                        srf()                # the ORIGINAL draws (nugget) noise: must not touch the copy
                srf.model.var = float(srf.model.var) * 1.5
                srf = new
                trace.append(["continue with %s of the object; original called and modified meanwhile" % how_copy])
            if call is None:
                continue
            g = srf.generator
            how, pos, mt, sd = call
            eff_seed = int(g.seed) if sd is None else sd
            # the generator's settings must still be the ones the caller GAVE (not views of arrays edited later)
            if kind == "Fourier":
                now = dict(period=[float(x) for x in g.period], mode_no=[int(x) for x in g.mode_no])
                if now != dict(period=sett["period"], mode_no=sett["mode_no"]):
                    fail("generator settings changed behind the API: given %r, generator now holds %r" % (sett, now), tag="alias")
                    failed = True
                    break
            key = (enc_model(srf.model, {}, "auto")[1:], repr(srf.model.name), bool(srf.model.latlon), float(srf.model.geo_scale),
                   eff_seed, json.dumps(sett, sort_keys=True))
            if key != last_key:
                shadow = gs.SRF(copy.deepcopy(srf.model), generator=kind, seed=eff_seed, **copy.deepcopy(sett))
                last_key = key
            kws = {} if sd is None else dict(seed=sd)
            store = [True, "other", False][int(rng.integers(3))]
            lay = "-"
            try:
                if how == "pos":
                    given_pos, lay = _layout(rng, pos, mt)
                    got = np.array(srf(given_pos, mesh_type=mt, store=store, **kws))
                    exp_pos, exp_mt = tuple(np.array(p, dtype=float) for p in pos), mt
                    if isinstance(given_pos, (np.ndarray, tuple)):
                        caller.append(["pos", given_pos])
                else:
                    got = np.array(srf(store=store, **kws))
                want = np.array(shadow(tuple(p.copy() for p in exp_pos), mesh_type=exp_mt))
            except Exception as e:      # noqa: BLE001
                fail("unexpected %s: %s" % (type(e).__name__, e), tag="exception")
                failed = True
                break
            n_calls += 1
            trace.append(["call", how, exp_mt, lay, None if sd is None else sd, [[C.fhex(x) for x in p] for p in exp_pos]])
            pos_ok = len(srf.pos) == len(exp_pos) and srf.mesh_type == exp_mt and all(C.bit_equal(a_, b_) for a_, b_ in zip(srf.pos, exp_pos))
            if not (C.bit_equal(got, want) and pos_ok):
                fail("call %d (%s%s) of a history on one SRF object differs from a freshly built SRF(copy of the present model, seed %d, %s) "
                     "on the same positions%s%s" % (n_calls, "srf(pos)" if how == "pos" else "srf() on stored positions",
                                                    "" if sd is None else ", seed=%d" % sd, eff_seed, sett,
                                                    " (lock-step nugget sub-stream)" if nug else "",
                                                    "" if pos_ok else "; srf.pos is not the positions given last"),
                     dict(max_abs_diff=float(np.max(np.abs(got - want))) if got.shape == want.shape else None))
                failed = True
                break
        ctx.count(("srf-history", kind, family, nug, n_calls) if n_calls else None, n=max(1, n_calls),
                  hist=dict(stage="probe:srf-history", generator=kind, family=family, nugget=nug))
        for t in trace[1:]:
            ctx.dist.setdefault("srf_history_op", {})
            kk = str(t[0]).split(" of the object")[0] + (":" + str(t[1]) if t[0] in ("mod", "call") else "")
            ctx.dist["srf_history_op"][kk] = ctx.dist["srf_history_op"].get(kk, 0) + 1


def probe_interference(ctx, gs, rng, reps, offset=0):
    """a fresh model + fresh SRF built from the same specification and seed gives the same field whatever happened to
    OTHER objects and to numpy's global random state in between: class x dim x generator x sampling cells"""
    cells = []
    for cls in CLS_PPF + CLS_MCMC:
        for dim in (1, 2, 3):
            for kind in ("RandMeth", "Fourier", "IncomprRandMeth"):
                if kind == "IncomprRandMeth" and dim == 1:
                    continue
                samplings = ["auto"] if kind == "Fourier" else (["auto", "mcmc", "inversion"] if cls in CLS_PPF else ["auto"])
                for smp in samplings:
                    cells.append((cls, dim, kind, smp))
    for rep in range(offset, offset + reps):
        cls, dim, kind, smp = cells[(rep * 37 + int(ctx.seed)) % len(cells)]
        sp = rand_spec(rng, dim, cls=cls, nugget=float(rng.choice([0.0, 0.3])))
        seed = int(rng.choice([3, 99999, 20170519]))
        kw = dict(period=[8.0] * dim, mode_no=[4] * dim) if kind == "Fourier" else dict(mode_no=8, sampling=smp)
        pos = rand_pos(rng, dim, int(rng.choice([1, 2, dim, dim + 1, 5])), 6.0)

        def build():
            o = gs.SRF(build_model(gs, sp), generator=kind, seed=seed, **copy.deepcopy(kw))
            return o, [np.array(o(pos)), np.array(o(pos))]      # two calls: modes and (with nugget) two noise sub-streams
        _, ref = build()
        notes = []
        o_mid = gs.SRF(build_model(gs, sp), generator=kind, seed=seed, **copy.deepcopy(kw))
        for _ in range(int(rng.integers(1, 4))):
            interfere(gs, rng, notes)
        mid = [np.array(o_mid(pos)), np.array(o_mid(pos))]        # built before, evaluated after the interference
        _, after = build()                                        # built and evaluated after
        ctx.count(("interference", cls, dim, kind, smp), hist=dict(stage="probe:interference", generator=kind, dim=dim, sampling=smp, cls=cls))
        for name, res in (("constructed before / evaluated after", mid), ("constructed and evaluated after", after)):
            if not all(C.bit_equal(a_, b_) for a_, b_ in zip(ref, res)):
                ctx.violation("probe: interference by other objects / global state (%s, %s, dim %d, sampling %s)" % (kind, cls, dim, smp),
                              "a fresh SRF (%s the interference) with the same specification and seed gives another field than before: %r" % (name, [n_[1] for n_ in notes]),
                              dict(generator=kind, spec=sp, settings=kw, seed=seed, pos=[C.fhex(x) for x in pos.ravel()], interference=notes,
                                   max_abs_diff=float(max(np.max(np.abs(a_ - b_)) for a_, b_ in zip(ref, res)))),
                              key="interference:%s:%s:%s" % (kind, cls, smp))
                break


DIM_CLASSES = [("Stable", dict(alpha=1.3)), ("Rational", dict(alpha=2.0)), ("SuperSpherical", dict(nu=3.5)), ("Spherical", {}),
               ("Cubic", {}), ("Linear", {}), ("Circular", {}), ("TPLSimple", dict(nu=3.0)),        # no analytic spectrum (hankel transform)
               ("Gaussian", {}), ("Exponential", {}), ("Matern", dict(nu=1.5)), ("JBessel", dict(nu=2.0)), ("TPLGaussian", dict(hurst=0.6))]


def reconstruct(gs, m):
    """a freshly CONSTRUCTED model with the present parameter VALUES of m (no copy of m's internal state)"""
    kw = dict(dim=int(m.dim), var=float(m.var), len_scale=float(m.len_scale), nugget=float(m.nugget), rescale=float(m.rescale))
    if m.dim > 1:
        kw["anis"] = [float(x) for x in np.atleast_1d(m.anis)]
        kw["angles"] = [float(x) for x in np.atleast_1d(m.angles)]
    for o in m.opt_arg:
        kw[o] = float(getattr(m, o))
    return getattr(gs, m.name)(**kw)


def probe_dim_change(ctx, gs, rng, reps, offset=0):
    """in-place `model.dim = n` (up and down, before the SRF is built or between calls, followed by other in-place
    changes) for classes with and without analytic spectrum, all three generators: every call equals the call of a fresh
    SRF on a freshly CONSTRUCTED model with the present parameter values (not a copy of the changed object)"""
    for rep in range(offset, offset + reps):
        kind = ["RandMeth", "Fourier", "IncomprRandMeth"][rep % 3]
        name, okw = DIM_CLASSES[(rep // 3 + int(ctx.seed)) % len(DIM_CLASSES)]
        dims = [2, 3] if kind == "IncomprRandMeth" else [1, 2, 3]
        d0 = int(rng.choice(dims))
        kw0 = dict(dim=d0, var=float(rng.choice(VAR)), len_scale=float(rng.choice(LEN)), **okw)
        if d0 > 1:
            kw0["anis"] = [float(rng.choice(ANIS)) for _ in range(d0 - 1)]
            kw0["angles"] = [float(rng.choice(ANG)) for _ in range(N_ANG[d0])]
        model = getattr(gs, name)(**kw0)
        seed = int(rng.choice([3, 424242]))
        trace = [["model", name, kw0]]
        build_first = bool(rng.random() < 0.6)
        srf = None

        def make(m):
            if kind == "Fourier":
                return gs.SRF(m, generator=kind, seed=seed, period=[8.0, 10.0, 12.5][:m.dim], mode_no=[4, 2, 2][:m.dim])
            return gs.SRF(m, generator=kind, seed=seed, mode_no=6)
        if build_first:
            srf = make(model)
            srf(rand_pos(rng, d0, 3, 6.0))
            trace.append(["SRF built, one call in dim %d" % d0])
        ok = True
        for step in range(int(rng.integers(1, 4))):
            d1 = int(rng.choice([d for d in dims if d != model.dim]))
            model.dim = d1
            trace.append(["model.dim =", d1])
            if rng.random() < 0.5 and d1 > 1:
                val = [float(rng.choice(ANIS)) for _ in range(d1 - 1)]
                model.anis = val
                trace.append(["model.anis =", val])
            if rng.random() < 0.3:
                model.len_scale = float(rng.choice(LEN))
                trace.append(["model.len_scale =", float(model.len_scale)])
            if srf is None:
                srf = make(model)
                trace.append(["SRF built"])
            structured = bool(rng.random() < 0.3)
            if structured:
                pos = tuple(np.sort(rng.uniform(-6, 6, int(rng.integers(1, 4)))) for _ in range(d1))
                mt = "structured"
            else:
                npt = int(rng.choice([1, d1, 4]))
                pos, mt = tuple(rng.uniform(-6, 6, npt) for _ in range(d1)), "unstructured"
            got = np.array(srf(pos, mesh_type=mt))
            fresh_model = reconstruct(gs, model)
            g = srf.generator
            if kind == "Fourier":
                fresh = gs.SRF(fresh_model, generator=kind, seed=seed, period=[float(x) for x in g.period], mode_no=[int(x) for x in g.mode_no])
            else:
                fresh = gs.SRF(fresh_model, generator=kind, seed=seed, mode_no=6)
            want = np.array(fresh(pos, mesh_type=mt))
            trace.append(["call", mt, [[C.fhex(x) for x in p_] for p_ in pos]])
            ctx.count(("dim-change", kind, name, d1, build_first), hist=dict(stage="probe:dim-change", generator=kind, cls=name, dim=d1))
            if not (C.bit_equal(got, want) and fresh_model == model):
                ctx.violation("probe: in-place model.dim change (%s, %s)" % (kind, name),
                              "after `model.dim = %d` the field differs from that of a fresh SRF on a freshly constructed %s with the present parameter values %r" % (
                                  d1, name, model_params(model)),
                              dict(generator=kind, cls=name, seed=seed, trace=trace,
                                   max_abs_diff=float(np.max(np.abs(got - want))) if got.shape == want.shape else None),
                              key="dim-change:%s:%s" % (kind, name))
                ok = False
                break
        if not ok:
            continue


def probe_equal_histories(ctx, gs, rng, reps, offset=0):
    """equal call histories, the seeds held by different objects => equal nugget noise"""
    for rep in range(offset, offset + reps):
        kind = ["RandMeth", "Fourier", "IncomprRandMeth"][rep % 3]
        dim = int(rng.integers(2, 4)) if kind == "IncomprRandMeth" else int(rng.integers(1, 4))
        sp = rand_spec(rng, dim, cls=str(rng.choice(CLS_PPF)), nugget=0.4)
        big = int(rng.choice([257, 100000, 20260930]))
        steps = [["call", str(rng.choice(["nan", "seed", "other"]))] for _ in range(int(rng.integers(2, 6)))]
        pos = rand_pos(rng, dim, 4, 6.0)
        outs = []
        for variant in ("same-object", "distinct-objects", "numpy-int", "float-valued"):
            s0 = int(str(big))
            kw = dict(period=8.0, mode_no=4) if kind == "Fourier" else dict(mode_no=8)
            srf = gs.SRF(build_model(gs, sp), generator=kind, seed=s0, **kw)
            res = []
            for st in steps:
                if st[1] == "nan":
                    res.append(np.array(srf(pos)))
                elif st[1] == "seed":
                    # float-valued: 100000.0 equals the stored 100000 by value, so nothing is re-seeded (a float that
                    # differs from the stored seed would reach numpy's RandomState and raise TypeError: not used)
                    s = {"same-object": s0, "distinct-objects": int(str(big)), "numpy-int": np.int64(big), "float-valued": float(big)}[variant]
                    res.append(np.array(srf(pos, seed=s)))
                else:
                    res.append(np.array(srf(pos, seed=big + 1)))
                    s0 = big + 1 if False else s0
                    res.append(np.array(srf(pos, seed=int(str(big)) if variant != "same-object" else s0)))
            outs.append(res)
        ctx.count(("equal-histories", kind, dim, len(steps)), hist=dict(stage="probe:equal-histories", generator=kind, dim=dim))
        for v, o in zip(("distinct-objects", "numpy-int", "float-valued"), outs[1:]):
            if not all(C.bit_equal(a, b) for a, b in zip(outs[0], o)):
                ctx.violation("probe: equal histories, equal seed values in different objects (%s)" % kind,
                              "nugget noise / field depends on the identity of the seed object (%s vs same-object)" % v,
                              dict(generator=kind, spec=sp, seed=big, steps=steps, pos=[C.fhex(x) for x in pos.ravel()]),
                              key="seed-identity:%s" % kind)
                break


def corpus_isclose(ctx, gs, drv):
    """known finding (c), reproduced on every run: an in-place change below compare()'s isclose tolerance
    never reaches the generator's model copy"""
    pos = np.array([[0.0, 1.0, 2.0], [0.0, 1.0, 2.0]])
    m = gs.Gaussian(dim=2, var=1.0, len_scale=2.0)
    srf = gs.SRF(m, seed=5, mode_no=10)
    srf(pos)
    m.len_scale = 2.0 * (1 + 5e-6)
    hist = np.array(srf(pos))
    fresh = np.array(gs.SRF(copy.deepcopy(m), seed=5, mode_no=10)(pos))
    ctx.count(("corpus", "isclose-stale"), hist=dict(stage="corpus"))
    tags = {}
    ea = enc_model(gs.Gaussian(dim=2, var=1.0, len_scale=2.0), tags)
    eb = enc_model(m, tags)
    if drv is not None:
        pred = drv.call("compare", ("z", ea[0]), ("n", ea[1]), np.array(ea[3]), ("z", eb[0]), ("n", eb[1]), np.array(eb[3]))
        ctx.notes.append("corpus (c): model compare() conflates len_scale 2 and 2*(1+5e-6): %s (theorem C11_isclose_stale_refuted then gives the stale history)" % pred)
    if not C.bit_equal(hist, fresh):
        ctx.violation("corpus: in-place change below the isclose tolerance, history vs fresh object",
                      "after model.len_scale *= 1+5e-6 the SRF still generates with the old length scale",
                      dict(history=[C.fhex(x) for x in hist], fresh=[C.fhex(x) for x in fresh],
                           max_abs_diff=float(np.max(np.abs(hist - fresh)))), key=KEY_C)


# --------------------------------------------------------------------------- main

def guarded(ctx, name, fn, reps, rng, *args):
    """run a probe case by case: an exception inside a case (implementation OR harness, e.g. on a changed tree) is a
    finding with its input — the state of the check's PRNG before the case reproduces it — and the probe goes on"""
    import traceback
    bad = 0
    for i in range(reps):
        state = copy.deepcopy(rng.g.bit_generator.state)
        try:
            fn(*args, 1, i)
        except Exception as e:      # noqa: BLE001
            bad += 1
            if bad <= 5:
                tb = traceback.format_exc()
                ctx.violation("probe: %s, case %d raised" % (name, i), "unexpected %s: %s" % (type(e).__name__, e),
                              dict(probe=name, case=i, prng_state=json.loads(json.dumps(state, default=str)), traceback=tb.splitlines()[-12:]),
                              key="exception:%s:%s" % (name, type(e).__name__))


def guarded_plan(ctx, gs, drv, plan, runner):
    import traceback
    try:
        return runner(ctx, gs, drv, plan)
    except Exception as e:      # noqa: BLE001
        tb = traceback.format_exc()
        ctx.violation("correspondence: %s raised" % plan["kind"], "unexpected %s: %s" % (type(e).__name__, e),
                      dict(plan=plan, traceback=tb.splitlines()[-12:]), key="exception:%s:%s" % (plan["kind"], type(e).__name__))
        return 0


def run(ctx, only_plan=None):
    import gstools as gs
    rng = C.Rng(ctx.seed, "C11")
    merge_local_known_findings(ctx)
    thorough = ctx.tier == "thorough"
    ctx.rule = ("cases = (a) operation histories on a real SRF/generator object (RandMeth, IncomprRandMeth, Fourier; dim 1-3; seeds small/large/"
                "same object/distinct objects/numpy ints/None/NaN; in-place var, len_scale, nugget, anis, angles, optional-argument changes and "
                "restorations; neighbouring large seeds s+1, s-1, s+7, s*(1+3e-6) and int / new object / np.int64 / np.int32 holders; model replacement incl. dimension change; mode_no/period/seed setters, reset_seed, update) compared step by step "
                "with the extracted state machine, (b) locality probes (permutation, subset, single point, batching, store name, structured, "
                "meshio incl. every kind of `direction` on 2-D/3-D meshes, points and centroids, returned and stored data), (c) successive calls on nearly-equal positions (UTM-like offsets, staggered grids, 1e-9 magnitudes) vs fresh, history-vs-fresh (incl. optional-argument-only changes), seed-change-vs-fresh (SRF call / seed setter / update routes) and equal-history probes, (d) general SRF histories (stored positions, set_pos, mesh-type switches, every model attribute incl. len_scale lists / rescale / time axis / lat-lon geo_scale, generator attributes incl. sampling) compared after every call with a lock-step shadow object built fresh from the present parameters, with and without nugget, incl. position containers / memory layouts, caller-side in-place edits of arrays handed over earlier, interference by other objects and numpy's global random state, deepcopy / pickle copies, (e) fresh-vs-fresh across interference for class x dim x generator x sampling cells, (f) numeric ties.  Non-trivial = a history with >= 1 generator-level "
                "operation or a probe with >= 2 points; distinct = distinct (stage, generator, dim, shape/length) keys")
    ctx.trusted = [
        "Coq 8.16.1 kernel (coqc); no native_compute",
        "translators tools/pyx2py.py, tools/pyx2coq.py for summator.pyx (construct table = assumed semantics of the Cython subset)",
        "extraction (ExtrOcamlBasic only), OCaml 4.13, ocaml/proto.ml float instance, ocaml/drv_c11.ml (history encoding)",
        "oracles (Section variables of the theorems, universally quantified): modes_of / zs_of (numpy RandomState, spectral sampling incl. emcee), "
        "sf_of (CovModel.spectrum), grid_of / glens (numpy arange: hypothesis 'arange(-n/2 dk, n/2 dk, dk) has n entries', checked per case), "
        "mode_draws (number of sub-streams reset_seed takes, checked per case against the master RNG state)",
        "harness reading of SRF.__call__ as generator.update(self.model, seed) followed by generator(pos): the translation of SRF-level plans to generator-level operations",
        "np.dot in CovModel.isometrize (BLAS): per-column result may differ by rounding between batch shapes for rotated models (bound in field_tolerance)",
    ]
    ctx.not_proved = [
        "IEEE rounding: the locality theorems are generic in the number type (they hold for doubles as they are); isometrize (matrix product) is C12's subject and is only probed here",
        "Fourier fresh-state theorem assumes an exact model comparison; with np.isclose a sub-tolerance model change together with an explicit mode_no leaves delta_k of the old anisotropy (known finding c)",
        "states after an operation raised are outside the theorems (histories are those in which no operation raises)",
        "seed=None draws OS entropy: determinism is claimed and proved for integer seeds only (modes_of of the effective seed)",
    ]
    drv = None
    tie_broken = []
    if only_plan is None:
        gen = C.regenerate(["Summator_gen.v"])
        for k, v in gen.items():
            ctx.tie[k] = "translated (pyx2coq)" if not v else "TRANSLATION FAILED: " + v
            if v:
                tie_broken.append(k + ": " + v)
        proofs_ok = (not tie_broken) and ctx.proofs("props/C11.v")
    else:
        proofs_ok = True
    for name in ("RandMeth/IncomprRandMeth update, reset_seed, seed/mode_no setters, __call__, get_nugget (state machine rm_step)",
                 "Fourier update, reset_seed, seed/period/mode_no setters (state machine fo_step)", "covmodel.tools.compare",
                 "generate_grid", "RandMeth/Fourier/IncomprRandMeth.__call__ formulas"):
        ctx.tie[name] = "hand model + correspondence"
    ok, out = C.build_driver("c11")
    if ok:
        drv = C.Driver("c11")
    else:
        tie_broken.append("extraction/driver build: " + out[-400:])
    try:
        if only_plan is not None:
            if drv is not None:
                (run_plan_fo if only_plan["kind"] == "fo_history" else run_plan_rm)(ctx, gs, drv, only_plan)
            return
        corpus_isclose(ctx, gs, drv)
        n_hist = 160 if thorough else 40
        n_ops = 14 if thorough else 10
        if drv is not None:
            guarded(ctx, "tie_calls", tie_calls, 80 if thorough else 25, rng, ctx, gs, drv, rng)
            guarded(ctx, "tie_compare", tie_compare, 400 if thorough else 150, rng, ctx, gs, drv, rng)
            for h in range(n_hist):
                for cls in ("RandMeth", "IncomprRandMeth"):
                    plan = gen_plan_rm(rng, cls, n_ops)
                    n = guarded_plan(ctx, gs, drv, plan, run_plan_rm)
                    ctx.count(("history", cls, plan["init"]["spec"]["dim"], n) if n else None, n=max(1, n),
                              hist=dict(stage="history", generator=cls, dim=plan["init"]["spec"]["dim"], sampling=plan["init"]["sampling"]))
                    if h < 2:
                        ctx.sample(dict(kind=plan["kind"], init=plan["init"], ops=plan["ops"][:6]))
                    for op in plan["ops"]:
                        ctx.dist.setdefault("op", {})
                        ctx.dist["op"][op[0]] = ctx.dist["op"].get(op[0], 0) + 1
                        if op[0] in ("call", "gen.seed", "gen.reset_seed"):
                            sk = op[1][0] if op[1][0] != "int" else "int:%s:%s" % ("small" if op[1][1] < 257 else ("large" if op[1][1] in SEED_POOL else "large-neighbour"), op[1][2])
                            ctx.dist.setdefault("seed", {})
                            ctx.dist["seed"][sk] = ctx.dist["seed"].get(sk, 0) + 1
                plan = gen_plan_fo(rng, n_ops)
                n = guarded_plan(ctx, gs, drv, plan, run_plan_fo)
                ctx.count(("history", "Fourier", plan["init"]["spec"]["dim"], n) if n else None, n=max(1, n),
                          hist=dict(stage="history", generator="Fourier", dim=plan["init"]["spec"]["dim"]))
                if h < 1:
                    ctx.sample(dict(kind=plan["kind"], init=plan["init"], ops=plan["ops"][:6]))
                for op in plan["ops"]:
                    ctx.dist.setdefault("op", {})
                    ctx.dist["op"]["F:" + op[0]] = ctx.dist["op"].get("F:" + op[0], 0) + 1
        guarded(ctx, "probe_locality", probe_locality, 240 if thorough else 60, rng, ctx, gs, rng)
        guarded(ctx, "probe_mesh", probe_mesh, 600 if thorough else 200, rng, ctx, gs, rng)
        guarded(ctx, "probe_seed_change", probe_seed_change, 480 if thorough else 150, rng, ctx, gs, rng)
        guarded(ctx, "probe_positions", probe_positions, 600 if thorough else 150, rng, ctx, gs, rng)
        guarded(ctx, "probe_srf_history", probe_srf_history, 1200 if thorough else 300, rng, ctx, gs, rng)
        guarded(ctx, "probe_interference", probe_interference, 400 if thorough else 120, rng, ctx, gs, rng)
        guarded(ctx, "probe_dim_change", probe_dim_change, 390 if thorough else 117, rng, ctx, gs, rng)
        guarded(ctx, "probe_history_vs_fresh", probe_history_vs_fresh, 450 if thorough else 120, rng, ctx, gs, rng)
        guarded(ctx, "probe_equal_histories", probe_equal_histories, 150 if thorough else 45, rng, ctx, gs, rng)
        ctx.notes.append("history correspondence: %s" % json.dumps(STATS))
    finally:
        if drv:
            drv.close()
    if (tie_broken or not proofs_ok) and not ctx.violations:
        ctx.violation("proof/tie", "proof obligations or the model/code tie of C11 no longer check: %s" % (
            tie_broken or getattr(ctx, "proof_failure", {}).get("output_tail", "")[-600:]),
            dict(tie_broken=tie_broken, proof=getattr(ctx, "proof_failure", None)), no_input=True)


def replay(ctx, path):
    rec = json.load(open(path))
    print(json.dumps({k: rec[k] for k in ("stage", "what")}, indent=1))
    plan = rec.get("case", {}).get("plan") if isinstance(rec.get("case"), dict) else None
    if plan:
        run(ctx, only_plan=plan)
    else:
        run(ctx)
    return ctx.finish()
