(* driver for the hand-written pair-enumeration specifications (C08) *)
let o = float_ops
let opt1 = function None -> VNone | Some (v, c) -> VT [VV v; rzv c]
let () = run_protocol [
  "unstructured_spec", (function [f; be; pos; et; dt] -> opt1 (unstructured_spec o (gm f) (gv be) (gm pos) (gz et) (gz dt)) | _ -> failwith "arity");
  "structured_spec", (function [f; et] -> VV (structured_spec o (gm f) (gz et)) | _ -> failwith "arity");
  "ma_structured_spec", (function [f; m; et] -> VV (ma_structured_spec o (gm f) (gzm m) (gz et)) | _ -> failwith "arity");
]
