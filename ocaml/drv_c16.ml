(* driver for C16: translated kernel, closed-form spec, field function, generator-call model *)
let o = float_ops
let () = run_protocol [
  "summate_incompr", (function [a; b; c; d] -> VM (summate_incompr o (gm a) (gv b) (gv c) (gm d)) | _ -> failwith "arity");
  "spec", (function [a; b; c; d] -> VM (summate_incompr_spec o (gm a) (gv b) (gv c) (gm d)) | _ -> failwith "arity");
  "vfield", (function [a; b; c; x; d] -> VF (vfield o (gm a) (gv b) (gv c) (gv x) (gn d)) | _ -> failwith "arity");
  "velocity", (function [mu; var; n; a; b; c; x; d] ->
      VF (velocity o (gf mu) (gf var) (gz n) (gm a) (gv b) (gv c) (gv x) (gn d)) | _ -> failwith "arity");
  "call", (function [mu; var; n; sm; nug] -> VM (incompr_call o (gf mu) (gf var) (gz n) (gm sm) (gm nug)) | _ -> failwith "arity");
  "generate", (function [mu; var; n; a; b; c; pos; nug] ->
      VM (incompr_generate o (gf mu) (gf var) (gz n) (gm a) (gv b) (gv c) (gm pos) (gm nug)) | _ -> failwith "arity");
]
