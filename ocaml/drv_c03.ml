(* driver for the C03 model (covariance-model function layer) *)
let o = float_ops
let fn_of = function 0 -> Cor | 1 -> Correlation | 2 -> Covariance | _ -> Variogram
let vopt = function None -> VNone | Some x -> VF x
let iz v = int_of_z (gz v)
let three f = VT [VF (f Correlation); VF (f Covariance); VF (f Variogram)]
(* common prefix of a class description: cls p1 p2 p3 dim var len nug resc *)
let cls_fn cls p1 p2 p3 dim var len nug resc =
  fun f x -> class_get o (gz cls) (gf p1) (gf p2) (gf p3) (gz dim) (gf var) (gf len) (gf nug) (gf resc) f x
let () = run_protocol [
  "cor", (function [cls; p1; p2; dim; h] -> VF (cor_of o (gz cls) (gf p1) (gf p2) (gz dim) (gf h)) | _ -> failwith "arity");
  "funcs", (function [cls; p1; p2; p3; dim; var; len; nug; resc; r] ->
      let g = cls_fn cls p1 p2 p3 dim var len nug resc in three (fun f -> g f (gf r)) | _ -> failwith "arity");
  "axis", (function [cls; p1; p2; p3; dim; var; len; nug; resc; anis; axis; r] ->
      let g = cls_fn cls p1 p2 p3 dim var len nug resc in
      three (fun f -> axis_variant o (g f) (gv anis) (gn axis) (gf r)) | _ -> failwith "arity");
  "yadrenko", (function [cls; p1; p2; p3; dim; var; len; nug; resc; geo; zeta] ->
      let g = cls_fn cls p1 p2 p3 dim var len nug resc in
      three (fun f -> yadrenko_variant o (g f) (gf geo) (gf zeta)) | _ -> failwith "arity");
  "spatial", (function [cls; p1; p2; p3; dim; var; len; nug; resc; m; pos] ->
      let g = cls_fn cls p1 p2 p3 dim var len nug resc in
      three (fun f -> spatial_variant o (g f) (gm m) (gv pos)) | _ -> failwith "arity");
  "nugget", (function [cls; p1; p2; p3; dim; var; len; nug; resc; r] ->
      let g = cls_fn cls p1 p2 p3 dim var len nug resc in
      VT [VF (vario_nugget o (g Variogram) (gf r)); VF (cov_nugget o (g Covariance) (gf var) (gf nug) (gf r))] | _ -> failwith "arity");
  "derive_user", (function [shape; a; dc; dr; dk; dg; var; nug; lr; f; x] ->
      let d = { d_cor = gb dc; d_correlation = gb dr; d_covariance = gb dk; d_variogram = gb dg } in
      vopt (derive o d (user_of o (gz shape) (gf a) (gf var) (gf nug) (gf lr)) (gf var) (gf nug) (gf lr) (fn_of (iz f)) (gf x)) | _ -> failwith "arity");
  "intscale", (function [cls; p1; lr] -> vopt (intscale_of o (gz cls) (gf p1) (gf lr)) | _ -> failwith "arity");
  "set_intscale", (function [cls; p1; resc; target] -> vopt (set_intscale_of o (gz cls) (gf p1) (gf resc) (gf target)) | _ -> failwith "arity");
  "tpl_var_factor", (function [len; resc; low; hurst] -> VF (tpl_var_factor o (gf len) (gf resc) (gf low) (gf hurst)) | _ -> failwith "arity");
  "pcurve", (function [cls; p1; p2; p3; dim; var; len; nug; resc; per; x] ->
      let g = cls_fn cls p1 p2 p3 dim var len nug resc in
      VT [VF (percentile_curve o (g Correlation) (gf per) (gf x)); VB (percentile_ok o (gf per))] | _ -> failwith "arity");
  "default_arg", (function [hl; lo; hh; hi] ->
      VF (default_arg_from_bounds o (if gb hl then Some (gf lo) else None) (if gb hh then Some (gf hi) else None)) | _ -> failwith "arity");
  "isometrize2", (function [a; e] -> VM (isometrize2 o (gf a) (gf e)) | _ -> failwith "arity");
  "iso_rad", (function [m; pos] -> VF (iso_rad o (gm m) (gv pos)) | _ -> failwith "arity");
  "chord", (function [geo; zeta] -> VF (chord o (gf geo) (gf zeta)) | _ -> failwith "arity");
  "rescale_gaussian", (function [] -> VF (rescale_gaussian o) | _ -> failwith "arity");
]
