(* driver for the C20 effect model: predictions of the extracted effect programs *)
let gnl = function VZV x -> List.map nat_of_int x | _ -> failwith "nat vector expected"
let rnl l = VZV (List.map int_of_nat l)
let () = run_protocol [
  "predict", (function [fx; e; c] -> rzv (predict_id (gb fx) (gn e) (gnl c)) | _ -> failwith "arity");
  "dims", (function [e] -> rnl (dims_id (gn e)) | _ -> failwith "arity");
  "meta", (function [e; c] -> VT [VN (int_of_nat (nargs_id (gn e))); rnl (pre_attrs_id (gn e) (gnl c)); rnl (obs_attrs_id (gn e))] | _ -> failwith "arity");
]
