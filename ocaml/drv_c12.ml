(* driver for the C12 model (tools/geometric.py rotation / anisotropy matrices, CovModel coordinate maps) *)
let o = float_ops
let planes l = VZM (List.map (fun (i, j) -> [int_of_nat i; int_of_nat j]) l)
let () = run_protocol [
  "no_of_angles", (function [d] -> VN (int_of_nat (no_of_angles (gn d))) | _ -> failwith "arity");
  "rotation_planes", (function [d] -> planes (rotation_planes (gn d)) | _ -> failwith "arity");
  "set_angles", (function [d; a] -> VV (set_angles o (gn d) (gv a)) | _ -> failwith "arity");
  "set_anis", (function [d; a] -> VV (set_anis o (gn d) (gv a)) | _ -> failwith "arity");
  "givens_rotation", (function [d; p; q; a] -> VM (givens_rotation o (gn d) (gn p, gn q) (gf a)) | _ -> failwith "arity");
  "matmul", (function [a; b] -> VM (matmul o (gm a) (gm b)) | _ -> failwith "arity");
  "transpose", (function [a] -> VM (transpose o (gm a)) | _ -> failwith "arity");
  "matrix_rotate", (function [d; a] -> VM (matrix_rotate o (gn d) (gv a)) | _ -> failwith "arity");
  "matrix_derotate", (function [d; a] -> VM (matrix_derotate o (gn d) (gv a)) | _ -> failwith "arity");
  "matrix_isotropify", (function [d; a] -> VM (matrix_isotropify o (gn d) (gv a)) | _ -> failwith "arity");
  "matrix_anisotropify", (function [d; a] -> VM (matrix_anisotropify o (gn d) (gv a)) | _ -> failwith "arity");
  "matrix_isometrize", (function [d; a; s] -> VM (matrix_isometrize o (gn d) (gv a) (gv s)) | _ -> failwith "arity");
  "matrix_anisometrize", (function [d; a; s] -> VM (matrix_anisometrize o (gn d) (gv a) (gv s)) | _ -> failwith "arity");
  "rotated_main_axes", (function [d; a] -> VM (rotated_main_axes o (gn d) (gv a)) | _ -> failwith "arity");
  "isometrize", (function [d; a; s; p] -> VM (isometrize o (gn d) (gv a) (gv s) (gm p)) | _ -> failwith "arity");
  "anisometrize", (function [d; a; s; p] -> VM (anisometrize o (gn d) (gv a) (gv s) (gm p)) | _ -> failwith "arity");
  "get_iso_rad", (function [d; a; s; p] -> VV (get_iso_rad o (gn d) (gv a) (gv s) (gm p)) | _ -> failwith "arity");
  "len_scale_vec", (function [d; l; s] -> VV (len_scale_vec o (gn d) (gf l) (gv s)) | _ -> failwith "arity");
  "axis_arg", (function [s; r; ax] -> VF (axis_arg o (gv s) (gf r) (gn ax)) | _ -> failwith "arity");
  "set_model_angles", (function [d; a; ll; tt] -> VV (set_model_angles o (gn d) (gv a) (gb ll) (gb tt)) | _ -> failwith "arity");
  (* geometry state machine: state = dim len anis angles temporal ; op code 0 len / 1 anis / 2 angles / 3 dim *)
  "geo_step", (function [d; l; an; ag; tt; code; v; nd] ->
      let s = { g_dim = gn d; g_len = gf l; g_anis = gv an; g_angles = gv ag; g_temporal = gb tt } in
      let op = (match int_of_nat (gn code) with 0 -> OpLen (gv v) | 1 -> OpAnis (gv v) | 2 -> OpAngles (gv v) | _ -> OpDim (gn nd)) in
      let s' = geo_step o s op in
      VT [VN (int_of_nat s'.g_dim); VF s'.g_len; VV s'.g_anis; VV s'.g_angles] | _ -> failwith "arity");
  "geo_init", (function [d; l; an; ag; tt] ->
      (match geo_init o (gn d) (gv l) (gv an) (gv ag) (gb tt) with
       | None -> VNone
       | Some s' -> VT [VN (int_of_nat s'.g_dim); VF s'.g_len; VV s'.g_anis; VV s'.g_angles]) | _ -> failwith "arity");
  "geo_isometrize", (function [d; l; an; ag; tt; p] ->
      VM (geo_isometrize o { g_dim = gn d; g_len = gf l; g_anis = gv an; g_angles = gv ag; g_temporal = gb tt } (gm p)) | _ -> failwith "arity");
  "geo_anisometrize", (function [d; l; an; ag; tt; p] ->
      VM (geo_anisometrize o { g_dim = gn d; g_len = gf l; g_anis = gv an; g_angles = gv ag; g_temporal = gb tt } (gm p)) | _ -> failwith "arity");
  "geo_iso_rad", (function [d; l; an; ag; tt; p] ->
      VV (geo_iso_rad o { g_dim = gn d; g_len = gf l; g_anis = gv an; g_angles = gv ag; g_temporal = gb tt } (gm p)) | _ -> failwith "arity");
  "set_len_anis", (function [d; l; s; ll] ->
      (match set_len_anis o (gn d) (gv l) (gv s) (gb ll) with
       | None -> VNone | Some (l0, an) -> VT [VF l0; VV an]) | _ -> failwith "arity");
]
