(* driver for the C02 model: bounds / check_dim / bound checks, elementary correlations, analytic spectra *)
let o = float_ops
let cl v = cls_of_nat (gn v)
let fz z = float_of_int (int_of_z z)
let fb b = if b then 1.0 else 0.0
let bound_row (n, b) =
  [fz (oname_code n); b.b_lo; (match b.b_hi with None -> Float.infinity | Some h -> h); fb b.b_lo_closed; fb b.b_hi_closed]
let name_of_code z = match int_of_z z with 0 -> Nu | 1 -> Alpha | 2 -> Hurst | _ -> LenLow
let () = run_protocol [
  "check_dim", (function [c; d] -> VB (check_dim (cl c) (gz d)) | _ -> failwith "arity");
  "opt_bounds", (function [c; d] -> VM (List.map bound_row (opt_bounds o (cl c) (gz d))) | _ -> failwith "arity");
  "opt_default", (function [c; d] -> VM (List.map (fun (n, v) -> [fz (oname_code n); v]) (opt_default o (cl c) (gz d))) | _ -> failwith "arity");
  "arg_error", (function [c; d; n; v] ->
      (match lookup (name_of_code (gz n)) (opt_bounds o (cl c) (gz d)) with
       | None -> VZ (-1)
       | Some b -> VZ (int_of_z (arg_error o b (gf v))))
    | _ -> failwith "arity");
  "cor_gaussian", (function [h] -> VF (cor_gaussian o (gf h)) | _ -> failwith "arity");
  "cor_exponential", (function [h] -> VF (cor_exponential o (gf h)) | _ -> failwith "arity");
  "cor_stable", (function [a; h] -> VF (cor_stable o (gf a) (gf h)) | _ -> failwith "arity");
  "cor_rational", (function [a; h] -> VF (cor_rational o (gf a) (gf h)) | _ -> failwith "arity");
  "cor_cubic", (function [h] -> VF (cor_cubic o (gf h)) | _ -> failwith "arity");
  "cor_linear", (function [h] -> VF (cor_linear o (gf h)) | _ -> failwith "arity");
  "cor_spherical", (function [h] -> VF (cor_spherical o (gf h)) | _ -> failwith "arity");
  "cor_circular", (function [h] -> VF (cor_circular o (gf h)) | _ -> failwith "arity");
  "cor_tplsimple", (function [nu; h] -> VF (cor_tplsimple o (gf nu) (gf h)) | _ -> failwith "arity");
  "base_error", (function [n; v] -> VZ (int_of_z (arg_error o (base_bound o (bname_of_Z (gz n))) (gf v))) | _ -> failwith "arity");
  "elem", (function [c; p; l; v; n; r] ->
      let f = function None -> Float.nan | Some x -> x in
      VV [f (correlation_elem o (cl c) (gf p) (gf l) (gf r)); f (covariance_elem o (cl c) (gf p) (gf l) (gf v) (gf r));
          f (variogram_elem o (cl c) (gf p) (gf l) (gf v) (gf n) (gf r))]
    | _ -> failwith "arity");
  "sd_gaussian", (function [d; l; k] -> VF (sd_gaussian o (gz d) (gf l) (gf k)) | _ -> failwith "arity");
  "sd_exponential", (function [d; l; k] -> VF (sd_exponential o (gz d) (gf l) (gf k)) | _ -> failwith "arity");
  "sd_matern", (function [d; l; nu; k] -> VF (sd_matern o (gz d) (gf l) (gf nu) (gf k)) | _ -> failwith "arity");
  "sd_integral", (function [d; l; nu; k] -> VF (sd_integral o (gz d) (gf l) (gf nu) (gf k)) | _ -> failwith "arity");
  "sd_hyperspherical", (function [d; l; k] -> VF (sd_hyperspherical o (gz d) (gf l) (gf k)) | _ -> failwith "arity");
  "sd_jbessel", (function [d; l; nu; k] -> VF (sd_jbessel o (gz d) (gf l) (gf nu) (gf k)) | _ -> failwith "arity");
  "sd_tplexp", (function [d; l; h; ll; k] -> VF (sd_tplexp o (gz d) (gf l) (gf h) (gf ll) (gf k)) | _ -> failwith "arity");
  "sd_tplgau", (function [d; l; h; ll; k] -> VF (sd_tplgau o (gz d) (gf l) (gf h) (gf ll) (gf k)) | _ -> failwith "arity");
]
