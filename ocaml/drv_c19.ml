(* driver for the C19 model (field transformations): float instance, oracle = scipy erf / erfinv *)
let o = float_ops
let opt = function VV [] -> None | VV [x] -> Some x | _ -> failwith "option expected (vector of length 0/1)"
let rl = function Ok l -> VV l | Err c -> VT [VN (int_of_nat c)]
let mode_of m thr = match int_of_nat (gn m) with 0 -> ThrArith | 1 -> ThrEqual | _ -> ThrGiven (gv thr)
(* method encoding: code, mode, p1, p2, p3 *)
let method_of code mode p1 p2 p3 =
  match int_of_nat (gn code) with
  | 0 -> MBinary (opt p1, opt p2, opt p3)
  | 1 -> MDiscrete (gv p1, mode_of mode p2)
  | 2 -> (match gv p1 with [l; s] -> MBoxcox (l, s) | _ -> failwith "boxcox params")
  | 3 -> MZinnHarvey (int_of_nat (gn mode) = 1)
  | 4 -> MForceMoments
  | 5 -> MLognormal
  | 6 -> (match gv p1 with [l; h] -> MUniform (l, h) | _ -> failwith "uniform params")
  | 7 -> MArcsin (opt p1, opt p2)
  | 8 -> MUquad (opt p1, opt p2)
  | _ -> failwith "unknown method"
(* field configuration: mean, sill, normalizer code (0 default, 1 LogNormal, 2 BoxCox lmbda), lmbda, trend (option as 0/1 rows) *)
let cfg_of mean sill ncode lmbda has_trend trend =
  let l = gf lmbda in
  (* Normalizer.normalize / denormalize = the formula inside the open range (lo, hi), NaN outside
     (Normalizer._check_input; only applied when one bound is finite) *)
  let inside lo hi f x = if x > lo && x < hi then f x else Float.nan in
  let close0 = Float.abs l <= 1e-8 in
  let (dflt, nf, ni) = match int_of_nat (gn ncode) with
    | 0 -> (true, (fun x -> x), (fun x -> x))
    | 1 -> (false, inside 0.0 Float.infinity Float.log, Float.exp)
    | _ -> (false, inside 0.0 Float.infinity (boxcox_normalize o l),
            (if close0 then boxcox_denormalize o l
             else if l < 0.0 then inside Float.neg_infinity (-. (1.0 /. l)) (boxcox_denormalize o l)
             else inside (-. (1.0 /. l)) Float.infinity (boxcox_denormalize o l))) in
  { c_mean = gf mean; c_sill = gf sill; c_norm_default = dflt; c_nf = nf; c_ni = ni;
    c_trend = (if gb has_trend then Some (gv trend) else None) }
let store_of s = match int_of_z (gz s) with -1 -> StFalse | -2 -> StTrue | n -> StName (z_of_int n)
let fields_of names mat = List.map2 (fun n row -> (n, row)) (gzv names) (gm mat)
let () = run_protocol [
  "lmean", (function [f] -> VF (lmean o (gv f)) | _ -> failwith "arity");
  "lvar", (function [f] -> VF (lvar o (gv f)) | _ -> failwith "arity");
  "to_uniform", (function [f; m; v; lo; hi] -> VV (array_to_uniform o (gv f) (opt m) (opt v) (gf lo) (gf hi)) | _ -> failwith "arity");
  "to_lognormal", (function [f] -> VV (array_to_lognormal o (gv f)) | _ -> failwith "arity");
  "to_arcsin", (function [f; m; v; a; b] -> VV (array_to_arcsin o (gv f) (opt m) (opt v) (opt a) (opt b)) | _ -> failwith "arity");
  "to_uquad", (function [f; m; v; a; b] -> VV (array_to_uquad o (gv f) (opt m) (opt v) (opt a) (opt b)) | _ -> failwith "arity");
  "uniform_to_arcsin", (function [f; a; b] -> VV (List.map (uniform_to_arcsin_elem o (gf a) (gf b)) (gv f)) | _ -> failwith "arity");
  "uniform_to_uquad", (function [f; a; b] -> VV (List.map (uniform_to_uquad_elem o (gf a) (gf b)) (gv f)) | _ -> failwith "arity");
  "zinnharvey", (function [f; high; m; v] -> VV (array_zinnharvey o (gv f) (gb high) (opt m) (opt v)) | _ -> failwith "arity");
  "force_moments", (function [f; m; v] -> VV (array_force_moments o (gv f) (gf m) (gf v)) | _ -> failwith "arity");
  "boxcox", (function [f; l; s] -> VV (array_boxcox o (gv f) (gf l) (gf s)) | _ -> failwith "arity");
  "boxcox_normalize", (function [f; l] -> VV (List.map (boxcox_normalize o (gf l)) (gv f)) | _ -> failwith "arity");
  "boxcox_denormalize", (function [f; l] -> VV (List.map (boxcox_denormalize o (gf l)) (gv f)) | _ -> failwith "arity");
  "sort_vals", (function [f] -> VV (sort_vals o (gv f)) | _ -> failwith "arity");
  "discrete_setup", (function [f; vals; mode; thr; m; v] ->
      (match discrete_setup o (gv f) (gv vals) (mode_of mode thr) (opt m) (opt v) with
       | Ok (a, b) -> VT [VV a; VV b] | Err c -> VT [VN (int_of_nat c)]) | _ -> failwith "arity");
  "discrete", (function [g; f; vals; mode; thr; m; v] ->
      rl (array_discrete o (gf g) (gv f) (gv vals) (mode_of mode thr) (opt m) (opt v)) | _ -> failwith "arity");
  "wrapper", (function [g; mean; sill; ncode; lmbda; has_trend; trend; code; mode; p1; p2; p3; proc; km; data] ->
      rl (wrapper o (gf g) (cfg_of mean sill ncode lmbda has_trend trend) (method_of code mode p1 p2 p3) (gb proc) (gb km) (gv data))
      | _ -> failwith "arity");
  "transform_step", (function [g; mean; sill; ncode; lmbda; has_trend; trend; names; mat; code; mode; p1; p2; p3; field; store; proc; km] ->
      (match transform_step o (gf g) (cfg_of mean sill ncode lmbda has_trend trend) (fields_of names mat)
               (method_of code mode p1 p2 p3) (gz field) (store_of store) (gb proc) (gb km) with
       | Ok (fs, out) -> VT [rzv (List.map fst fs); VM (List.map snd fs); VV out]
       | Err c -> VT [VN (int_of_nat c)])
      | _ -> failwith "arity");
]
