(* driver for the C07 models: cache state machine trace (integers only) and the conditioning formula at floats *)
let o = float_ops
let () = run_protocol [
  "trace", (function [f1; f2; f3; f4; f5; f6; f7; f8; sd; rows] -> rzm (trace (gb f1) (gb f2) (gb f3) (gb f4) (gb f5) (gb f6) (gb f7) (gb f8) (gn sd) (gzm rows)) | _ -> failwith "arity");
  "cond_field", (function [nug; var; ks; kvs; rs; zs] ->
      VV (cond_field o (gf nug) (gf var) (gv ks) (gv kvs) (gv rs) (gv zs)) | _ -> failwith "arity");
  "scaling", (function [nug; var; kv] -> let (a, b) = scaling o (gf nug) (gf var) (gf kv) in VT [VF a; VF b] | _ -> failwith "arity");
]
