(* driver for the translated kernels (C15, C08, C11, C16, C17, C05 use it) *)
let o = float_ops
let id l = l
let rev l = List.rev l
(* a deterministic non-trivial schedule: odd positions first, then even ones reversed *)
let shuffle l =
  let rec go i l (a, b) = match l with [] -> (a, b) | x :: t -> if i land 1 = 1 then go (i+1) t (x :: a, b) else go (i+1) t (a, x :: b) in
  let (a, b) = go 0 l ([], []) in List.rev a @ b
let sched_of = function 0 -> id | 1 -> rev | _ -> shuffle
let opt2 = function None -> VNone | Some (v, c) -> VT [VM v; rzm c]
let opt1 = function None -> VNone | Some (v, c) -> VT [VV v; rzv c]
let () = run_protocol [
  "summate", (function [s; a; b; c; d] -> VV (summate_sched o (sched_of (int_of_nat (gn s))) (gm a) (gv b) (gv c) (gm d)) | _ -> failwith "arity");
  "summate_incompr", (function [a; b; c; d] -> VM (summate_incompr o (gm a) (gv b) (gv c) (gm d)) | _ -> failwith "arity");
  "summate_fourier", (function [s; sf; a; b; c; d] -> VV (summate_fourier_sched o (sched_of (int_of_nat (gn s))) (gv sf) (gm a) (gv b) (gv c) (gm d)) | _ -> failwith "arity");
  "calc_field_krige_and_variance", (function [s; a; b; c] ->
      let (f, e) = calc_field_krige_and_variance_sched o (sched_of (int_of_nat (gn s))) (gm a) (gm b) (gv c) in VT [VV f; VV e] | _ -> failwith "arity");
  "calc_field_krige", (function [s; a; b; c] -> VV (calc_field_krige_sched o (sched_of (int_of_nat (gn s))) (gm a) (gm b) (gv c)) | _ -> failwith "arity");
  "directional", (function [s; f; be; pos; dir; at; bw; sep; et] ->
      opt2 (directional_sched o (sched_of (int_of_nat (gn s))) (gm f) (gv be) (gm pos) (gm dir) (gf at) (gf bw) (gb sep) (gz et)) | _ -> failwith "arity");
  "unstructured", (function [s; f; be; pos; et; dt] ->
      opt1 (unstructured_sched o (sched_of (int_of_nat (gn s))) (gm f) (gv be) (gm pos) (gz et) (gz dt)) | _ -> failwith "arity");
  "structured", (function [s; f; et] -> let sc = sched_of (int_of_nat (gn s)) in
      VV (structured_sched o (fun _ _ -> sc) (gm f) (gz et)) | _ -> failwith "arity");
  "ma_structured", (function [s; f; m; et] -> let sc = sched_of (int_of_nat (gn s)) in
      VV (ma_structured_sched o (fun _ _ -> sc) (gm f) (gzm m) (gz et)) | _ -> failwith "arity");
  (* hand-written specifications (defining sums / pair enumerations), proved equal to the kernels above *)
  "spec:summate", (function [a; b; c; d] -> VV (summate_spec o (gm a) (gv b) (gv c) (gm d)) | _ -> failwith "arity");
  "spec:summate_fourier", (function [sf; a; b; c; d] -> VV (summate_fourier_spec o (gv sf) (gm a) (gv b) (gv c) (gm d)) | _ -> failwith "arity");
  "spec:calc_field_krige", (function [a; b; c] -> VV (krige_field_spec o (gm a) (gm b) (gv c)) | _ -> failwith "arity");
  "spec:calc_field_krige_and_variance", (function [a; b; c] -> VT [VV (krige_field_spec o (gm a) (gm b) (gv c)); VV (krige_error_spec o (gm a) (gm b))] | _ -> failwith "arity");
  "spec:unstructured", (function [f; be; pos; et; dt] -> opt1 (unstructured_spec o (gm f) (gv be) (gm pos) (gz et) (gz dt)) | _ -> failwith "arity");
  "spec:directional", (function [f; be; pos; dir; at; bw; sep; et] ->
      opt2 (directional_spec o (gm f) (gv be) (gm pos) (gm dir) (gf at) (gf bw) (gb sep) (gz et)) | _ -> failwith "arity");
  "spec:structured", (function [f; et] -> VV (structured_spec o (gm f) (gz et)) | _ -> failwith "arity");
  "spec:ma_structured", (function [f; m; et] -> VV (ma_structured_spec o (gm f) (gzm m) (gz et)) | _ -> failwith "arity");
  "dist_haversine", (function [pos; i; j] -> VF (dist_haversine o (nat_of_int 2) (gm pos) (gn i) (gn j)) | _ -> failwith "arity");
]
