(* driver for the C01 model (field/generator.py __call__ formulas, random/rng.py sampling maps, SRF pipeline) *)
let o = float_ops
let () = run_protocol [
  "randmeth_amp", (function [v; n] -> VF (randmeth_amp o (gf v) (gz n)) | _ -> failwith "arity");
  "get_nugget", (function [g; w; n] -> VV (get_nugget o (gf g) (gv w) (gn n)) | _ -> failwith "arity");
  "randmeth_call", (function [v; n; g; ks; z1; z2; pos; w] ->
      VV (randmeth_call o (gf v) (gz n) (gf g) (gm ks) (gv z1) (gv z2) (gm pos) (gv w)) | _ -> failwith "arity");
  "fourier_spectrum_factor", (function [s; dk] -> VV (fourier_spectrum_factor o (gv s) (gv dk)) | _ -> failwith "arity");
  "fourier_k_norm", (function [m] -> VV (fourier_k_norm o (gm m)) | _ -> failwith "arity");
  "fourier_call", (function [g; sf; m; z1; z2; pos; w] ->
      VV (fourier_call o (gf g) (gv sf) (gm m) (gv z1) (gv z2) (gm pos) (gv w)) | _ -> failwith "arity");
  "incompr_call", (function [v; n; g; mu; ks; z1; z2; pos; w] ->
      VM (incompr_call o (gf v) (gz n) (gf g) (gf mu) (gm ks) (gv z1) (gv z2) (gm pos) (gm w)) | _ -> failwith "arity");
  "srf_randmeth", (function [d; an; ai; mean; v; n; g; ks; z1; z2; pos; w] ->
      VV (srf_randmeth o (gn d) (gv an) (gv ai) (gf mean) (gf v) (gz n) (gf g) (gm ks) (gv z1) (gv z2) (gm pos) (gv w)) | _ -> failwith "arity");
  "srf_fourier", (function [d; an; ai; mean; g; sf; m; z1; z2; pos; w] ->
      VV (srf_fourier o (gn d) (gv an) (gv ai) (gf mean) (gf g) (gv sf) (gm m) (gv z1) (gv z2) (gm pos) (gv w)) | _ -> failwith "arity");
  "isometrize", (function [d; an; ai; pos] -> VM (isometrize o (gn d) (gv an) (gv ai) (gm pos)) | _ -> failwith "arity");
  "sphere2", (function [a] -> VM (sphere2 o (gv a)) | _ -> failwith "arity");
  "sphere3", (function [a; b] -> VM (sphere3 o (gv a) (gv b)) | _ -> failwith "arity");
  "cov_sample", (function [r; s] -> VM (cov_sample o (gv r) (gm s)) | _ -> failwith "arity");
  "gau1_ppf", (function [l; u] -> VF (gau1_ppf o (gf l) (gf u)) | _ -> failwith "arity");
  "gau2_cdf", (function [l; r] -> VF (gau2_cdf o (gf l) (gf r)) | _ -> failwith "arity");
  "gau2_ppf", (function [l; u] -> VF (gau2_ppf o (gf l) (gf u)) | _ -> failwith "arity");
  "exp1_cdf", (function [l; r] -> VF (exp1_cdf o (gf l) (gf r)) | _ -> failwith "arity");
  "exp1_ppf", (function [l; u] -> VF (exp1_ppf o (gf l) (gf u)) | _ -> failwith "arity");
  "exp2_cdf", (function [l; r] -> VF (exp2_cdf o (gf l) (gf r)) | _ -> failwith "arity");
  "var_no_scaling", (function [v; g] -> VF (var_no_scaling o (gf v) (gf g)) | _ -> failwith "arity");
  "var_coarse_graining", (function [d; l; v; g; vol] -> VF (var_coarse_graining o (gz d) (gf l) (gf v) (gf g) (gf vol)) | _ -> failwith "arity");
  "upscale_factor", (function [sv; v; g] -> VF (upscale_factor o (gf sv) (gf v) (gf g)) | _ -> failwith "arity");
  "upscale_field", (function [f; sv; v; g] -> VV (upscale_field o (gv f) (gv sv) (gf v) (gf g)) | _ -> failwith "arity");
  "exp2_ppf", (function [l; u] -> VF (exp2_ppf o (gf l) (gf u)) | _ -> failwith "arity");
]
