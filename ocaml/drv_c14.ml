(* driver for the C14 parameter state machine (extracted c14/C14_Model.v at OCaml floats).
   Codec (trusted, mirrored in harness/c14.py):
     state  = n:dim b:latlon b:temporal v:[var_raw;len_scale;nugget;rescale] v:anis v:angles v:opts
              m:bounds   (rows var,len_scale,nugget,anis,opt0..; columns lo hi lower_closed upper_closed;
                          an infinite end is nan <-> None)
     result = n:0 <state>   |   n:1 n:kind n:arg n:case      (kind: 0 EBounds 1 EAnis 2 EDim 3 EBadBounds
                          4 EIndex 5 EIntScale 6 EUnknownArg 7 EUnsupported) *)
let o = float_ops
let cls_of_int = function
  | 0 -> Gaussian | 1 -> Exponential | 2 -> Matern | 3 -> Integral | 4 -> Stable | 5 -> Rational
  | 6 -> Cubic | 7 -> Linear | 8 -> Circular | 9 -> Spherical | 10 -> HyperSpherical
  | 11 -> SuperSpherical | 12 -> JBessel | 13 -> TPLGaussian | 14 -> TPLExponential
  | 15 -> TPLStable | 16 -> TPLSimple | _ -> failwith "class"
let gcls v = cls_of_int (int_of_nat (gn v))
let opt_of_float x = if Float.is_nan x then None else Some x
let float_of_opt inf = function None -> inf | Some x -> x
let bnd_of_row = function
  | [lo; hi; lc; hc] -> { blo = opt_of_float lo; bhi = opt_of_float hi; blc = (lc <> 0.0); bhc = (hc <> 0.0) }
  | _ -> failwith "bounds row"
let row_of_bnd b = [float_of_opt Float.neg_infinity b.blo; float_of_opt Float.infinity b.bhi;
                    (if b.blc then 1.0 else 0.0); (if b.bhc then 1.0 else 0.0)]
let state_of = function
  | [d; ll; tt; v4; an; ang; op; bm] ->
    (match gv v4, List.map bnd_of_row (gm bm) with
     | [vr; ls; ng; rs], bv :: bl :: bn :: ba :: bo ->
       { dim = gn d; latlon = gb ll; temporal = gb tt; var_raw = vr; len_scale = ls; anis = gv an;
         angles = gv ang; nugget = ng; rescale = rs; opts = gv op;
         b_var = bv; b_len = bl; b_nug = bn; b_anis = ba; b_opts = bo }
     | _ -> failwith "state")
  | _ -> failwith "state arity"
let show_state s =
  [VN (int_of_nat s.dim); VB s.latlon; VB s.temporal; VV [s.var_raw; s.len_scale; s.nugget; s.rescale];
   VV s.anis; VV s.angles; VV s.opts;
   VM (List.map row_of_bnd (s.b_var :: s.b_len :: s.b_nug :: s.b_anis :: s.b_opts))]
let show_err = function
  | EBounds (a, c) -> [VN 0; VN (int_of_nat a); VN (int_of_nat c)]
  | EAnis -> [VN 1; VN 0; VN 0] | EDim -> [VN 2; VN 0; VN 0] | EBadBounds -> [VN 3; VN 0; VN 0]
  | EIndex -> [VN 4; VN 0; VN 0] | EIntScale -> [VN 5; VN 0; VN 0] | EUnknownArg -> [VN 6; VN 0; VN 0]
  | EUnsupported -> [VN 7; VN 0; VN 0]
let show_res = function
  | Ok s -> VT (VN 0 :: show_state s)
  | Error e -> VT (VN 1 :: show_err e)
let barg_of_int k = match k with 0 -> BVar | 1 -> BLen | 2 -> BNug | 3 -> BAnis | _ -> BOpt (nat_of_int (k - 4))
let ints v = List.map int_of_z (gzv v)
let op_of code ip fp bm =
  let f0 () = match fp with x :: _ -> x | [] -> failwith "float param" in
  let i0 () = match ip with x :: _ -> x | [] -> failwith "int param" in
  match code with
  | 0 -> SetVar (f0 ()) | 1 -> SetVarRaw (f0 ()) | 2 -> SetNugget (f0 ())
  | 3 -> SetLenScale fp | 4 -> SetAnis fp | 5 -> SetAngles fp
  | 6 -> SetRescale (if i0 () = 1 then Some (f0 ()) else None)
  | 7 -> SetDim (nat_of_int (i0 ()))
  | 8 -> SetOpt (nat_of_int (i0 ()), f0 ())
  | 9 -> SetIntScale fp
  | 10 -> (match ip with
           | chk :: args -> SetArgBounds (chk = 1, List.map2 (fun a r -> (barg_of_int a, bnd_of_row r)) args bm)
           | [] -> failwith "set_arg_bounds")
  | 11 -> (match bm with r :: _ -> SetBoundsProp (barg_of_int (i0 ()), bnd_of_row r) | [] -> failwith "bounds")
  | _ -> failwith "opcode"
let take8 l = match l with
  | a :: b :: c :: d :: e :: f :: g :: h :: rest -> ([a; b; c; d; e; f; g; h], rest)
  | _ -> failwith "state expected"
let do_step stepf = function
  | c :: rest ->
    let (st, rest) = take8 rest in
    (match rest with
     | [code; ip; fp; bm] -> show_res (stepf o (gcls c) (state_of st) (op_of (int_of_nat (gn code)) (ints ip) (gv fp) (gm bm)))
     | _ -> failwith "arity")
  | _ -> failwith "arity"
let () = run_protocol [
  "step", do_step step;
  "step_pinned", do_step step_pinned;
  "construct", (function c :: ia :: fa :: ln :: an :: ang :: op :: bm :: isc ->
     (match ints ia, gv fa with
      | [d; hs; sd; ll; tt; raw; hr; defb], [var; nug; rs] ->
        let bs = List.map bnd_of_row (gm bm) in
        let (bv, bl, bn, ba, bo) = (match bs with
          | bv :: bl :: bn :: ba :: bo -> (bv, bl, bn, ba, bo)
          | _ -> (b_pos o, b_pos o, b_nonneg o, b_pos o, [])) in
        let a = { a_dim = nat_of_int d; a_spatial_dim = (if hs = 1 then Some (nat_of_int sd) else None);
                  a_latlon = (ll = 1); a_temporal = (tt = 1); a_var = var; a_var_is_raw = (raw = 1);
                  a_len = gv ln; a_anis = gv an; a_angles = gv ang; a_nugget = nug;
                  a_rescale = (if hr = 1 then Some rs else None); a_opts = gv op;
                  a_bvar = bv; a_blen = bl; a_bnug = bn; a_banis = ba; a_bopts = bo } in
        (* optional 9th argument: integral_scale list (empty = None) *)
        let ils = (match isc with [v] -> gv v | _ -> []) in
        show_res (match ils, defb = 1 with
                  | [], true -> ctor o (gcls c) a
                  | [], false -> construct o (gcls c) a
                  | _, true -> ctor_int o (gcls c) a ils
                  | _, false -> construct_int o (gcls c) a ils)
      | _ -> failwith "construct args")
     | _ -> failwith "arity");
  "canon", (function c :: st -> let s = state_of st in show_res (construct o (gcls c) (args_of s)) | _ -> failwith "arity");
  "canon_ctor", (function c :: st -> let s = state_of st in show_res (ctor o (gcls c) (args_of s)) | _ -> failwith "arity");
  "observe", (function c :: st ->
     let s = state_of st and c = gcls c in
     VT [VV [var_of o c s; sill o c s; len_rescaled o s; var_factor o c s;
             (match int_scale o c s with Some x -> x | None -> Float.nan)];
         VV (len_scale_vec o s); VN (int_of_nat (field_dim s)); VN (int_of_nat (spatial_dim s));
         VB (match check_all o c s with None -> true | Some _ -> false)]
     | _ -> failwith "arity");
  "defaults", (function [c; d] ->
     let c = gcls c and d = gn d in
     VT [VV (default_opts o c d);
         VM (List.map row_of_bnd (b_pos o :: b_pos o :: b_nonneg o :: b_pos o :: default_opt_bounds o c d));
         VF (default_rescale o c)]
     | _ -> failwith "arity");
]
