(* driver for FitBook (C10): fit_run / fit_init of coq/c10/C10_Model.v at OCaml floats.
   var_factor is answered by the harness (oracle code 100) with the implementation's own var_factor. *)
let o = float_ops
let gi = function VZ x -> x | _ -> failwith "int expected"
let gil = function VZV x -> x | _ -> failwith "int vector expected"

(* bounds rows: blo bhi (inf = unbounded) bloc bhic, order var len nug anis opt... *)
let lo_of x = if x = Float.neg_infinity then None else Some x
let hi_of x = if x = Float.infinity then None else Some x
let mk_cfg blo bhi bloc bhic dim latlon rescale =
  let rec zip4 a b c d = match a, b, c, d with
    | x :: a, y :: b, p :: c, q :: d -> { b_lo = lo_of x; b_hi = hi_of y; b_loc = (p <> 0); b_hic = (q <> 0) } :: zip4 a b c d
    | _ -> [] in
  match zip4 blo bhi bloc bhic with
  | bv :: bl :: bn :: ba :: bopt ->
      { c_bvar = bv; c_blen = bl; c_bnug = bn; c_banis = ba; c_bopt = bopt; c_dim = dim; c_latlon = latlon; c_rescale = rescale }
  | _ -> failwith "bounds"
let mk_sel idx kind value =
  let rec go a b c = match a, b, c with
    | i :: a, k :: b, v :: c -> (nat_of_int i, (if k = 0 then SFit else if k = 1 then SDesel else SFixed v)) :: go a b c
    | _ -> [] in go idx kind value
let mk_sill k v = if k = 0 then SillNone else if k = 1 then SillCurrent else SillVal v
let mk_anis k l = if k = 0 then ATrue else if k = 1 then AFalse else AFixed l
let mk_state vr l n opt an = { m_varraw = vr; m_len = l; m_nug = n; m_opt = opt; m_anis = an }
let rec mk_given a c = match a, c with i :: a, v :: c -> (nat_of_int i, v) :: mk_given a c | _ -> []
let inf_lo = function None -> Float.neg_infinity | Some x -> x
let inf_hi = function None -> Float.infinity | Some x -> x

let show_state s = [VF s.m_varraw; VF s.m_len; VF s.m_nug; VV s.m_opt; VV s.m_anis]
let show_dict d = [VF d.d_var; VF d.d_len; VF d.d_nug; VV d.d_opt;
                   (match d.d_anis with None -> VB false | Some _ -> VB true);
                   (match d.d_anis with None -> VV [] | Some a -> VV a)]

let () = run_protocol [
  (* fit_run fx | blo bhi bloc bhic dim latlon rescale | nopt | sel idx kind val | sill kind val | anis kind vals | isdir |
     evs popt | varraw len nug opt anis *)
  "fit_run", (function
    | [fx; blo; bhi; bloc; bhic; dim; latlon; rescale; nopt; sidx; skind; sval; sillk; sillv; ak; av; isdir; evs; popt;
       vr; l; n; opt; an] ->
      let c = mk_cfg (gv blo) (gv bhi) (gil bloc) (gil bhic) (gn dim) (gb latlon) (gf rescale) in
      let evs = (match evs with VM m -> List.filter (fun r -> r <> []) m | _ -> failwith "matrix expected") in
      (match fit_run o (gb fx) c (gn nopt) (mk_sel (gil sidx) (gil skind) (gv sval)) (mk_sill (gi sillk) (gf sillv))
               (mk_anis (gi ak) (gv av)) (gb isdir) evs (gv popt) (mk_state (gf vr) (gf l) (gf n) (gv opt) (gv an)) with
       | Ok (s, d) -> VT (VZ 0 :: show_state s @ show_dict d)
       | Err e -> VT [VZ (int_of_nat e)])
    | _ -> failwith "arity");
  (* fit_trace: head | evs | state  ->  one row per evaluation: varraw len nug opt... anis... *)
  "fit_trace", (function
    | [fx; blo; bhi; bloc; bhic; dim; latlon; rescale; nopt; sidx; skind; sval; sillk; sillv; ak; av; isdir; evs;
       vr; l; n; opt; an] ->
      let c = mk_cfg (gv blo) (gv bhi) (gil bloc) (gil bhic) (gn dim) (gb latlon) (gf rescale) in
      let evs = (match evs with VM m -> List.filter (fun r -> r <> []) m | _ -> failwith "matrix expected") in
      (match fit_trace o (gb fx) c (gn nopt) (mk_sel (gil sidx) (gil skind) (gv sval)) (mk_sill (gi sillk) (gf sillv))
               (mk_anis (gi ak) (gv av)) (gb isdir) evs (mk_state (gf vr) (gf l) (gf n) (gv opt) (gv an)) with
       | Ok sts -> VT [VZ 0; VM (List.map (fun s -> s.m_varraw :: s.m_len :: s.m_nug :: (s.m_opt @ s.m_anis)) sts)]
       | Err e -> VT [VZ (int_of_nat e)])
    | _ -> failwith "arity");
  "r2_score", (function [ys; vs] -> VF (r2_score o (gv ys) (gv vs)) | _ -> failwith "arity");
  (* fit_init: same head, then dflt | given idx val | ganis flag vals | mean_x mean_y | state *)
  "fit_init", (function
    | [fx; blo; bhi; bloc; bhic; dim; latlon; rescale; nopt; sidx; skind; sval; sillk; sillv; ak; av; isdir;
       dflt; gidx; gval; gaf; gav; mx; my; vr; l; n; opt; an] ->
      let c = mk_cfg (gv blo) (gv bhi) (gil bloc) (gil bhic) (gn dim) (gb latlon) (gf rescale) in
      (match fit_init o (gb fx) c (gn nopt) (mk_sel (gil sidx) (gil skind) (gv sval)) (mk_sill (gi sillk) (gf sillv))
               (mk_anis (gi ak) (gv av)) (gb isdir) (gb dflt) (mk_given (gil gidx) (gv gval))
               (if gb gaf then Some (gv gav) else None) (gf mx) (gf my)
               (mk_state (gf vr) (gf l) (gf n) (gv opt) (gv an)) with
       | Ok l3 -> VT [VZ 0; VV (List.map (fun ((lo, _), _) -> inf_lo lo) l3);
                      VV (List.map (fun ((_, hi), _) -> inf_hi hi) l3); VV (List.map (fun (_, g) -> g) l3)]
       | Err e -> VT [VZ (int_of_nat e)])
    | _ -> failwith "arity");
]
