(* driver for the C17 model (gstools/field/generator.py class Fourier: mode grid, spectrum factor, update state
   machine; tools/geometric.py generate_grid) + the translated summate_fourier kernel + C12's isometrize *)
let o = float_ops
let vopt f = function None -> VNone | Some x -> f x

(* the generator state lives here between "f_update" calls; every transition is the extracted [step] *)
let state : float fstate ref = ref fs_empty

let show_state ok (st : float fstate) =
  let (hm, d, tag, par, anis) = (match st.f_model with
    | None -> (false, 0, 0, [], [])
    | Some m -> (true, int_of_nat m.m_dim, int_of_z m.m_tag, m.m_par, m.m_anis)) in
  let (hp, p) = (match st.f_period with None -> (false, []) | Some p -> (true, p)) in
  let (hn, mn) = (match st.f_mode_no with None -> (false, []) | Some l -> (true, List.map int_of_z l)) in
  VT [VB ok; VB hm; VN d; VZ tag; VV par; VV anis; VB hp; VV p; VB hn; VZV mn; VV st.f_dk; VM st.f_modes]

let pipeline dim angles anis period mode_no spec z1 z2 pos =
  let dk = delta_k o period anis in
  let modes = grid_of o period mode_no anis in
  let sf = spectrum_factor o spec dk in
  summate_fourier o sf modes z1 z2 (isometrize o dim angles anis pos)

let () = run_protocol [
  "generate_grid", (fun args -> VM (generate_grid (List.map gv args)));
  "fill_to_dim", (function [d; v] -> vopt (fun l -> VV l) (fill_to_dim (gn d) (gv v)) | _ -> failwith "arity");
  "fill_to_dim_z", (function [d; v] -> vopt rzv (fill_to_dim (gn d) (gzv v)) | _ -> failwith "arity");
  "delta_k", (function [p; a] -> VV (delta_k o (gv p) (gv a)) | _ -> failwith "arity");
  "arange_modes", (function [n; dk] -> VV (arange_modes o (gz n) (gf dk)) | _ -> failwith "arity");
  "set_modes", (function [mn; dk] -> let (g, l) = set_modes o (gzv mn) (gv dk) in VT [VM g; rzv l] | _ -> failwith "arity");
  "grid_of", (function [p; mn; a] -> VM (grid_of o (gv p) (gzv mn) (gv a)) | _ -> failwith "arity");
  "k_norm", (function [m] -> VV (k_norm o (gm m)) | _ -> failwith "arity");
  "spectrum_factor", (function [s; dk] -> VV (spectrum_factor o (gv s) (gv dk)) | _ -> failwith "arity");
  "shift_axis", (function [p; ax; s] -> VM (shift_axis o (gm p) (gn ax) (gf s)) | _ -> failwith "arity");
  "isclose", (function [a; b] -> VB (isclose o (gf a) (gf b)) | _ -> failwith "arity");
  "field", (function [sf; m; z1; z2; p] -> VV (summate_fourier o (gv sf) (gm m) (gv z1) (gv z2) (gm p)) | _ -> failwith "arity");
  "field_spec", (function [sf; m; z1; z2; p] -> VV (summate_fourier_spec o (gv sf) (gm m) (gv z1) (gv z2) (gm p)) | _ -> failwith "arity");
  "isometrize", (function [d; a; s; p] -> VM (isometrize o (gn d) (gv a) (gv s) (gm p)) | _ -> failwith "arity");
  "main_axes", (function [d; a] -> VM (rotated_main_axes o (gn d) (gv a)) | _ -> failwith "arity");
  "pipeline", (function [d; ang; an; per; mn; spec; z1; z2; p] ->
      VV (pipeline (gn d) (gv ang) (gv an) (gv per) (gzv mn) (gv spec) (gv z1) (gv z2) (gm p)) | _ -> failwith "arity");
  "f_reset", (function [] -> state := fs_empty; show_state true !state | _ -> failwith "arity");
  "f_state", (function [] -> show_state true !state | _ -> failwith "arity");
  (* in-place edit through the array / list returned by the getter (extracted edit_period / edit_mode_no) *)
  "f_edit_period", (function [p] -> state := edit_period !state (gv p); show_state true !state | _ -> failwith "arity");
  "f_edit_mode_no", (function [m] -> state := edit_mode_no !state (gzv m); show_state true !state | _ -> failwith "arity");
  (* in-place edit of the stored model through the getter (extracted edit_model) *)
  "f_edit_model", (function [d; tag; par; anis] ->
      state := edit_model !state { m_dim = gn d; m_tag = gz tag; m_par = gv par; m_anis = gv anis }; show_state true !state
    | _ -> failwith "arity");
  (* update called with the stored model object itself (extracted step_gen true) *)
  "f_update_same_obj", (function [d; tag; par; anis; seed; hp; per; hn; mn] ->
      let u = { u_model = Some { m_dim = gn d; m_tag = gz tag; m_par = gv par; m_anis = gv anis };
                u_seed = gb seed;
                u_period = (if gb hp then Some (gv per) else None);
                u_mode_no = (if gb hn then Some (gzv mn) else None) } in
      let (st, out) = step_gen o true !state u in
      state := st; show_state (out = Ok) st
    | _ -> failwith "arity");
  "f_update", (function [hm; d; tag; par; anis; seed; hp; per; hn; mn] ->
      let u = { u_model = (if gb hm then Some { m_dim = gn d; m_tag = gz tag; m_par = gv par; m_anis = gv anis } else None);
                u_seed = gb seed;
                u_period = (if gb hp then Some (gv per) else None);
                u_mode_no = (if gb hn then Some (gzv mn) else None) } in
      let (st, out) = step o !state u in
      state := st; show_state (out = Ok) st
    | _ -> failwith "arity");
]
