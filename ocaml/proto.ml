(* proto.ml — appended after an extracted model (so the types nat, positive, z, numOps are
   the ones of that extraction).  Float instance of NumOps, value codec, line protocol. *)

let rec nat_of_int n = if n <= 0 then O else S (nat_of_int (n - 1))
let rec int_of_nat = function O -> 0 | S n -> 1 + int_of_nat n
let rec pos_of_int n = if n = 1 then XH else if n land 1 = 1 then XI (pos_of_int (n lsr 1)) else XO (pos_of_int (n lsr 1))
let rec int_of_pos = function XH -> 1 | XO p -> 2 * int_of_pos p | XI p -> 2 * int_of_pos p + 1
let z_of_int n = if n = 0 then Z0 else if n > 0 then Zpos (pos_of_int n) else Zneg (pos_of_int (-n))
let int_of_z = function Z0 -> 0 | Zpos p -> int_of_pos p | Zneg p -> - (int_of_pos p)

let hex f =
  if Float.is_nan f then "nan" else if f = Float.infinity then "inf"
  else if f = Float.neg_infinity then "-inf" else Printf.sprintf "%h" f

(* oracle co-process: special functions are answered by the harness (scipy) *)
let oracle (code : nat) (args : float list) : float =
  Printf.printf "?%d %s\n%!" (int_of_nat code) (String.concat " " (List.map hex args));
  float_of_string (String.trim (input_line stdin))

let float_ops : float numOps = {
  n0 = 0.0; n1 = 1.0;
  nadd = ( +. ); nsub = ( -. ); nmul = ( *. ); ndiv = ( /. );
  nneg = (fun x -> -. x); nabs = Float.abs; nsqrt = Float.sqrt;
  ncos = Float.cos; nsin = Float.sin; nexp = Float.exp; nln = Float.log;
  nacos = Float.acos; nasin = Float.asin; natan = Float.atan; natan2 = Float.atan2;
  (* C pow.  For the exponent 2.0 gcc emits x*x (the correctly rounded square) instead of calling libm, whose pow is
     within 1 ulp but NOT correctly rounded (glibc: pow(x,2.0) <> x*x for about 0.08 % of doubles); the compiled kernels
     contain `pow(x, 2.0)` for Cython's `x**2`, so the float instance squares by multiplication as the artefact does. *)
  npow = (fun x y -> if y = 2.0 then x *. x else Float.pow x y);
  nltb = (fun x y -> x < y); nleb = (fun x y -> x <= y); neqb = (fun x y -> x = y);
  nisnan = Float.is_nan;
  nofZ = (fun z -> float_of_int (int_of_z z));
  npi = 0x1.921fb54442d18p+1;
  noracle = oracle;
}

(* ---- values *)
type value =
  | VF of float | VN of int | VZ of int | VB of bool
  | VV of float list | VM of float list list
  | VZV of int list | VZM of int list list
  | VNone
  | VT of value list

let split_on c s = if s = "" then [] else String.split_on_char c s
let rec chunk c l = match l with
  | [] -> []
  | _ -> let rec take n l acc = if n = 0 then (List.rev acc, l) else (match l with x :: t -> take (n-1) t (x :: acc) | [] -> failwith "chunk") in
         let (h, t) = take c l [] in h :: chunk c t

let parse_value (tok : string) : value =
  match String.split_on_char ':' tok with
  | ["f"; x] -> VF (float_of_string x)
  | ["n"; x] -> VN (int_of_string x)
  | ["z"; x] -> VZ (int_of_string x)
  | ["b"; x] -> VB (x = "1")
  | ["v"; _; xs] -> VV (List.map float_of_string (split_on ',' xs))
  | ["m"; r; c; xs] ->
      let r = int_of_string r and c = int_of_string c in
      let l = List.map float_of_string (split_on ',' xs) in
      if c = 0 then VM (List.init r (fun _ -> [])) else VM (chunk c l)
  | ["zv"; _; xs] -> VZV (List.map int_of_string (split_on ',' xs))
  | ["zm"; r; c; xs] ->
      let r = int_of_string r and c = int_of_string c in
      let l = List.map int_of_string (split_on ',' xs) in
      if c = 0 then VZM (List.init r (fun _ -> [])) else VZM (chunk c l)
  | _ -> failwith ("bad token " ^ tok)

let rec show_value = function
  | VF x -> "f:" ^ hex x
  | VN n -> "n:" ^ string_of_int n
  | VZ n -> "z:" ^ string_of_int n
  | VB b -> if b then "b:1" else "b:0"
  | VV l -> Printf.sprintf "v:%d:%s" (List.length l) (String.concat "," (List.map hex l))
  | VM l -> let c = (match l with [] -> 0 | r :: _ -> List.length r) in
      Printf.sprintf "m:%d:%d:%s" (List.length l) c (String.concat "," (List.map hex (List.concat l)))
  | VZV l -> Printf.sprintf "zv:%d:%s" (List.length l) (String.concat "," (List.map string_of_int l))
  | VZM l -> let c = (match l with [] -> 0 | r :: _ -> List.length r) in
      Printf.sprintf "zm:%d:%d:%s" (List.length l) c (String.concat "," (List.map string_of_int (List.concat l)))
  | VNone -> "none"
  | VT l -> String.concat " " (List.map show_value l)

let gf = function VF x -> x | _ -> failwith "float expected"
let gn = function VN x -> nat_of_int x | _ -> failwith "nat expected"
let gz = function VZ x -> z_of_int x | _ -> failwith "Z expected"
let gb = function VB x -> x | _ -> failwith "bool expected"
let gv = function VV x -> x | _ -> failwith "vector expected"
let gm = function VM x -> x | _ -> failwith "matrix expected"
let gzv = function VZV x -> List.map z_of_int x | _ -> failwith "Z vector expected"
let gzm = function VZM x -> List.map (List.map z_of_int) x | _ -> failwith "Z matrix expected"
let rzv l = VZV (List.map int_of_z l)
let rzm l = VZM (List.map (List.map int_of_z) l)

(* main loop: [table] maps a function name to  value list -> value *)
let run_protocol (table : (string * (value list -> value)) list) =
  (try
    while true do
      let line = String.trim (input_line stdin) in
      if line <> "" then begin
        match String.split_on_char ' ' line with
        | fn :: toks ->
          let args = List.map parse_value (List.filter (fun s -> s <> "") toks) in
          let res = (try show_value ((List.assoc fn table) args)
                     with Not_found -> "error:unknown-function"
                        | Failure m -> "error:" ^ m
                        | Stack_overflow -> "error:stack-overflow") in
          Printf.printf "%s\n%!" res
        | [] -> ()
      end
    done
  with End_of_file -> ())
