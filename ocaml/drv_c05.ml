(* driver for the kriging model (C05 and C06): coq/c05/C05_Model.v extracted, run at OCaml floats *)
let o = float_ops
(* sys: n unb exact sill C err_is_scalar err Fint Fext *)
let mk_sys = function
  | n :: unb :: exact :: sill :: c :: es :: err :: fint :: fext :: rest ->
      let n' = gn n in
      ({ ks_n = n'; ks_unb = gb unb; ks_exact = gb exact; ks_sill = gf sill; ks_C = gm c;
         ks_err = cond_err_vec o n' (gb es) (gv err); ks_Fint = gm fint; ks_Fext = gm fext }, rest)
  | _ -> failwith "arity(sys)"
(* tgt: m c0 d0 Gint Gext only_mean *)
let mk_tgt = function
  | m :: c0 :: d0 :: gi :: ge :: om :: rest ->
      ({ kt_m = gn m; kt_c0 = gm c0; kt_d0 = gm d0; kt_Gint = gm gi; kt_Gext = gm ge; kt_only_mean = gb om }, rest)
  | _ -> failwith "arity(tgt)"
let rec seq lo n = if n <= 0 then [] else nat_of_int lo :: seq (lo + 1) (n - 1)
let int_of v = match v with VN x -> x | _ -> failwith "nat expected"
let () = run_protocol [
  "krige_matrix", (fun a -> let (s, r) = mk_sys a in (match r with [] -> VM (krige_matrix o s) | _ -> failwith "arity"));
  "rhs", (fun a -> let (s, r) = mk_sys a in let (q, r) = mk_tgt r in
      (match r with [lo; hi] -> VM (rhs_matrix o s q (seq (int_of lo) (int_of hi - int_of lo))) | _ -> failwith "arity"));
  "krige_cond", (function [code; lam; v; tr; mn; pad] ->
      VV (krige_cond o (norm_fwd o (gn code) (gf lam)) (gv v) (gv tr) (gv mn) (gn pad)) | _ -> failwith "arity");
  "krige_raw", (fun a -> let (s, r) = mk_sys a in let (q, r) = mk_tgt r in
      (match r with [kinv; cond; chunk] ->
         let (f, e) = krige_raw o s q (gm kinv) (gv cond) (gn chunk) in VT [VV f; VV e] | _ -> failwith "arity"));
  "krige_raw_field", (fun a -> let (s, r) = mk_sys a in let (q, r) = mk_tgt r in
      (match r with [kinv; cond; chunk] -> VV (krige_raw_field o s q (gm kinv) (gv cond) (gn chunk)) | _ -> failwith "arity"));
  "krige_call", (fun a -> let (s, r) = mk_sys a in let (q, r) = mk_tgt r in
      (match r with [kinv; code; lam; v; ctr; cmn; tmn; ttr; chunk] ->
         let c = gn code and l = gf lam in
         let (f, e) = krige_call o s q (gm kinv) (norm_fwd o c l) (norm_bwd o c l) (gv v) (gv ctr) (gv cmn) (gv tmn) (gv ttr) (gn chunk) in
         VT [VV f; VV e] | _ -> failwith "arity"));
  "krige_call_field", (fun a -> let (s, r) = mk_sys a in let (q, r) = mk_tgt r in
      (match r with [kinv; code; lam; v; ctr; cmn; tmn; ttr; chunk] ->
         let c = gn code and l = gf lam in
         VV (krige_call_field o s q (gm kinv) (norm_fwd o c l) (norm_bwd o c l) (gv v) (gv ctr) (gv cmn) (gv tmn) (gv ttr) (gn chunk))
       | _ -> failwith "arity"));
  "get_mean", (fun a -> let (s, r) = mk_sys a in
      (match r with [kinv; cond; code; lam; mean; callable; post] ->
         (match get_mean o s (gm kinv) (gv cond) (norm_bwd o (gn code) (gf lam)) (gf mean) (gb callable) (gb post) with
          | None -> VNone | Some x -> VF x) | _ -> failwith "arity"));
  "poly_drifts", (function [dim; order; m; pos] -> VM (poly_drifts o (gn dim) (gn order) (gn m) (gm pos)) | _ -> failwith "arity");
  "set_cond_err", (function [exact; n; nug; isnug; scalar; v] ->
      (match set_cond_err o (gb exact) (gn n) (gf nug) (if gb isnug then None else Some (gb scalar, gv v)) with
       | None -> VNone | Some e -> VV e) | _ -> failwith "arity");
  "grid", (function axes -> VM (grid (List.map gv axes)));
]
