(* driver for the hand model VarioPre of vario_estimate's preprocessing (C09) *)
let o = float_ops
let gbv = function VZV l -> List.map (fun x -> x <> 0) l | _ -> failwith "bool vector expected"
let gbm = function VZM l -> List.map (List.map (fun x -> x <> 0)) l | _ -> failwith "bool matrix expected"
let gnv = function VZV l -> List.map nat_of_int l | _ -> failwith "nat vector expected"
let rbv l = VZV (List.map (fun b -> if b then 1 else 0) l)
let rnv l = VZV (List.map int_of_nat l)
let opt1 = function None -> VNone | Some (v, c) -> VT [VV v; rzv c]
let () = run_protocol [
  "unstructured_spec", (function [f; be; pos; et; dt] -> opt1 (unstructured_spec o (gm f) (gv be) (gm pos) (gz et) (gz dt)) | _ -> failwith "arity");
  "isclose", (function [x; y] -> VB (isclose o (gf x) (gf y)) | _ -> failwith "arity");
  "pre_select", (function [g; fm; n] -> rbv (pre_select (gbv g) (gbm fm) (gn n)) | _ -> failwith "arity");
  "keep_idx", (function [s] -> rnv (keep_idx (gbv s)) | _ -> failwith "arity");
  "pre_mask", (function [g; fm; pos; f] -> let (p, ff) = pre_mask o (gbv g) (gbm fm) (gm pos) (gm f) in VT [VM p; VM ff] | _ -> failwith "arity");
  "pre_no_data", (function [nd; f] -> VM (pre_no_data o (gf nd) (gm f)) | _ -> failwith "arity");
  "pre_drop_missing", (function [pos; f] -> let (p, ff) = pre_drop_missing o (gm pos) (gm f) in VT [VM p; VM ff] | _ -> failwith "arity");
  "directional", (function [f; be; pos; d; tol; bw; sep; et] ->
      (match directional o (gm f) (gv be) (gm pos) (gm d) (gf tol) (gf bw) (gb sep) (gz et) with
       | None -> VNone | Some (v, c) -> VT [VM v; rzm c]) | _ -> failwith "arity");
  "pre_dirs", (function [d] -> (match pre_dirs o (gm d) with None -> VNone | Some m -> VM m) | _ -> failwith "arity");
  "ang2dir_row", (function [dim; a] -> VV (ang2dir_row o (gn dim) (gv a)) | _ -> failwith "arity");
  "sep_test", (function [d; tol] -> VB (sep_test o (gm d) (gf tol)) | _ -> failwith "arity");
  "pre_sample", (function [idx; pos; f] -> let (p, ff) = pre_sample o (gnv idx) (gm pos) (gm f) in VT [VM p; VM ff] | _ -> failwith "arity");
  "sturges", (function [n] -> VZ (int_of_z (sturges (gn n))) | _ -> failwith "arity");
  "std_bins", (function [ll; r; pos] -> VV (std_bins o (gb ll) (gf r) (gm pos)) | _ -> failwith "arity");
  "std_bins_kw", (function [ll; r; pos; hb; bn; hm; md] ->
      VV (std_bins_kw o (gb ll) (gf r) (gm pos) (if gb hb then Some (gn bn) else None) (if gb hm then Some (gf md) else None)) | _ -> failwith "arity");
  "pre_edges", (function [ll; r; e] -> VV (pre_edges o (gb ll) (gf r) (gv e)) | _ -> failwith "arity");
  "centers", (function [e] -> VV (centers o (gv e)) | _ -> failwith "arity");
  "axis_mask", (function [nd; own; f] -> rzm (axis_mask o (gf nd) (gbm own) (gm f)) | _ -> failwith "arity");
  "axis_masked", (function [nd; own; f] -> VB (axis_masked o (gf nd) (gbm own) (gm f)) | _ -> failwith "arity");
  "axis_estimate", (function [nd; own; f; et] -> VV (axis_estimate o (gf nd) (gbm own) (gm f) (gz et)) | _ -> failwith "arity");
  "generate_grid", (function axes -> VM (generate_grid o (List.map gv axes)));
]
