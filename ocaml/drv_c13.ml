(* driver for the C13 model (geographic / spatio-temporal coordinates).
   oracle codes 100 / 101 : model.covariance(d) / model.cov_nugget(d) of the model under test *)
let o = float_ops
let ni = nat_of_int
let cf_cov d = o.noracle (ni 100) [d]
let cf_nug d = o.noracle (ni 101) [d]
let sdim_of = function VZ k -> if k < 0 then None else Some (ni k) | _ -> failwith "Z expected"
let show_model (m : float geomodel) =
  VT [VN (int_of_nat m.g_dim); VF m.g_geo_scale; VF m.g_len_scale; VV m.g_anis; VV m.g_angles;
      VN (int_of_nat (field_dim m)); VN (int_of_nat (spatial_dim m))]
let mk_model dim sd ll tp geo ls an ang = construct o (gn dim) (sdim_of sd) (gb ll) (gb tp) (gf geo) (gv ls) (gv an) (gv ang)
let () = run_protocol [
  "dist_haversine", (function [pos; i; j] -> VF (dist_haversine o (ni 2) (gm pos) (gn i) (gn j)) | _ -> failwith "arity");
  "latlon2pos", (function [r; t; ts; p] -> VV (latlon2pos o (gf r) (gb t) (gf ts) (gv p)) | _ -> failwith "arity");
  "pos2latlon", (function [r; t; ts; p] -> VV (pos2latlon o (gf r) (gb t) (gf ts) (gv p)) | _ -> failwith "arity");
  "chordal_to_great_circle", (function [d; r] -> VF (chordal_to_great_circle o (gf d) (gf r)) | _ -> failwith "arity");
  "great_circle_to_chordal", (function [d; r] -> VF (great_circle_to_chordal o (gf d) (gf r)) | _ -> failwith "arity");
  "dist", (function [u; v] -> VF (dist o (gv u) (gv v)) | _ -> failwith "arity");
  "no_of_angles", (function [d] -> VN (int_of_nat (no_of_angles (gn d))) | _ -> failwith "arity");
  "rotation_planes", (function [d] -> VZM (List.map (fun (a, b) -> [int_of_nat a; int_of_nat b]) (rotation_planes (gn d))) | _ -> failwith "arity");
  "set_angles", (function [d; a] -> VV (set_angles o (gn d) (gv a)) | _ -> failwith "arity");
  "set_anis", (function [d; a] -> VV (set_anis o (gn d) (gv a)) | _ -> failwith "arity");
  "set_model_angles", (function [d; a; ll; tp] -> VV (set_model_angles o (gn d) (gv a) (gb ll) (gb tp)) | _ -> failwith "arity");
  "set_len_anis", (function [d; ls; an; ll] ->
      (match set_len_anis o (gn d) (gv ls) (gv an) (gb ll) with None -> VNone | Some (l, a) -> VT [VF l; VV a]) | _ -> failwith "arity");
  "matrix_rotate", (function [d; a] -> VM (matrix_rotate o (gn d) (gv a)) | _ -> failwith "arity");
  "matrix_derotate", (function [d; a] -> VM (matrix_derotate o (gn d) (gv a)) | _ -> failwith "arity");
  "matrix_isometrize", (function [d; a; an] -> VM (matrix_isometrize o (gn d) (gv a) (gv an)) | _ -> failwith "arity");
  "matrix_anisometrize", (function [d; a; an] -> VM (matrix_anisometrize o (gn d) (gv a) (gv an)) | _ -> failwith "arity");
  "construct", (function [dim; sd; ll; tp; geo; ls; an; ang] ->
      (match mk_model dim sd ll tp geo ls an ang with None -> VNone | Some m -> show_model m) | _ -> failwith "arity");
  "steps", (function dim :: sd :: ll :: tp :: geo :: ls :: an :: ang :: rest ->
      let rec ops = function
        | [] -> []
        | VZ 0 :: v :: r -> OpLen (gv v) :: ops r
        | VZ 1 :: v :: r -> OpAnis (gv v) :: ops r
        | VZ 2 :: v :: r -> OpAngles (gv v) :: ops r
        | VZ 3 :: VN d :: r -> OpDim (ni d) :: ops r
        | _ -> failwith "bad op list" in
      (match mk_model dim sd ll tp geo ls an ang with None -> VNone
       | Some m -> (match gsteps o m (ops rest) with None -> VNone | Some m' -> show_model m')) | _ -> failwith "arity");
  "isometrize", (function [dim; sd; ll; tp; geo; ls; an; ang; pts] ->
      (match mk_model dim sd ll tp geo ls an ang with None -> VNone
       | Some m -> VM (List.map (isometrize o m) (gm pts))) | _ -> failwith "arity");
  "anisometrize", (function [dim; sd; ll; tp; geo; ls; an; ang; pts] ->
      (match mk_model dim sd ll tp geo ls an ang with None -> VNone
       | Some m -> VM (List.map (anisometrize o m) (gm pts))) | _ -> failwith "arity");
  "cov_yadrenko", (function [geo; z] -> VF (cov_yadrenko o cf_cov (gf geo) (gf z)) | _ -> failwith "arity");
  "krige_system", (function [dim; sd; ll; tp; geo; ls; an; ang; unb; exact; err; cond; tgt] ->
      (match mk_model dim sd ll tp geo ls an ang with None -> VNone
       | Some m -> let (a, b) = krige_system o m cf_cov (if gb exact then cf_nug else cf_cov) (gb unb) (gv err) (gm cond) (gm tgt) in
                   VT [VM a; VM b]) | _ -> failwith "arity");
  (* holder history: model args (8), conditioning points, then operations
       z:0 + 8 model args = model replacement | z:1 z:kind vec = in-place setter | z:2 = set_condition() | z:3 m = set_condition(new points)
     result: present model state and the cached isometrized conditioning positions *)
  "holder", (function dim :: sd :: ll :: tp :: geo :: ls :: an :: ang :: cond :: rest ->
      let rec ops = function
        | [] -> []
        | VZ 0 :: d :: s :: l :: t :: g :: a :: b :: c :: r ->
            (match mk_model d s l t g a b c with None -> failwith "bad replacement model" | Some m -> HSetModel m :: ops r)
        | VZ 1 :: VZ 0 :: v :: r -> HInPlace (OpLen (gv v)) :: ops r
        | VZ 1 :: VZ 1 :: v :: r -> HInPlace (OpAnis (gv v)) :: ops r
        | VZ 1 :: VZ 2 :: v :: r -> HInPlace (OpAngles (gv v)) :: ops r
        | VZ 2 :: r -> HRefresh :: ops r
        | VZ 3 :: c :: r -> HSetCond (gm c) :: ops r
        | _ -> failwith "bad holder op list" in
      (match mk_model dim sd ll tp geo ls an ang with None -> VNone
       | Some m -> let h = hrun o (hinit o m (gm cond)) (ops rest) in
                   VT [show_model h.h_model; VM h.h_kpos]) | _ -> failwith "arity");
  "latlon_bins_last_edge", (function [geo; pts; has; md] ->
      VF (latlon_bins_last_edge o (gf geo) (gm pts) (if gb has then Some (gf md) else None)) | _ -> failwith "arity");
  "latlon_bins_max_dist", (function [geo; pts] -> VF (latlon_bins_max_dist o (gf geo) (gm pts)) | _ -> failwith "arity");
  "in_bin", (function [lo; hi; d] -> VB (in_bin o (gf lo) (gf hi) (gf d)) | _ -> failwith "arity");
]
