(* driver for the spectral model (C04): class code, two shape parameters, dim, len_scale, rescale, argument *)
let o = float_ops
let opt = function None -> VNone | Some x -> VF x
let () = run_protocol [
  "rad_fac", (function [d; r] -> VF (rad_fac o (gz d) (gf r)) | _ -> failwith "arity");
  "density", (function [c; p1; p2; d; ls; rs; k] -> VF (drv_density o (gn c) (gf p1) (gf p2) (gz d) (gf ls) (gf rs) (gf k)) | _ -> failwith "arity");
  "pdf", (function [c; p1; p2; d; ls; rs; k] -> VF (drv_pdf o (gn c) (gf p1) (gf p2) (gz d) (gf ls) (gf rs) (gf k)) | _ -> failwith "arity");
  "lnpdf", (function [c; p1; p2; d; ls; rs; k] -> VF (drv_lnpdf o (gn c) (gf p1) (gf p2) (gz d) (gf ls) (gf rs) (gf k)) | _ -> failwith "arity");
  "spectrum", (function [c; p1; p2; d; ls; rs; v; k] -> VF (drv_spectrum o (gn c) (gf p1) (gf p2) (gz d) (gf ls) (gf rs) (gf v) (gf k)) | _ -> failwith "arity");
  "cdf", (function [c; p1; p2; d; ls; rs; k] -> opt (drv_cdf o (gn c) (gf p1) (gf p2) (gz d) (gf ls) (gf rs) (gf k)) | _ -> failwith "arity");
  "ppf", (function [c; p1; p2; d; ls; rs; k] -> opt (drv_ppf o (gn c) (gf p1) (gf p2) (gz d) (gf ls) (gf rs) (gf k)) | _ -> failwith "arity");
  "has", (function [c; d] -> let (a, b) = drv_has o (gn c) (gz d) in VT [VB a; VB b] | _ -> failwith "arity");
  "tplgau_series", (function [a; z] -> VF (tplgau_series o (gf a) (gf z)) | _ -> failwith "arity");
]
