(* driver for C11: locality functions + the generator state machines run on whole histories *)
let o = float_ops
let id l = l
let rev l = List.rev l
let shuffle l =
  let rec go i l (a, b) = match l with [] -> (a, b) | x :: t -> if i land 1 = 1 then go (i+1) t (x :: a, b) else go (i+1) t (a, x :: b) in
  let (a, b) = go 0 l ([], []) in List.rev a @ b
let sched_of = function 0 -> id | 1 -> rev | _ -> shuffle
let sch s = sched_of (int_of_nat (gn s))
let gzi = function VZ x -> x | VN x -> x | _ -> failwith "int expected"
let izv = function VZV x -> x | _ -> failwith "int vector expected"
let izm = function VZM x -> x | _ -> failwith "int matrix expected"
let rec take n l = if n <= 0 then [] else (match l with [] -> [] | x :: t -> x :: take (n - 1) t)
let ragged rows lens = List.map2 (fun r n -> take n r) rows lens
let pad n d l = let k = List.length l in if k >= n then take n l else l @ List.init (n - k) (fun _ -> d)

(* ---- model table *)
let models meta params npar : float cmodel array =
  Array.of_list (List.map2 (fun (mt, p) n -> match mt with
    | [tag; dim; ppf] -> { cm_tag = z_of_int tag; cm_dim = nat_of_int dim; cm_ppf = (ppf <> 0); cm_par = take n p }
    | _ -> failwith "meta row") (List.combine meta params) npar)
let model_idx (tbl : float cmodel array) (m : float cmodel) : int =
  let r = ref (-1) in
  Array.iteri (fun i x -> if !r < 0 && x = m then r := i) tbl; !r
let seedarg_of kind v tok = match kind with 0 -> SNan | 1 -> SNone | _ -> SInt (z_of_int v, nat_of_int tok)
let sseed_row = function KNone -> [0; 0] | KInt (v, _) -> [1; int_of_z v]
let eseed_row = function EInt v -> [0; int_of_z v] | EEnt k -> [1; int_of_nat k]
let noise_row = function
  | None -> [0; 0; 0; 0; 0]
  | Some ((e, p), sh) -> 1 :: (eseed_row e @ [int_of_nat p; int_of_nat sh])

(* ---- RandMeth histories *)
let rm_op_of tbl = function
  | [0; a; k; v; t] -> RUpdate ((if a < 0 then None else Some tbl.(a)), seedarg_of k v t)
  | [1; _; k; v; t] -> RSetSeed (seedarg_of k v t)
  | [2; _; k; v; t] -> RResetSeed (seedarg_of k v t)
  | [3; a; _; _; _] -> RSetModeNo (nat_of_int a)
  | [4; a; b; _; _] -> RCall (nat_of_int a, b <> 0)
  | _ -> failwith "bad rm op"
let modes_row tbl ((e, m), n) = eseed_row e @ [model_idx tbl m; int_of_nat n]
let rm_row tbl (st : float rmc) out =
  [int_of_nat st.rm_resets; int_of_nat st.rm_pos; int_of_nat st.rm_ent] @ sseed_row st.rm_seed @ eseed_row st.rm_eseed
  @ [int_of_nat st.rm_mode_no; model_idx tbl st.rm_model] @ modes_row tbl st.rm_modes
  @ (match out with
     | ONothing -> [0; 0; 0; 0; 0] @ noise_row None
     | OField (md, m, n, noise) -> [1] @ modes_row tbl md @ noise_row noise
                                   @ [if m = st.rm_model && n = st.rm_mode_no then 1 else 0])
let rm_hist = function
  | [meta; params; npar; init; ops] ->
    let tbl = models (izm meta) (gm params) (izv npar) in
    (match izv init with
     | [mi; n; k; v; t] ->
       let st0 = rmc_init tbl.(mi) (nat_of_int n) (seedarg_of k v t) in
       let rows = ref [pad 24 0 (rm_row tbl st0 ONothing)] in
       let st = ref st0 in
       List.iter (fun r -> let (st', out) = rmc_step o !st (rm_op_of tbl r) in
                   st := st'; rows := pad 24 0 (rm_row tbl st' out) :: !rows) (izm ops);
       VZM (List.rev !rows)
     | _ -> failwith "bad init")
  | _ -> failwith "arity"

(* ---- Fourier histories *)
let fo_rows tbl (st : float foc) out ok =
  let dim = int_of_nat st.fo_model.cm_dim in
  let g_ok = (st.fo_grid = ((st.fo_mode_no, st.fo_delta), st.fo_model.cm_dim)) in
  let sf_ok = (st.fo_sf = ((st.fo_model, st.fo_grid), st.fo_delta)) in
  let (ze, zn) = st.fo_zs in
  let ints = [ok; int_of_nat st.fo_resets; int_of_nat st.fo_pos; int_of_nat st.fo_ent] @ sseed_row st.fo_seed @ eseed_row st.fo_eseed
    @ [model_idx tbl st.fo_model; dim; List.length st.fo_period; List.length st.fo_mode_no]
    @ pad 3 0 (List.map int_of_nat st.fo_mode_no)
    @ [(if g_ok then 1 else 0); (if sf_ok then 1 else 0)] @ eseed_row ze @ [int_of_nat zn]
    @ (match out with
       | UNothing -> [0] @ noise_row None
       | UField (_, _, _, noise) -> [1] @ noise_row noise) in
  let floats = pad 3 0.0 st.fo_period @ pad 3 0.0 st.fo_delta in
  (ints, floats)
let fo_hist = function
  | [meta; params; npar; init; pers; perlens; mns; mnlens; ops] ->
    let tbl = models (izm meta) (gm params) (izv npar) in
    let pers = Array.of_list (ragged (gm pers) (izv perlens)) in
    let mns = Array.of_list (List.map (List.map nat_of_int) (ragged (izm mns) (izv mnlens))) in
    let op_of = function
      | [0; a; k; v; t; p; n] -> UUpdate ((if a < 0 then None else Some tbl.(a)), seedarg_of k v t,
                                          (if p < 0 then None else Some pers.(p)), (if n < 0 then None else Some mns.(n)))
      | [1; _; k; v; t; _; _] -> USetSeed (seedarg_of k v t)
      | [2; _; k; v; t; _; _] -> UResetSeed (seedarg_of k v t)
      | [4; a; b; _; _; _; _] -> UCall (nat_of_int a, b <> 0)
      | _ -> failwith "bad fo op" in
    (match izv init with
     | [mi; pi; ni; k; v; t] ->
       (match foc_init o tbl.(mi) pers.(pi) mns.(ni) (seedarg_of k v t) with
        | None -> VT [VZM []; VM []]
        | Some st0 ->
          let (i0, f0) = fo_rows tbl st0 UNothing 1 in
          let ir = ref [i0] and fr = ref [f0] in
          let st = ref (Some st0) in
          List.iter (fun r ->
            match !st with
            | None -> ()
            | Some s ->
              (match foc_step o s (op_of r) with
               | None -> let (i, f) = fo_rows tbl s UNothing 0 in ir := i :: !ir; fr := f :: !fr; st := None
               | Some (s', out) -> let (i, f) = fo_rows tbl s' out 1 in ir := i :: !ir; fr := f :: !fr; st := Some s')) (izm ops);
          VT [VZM (List.rev !ir); VM (List.rev !fr)])
     | _ -> failwith "bad init")
  | _ -> failwith "arity"

let () = run_protocol [
  "summate", (function [s; a; b; c; d] -> VV (summate_sched o (sch s) (gm a) (gv b) (gv c) (gm d)) | _ -> failwith "arity");
  "summate_incompr", (function [a; b; c; d] -> VM (summate_incompr o (gm a) (gv b) (gv c) (gm d)) | _ -> failwith "arity");
  "randmeth_call", (function [s; var; n; ks; z1; z2; nug; pos] ->
      VV (randmeth_call o (sch s) (gf var) (gn n) (gm ks) (gv z1) (gv z2) (gv nug) (gm pos)) | _ -> failwith "arity");
  "fourier_call", (function [s; sf; ks; z1; z2; nug; pos] ->
      VV (fourier_call o (sch s) (gv sf) (gm ks) (gv z1) (gv z2) (gv nug) (gm pos)) | _ -> failwith "arity");
  "incompr_call", (function [mu; var; n; ks; z1; z2; pos] ->
      VM (incompr_call o (gf mu) (gf var) (gn n) (gm ks) (gv z1) (gv z2) (gm pos)) | _ -> failwith "arity");
  "ic_value", (function [mu; var; n; ks; z1; z2; dim; d; x] ->
      VF (ic_value o (gf mu) (gf var) (gn n) (gm ks) (gv z1) (gv z2) (gn dim) (gn d) (gv x)) | _ -> failwith "arity");
  "rm_value", (function [var; n; ks; z1; z2; x] -> VF (rm_value o (gf var) (gn n) (gm ks) (gv z1) (gv z2) (gv x)) | _ -> failwith "arity");
  "fo_value", (function [sf; ks; z1; z2; x] -> VF (fo_value o (gv sf) (gm ks) (gv z1) (gv z2) (gv x)) | _ -> failwith "arity");
  "generate_grid", (function [axes; lens] -> VM (generate_grid o (ragged (gm axes) (izv lens))) | _ -> failwith "arity");
  "flat_index", (function [ns; idx] -> VN (int_of_nat (flat_index (List.map nat_of_int (izv ns)) (List.map nat_of_int (izv idx)))) | _ -> failwith "arity");
  "point_at", (function [axes; lens; idx] -> VV (point_at 0.0 (ragged (gm axes) (izv lens)) (List.map nat_of_int (izv idx))) | _ -> failwith "arity");
  "compare", (function [t1; d1; p1; t2; d2; p2] ->
      VB (compare o { cm_tag = z_of_int (gzi t1); cm_dim = gn d1; cm_ppf = true; cm_par = gv p1 }
                    { cm_tag = z_of_int (gzi t2); cm_dim = gn d2; cm_ppf = true; cm_par = gv p2 }) | _ -> failwith "arity");
  "rm_hist", rm_hist;
  "fo_hist", fo_hist;
]
