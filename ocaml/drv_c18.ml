(* driver for the normalizer model (C18).  expm1 / log1p (numpy ufuncs in the implementation) are the
   glibc functions here; every other operation is the shared float instance of proto.ml. *)
let o = { float_ops with noracle = (fun code args ->
  match int_of_nat code, args with
  | 40, [x] -> Float.expm1 x
  | 41, [x] -> Float.log1p x
  | _ -> oracle code args) }
let kind_of v = match int_of_nat (gn v) with
  | 0 -> KIdentity | 1 -> KLogNormal | 2 -> KBoxCox | 3 -> KBoxCoxShift
  | 4 -> KYeoJohnson | 5 -> KModulus | 6 -> KManly | _ -> failwith "kind"
let par l s = { lmbda = gf l; shift = gf s }
let optf = function None -> Float.nan | Some v -> v
let lo_of = function None -> Float.neg_infinity | Some v -> v
let hi_of = function None -> Float.infinity | Some v -> v
let vmap f v = VV (List.map (fun x -> optf (f x)) (gv v))
let vraw f v = VV (List.map f (gv v))
let () = run_protocol [
  "normalize", (function [k; l; s; v] -> vmap (normalize o (kind_of k) (par l s)) v | _ -> failwith "arity");
  "denormalize", (function [k; l; s; v] -> vmap (denormalize o (kind_of k) (par l s)) v | _ -> failwith "arity");
  "derivative", (function [k; l; s; v] -> vmap (derivative o (kind_of k) (par l s)) v | _ -> failwith "arity");
  "normalize_raw", (function [k; l; s; v] -> vraw (normalize_raw o (kind_of k) (par l s)) v | _ -> failwith "arity");
  "denormalize_raw", (function [k; l; s; v] -> vraw (denormalize_raw o (kind_of k) (par l s)) v | _ -> failwith "arity");
  "derivative_raw", (function [k; l; s; v] -> vraw (derivative_raw o (kind_of k) (par l s)) v | _ -> failwith "arity");
  "norm_range", (function [k; l; s] -> let (a, b) = norm_range o (kind_of k) (par l s) in VT [VF (lo_of a); VF (hi_of b)] | _ -> failwith "arity");
  "denorm_range", (function [k; l; s] -> let (a, b) = denorm_range o (kind_of k) (par l s) in VT [VF (lo_of a); VF (hi_of b)] | _ -> failwith "arity");
  "isclose", (function [a; b] -> VB (isclose o (gf a) (gf b)) | _ -> failwith "arity");
  "kernel_loglikelihood", (function [k; l; s; v] -> VF (kernel_loglikelihood o (kind_of k) (par l s) (gv v)) | _ -> failwith "arity");
  "loglikelihood", (function [k; l; s; v] -> VF (loglikelihood o (kind_of k) (par l s) (gv v)) | _ -> failwith "arity");
  "apply_field", (function [k; l; s; m; t; r] -> VV (List.map optf (apply_field o (kind_of k) (par l s) (gv m) (gv t) (gv r))) | _ -> failwith "arity");
  "remove_field", (function [k; l; s; m; t; f] -> VV (List.map optf (remove_field o (kind_of k) (par l s) (gv m) (gv t) (gv f))) | _ -> failwith "arity");
  "fit_book", (function [sk; tr; xf; st] ->
      let skipm = List.map (fun z -> int_of_z z <> 0) (gzv sk) in
      let (st2, dict) = fit_book skipm (gm tr) (gv xf) (gv st) in
      VT [VV st2; VB (match dict with None -> false | Some _ -> true); VV (match dict with None -> [] | Some d -> d)] | _ -> failwith "arity");
  "single_val_vec", (function [v; d] -> VV (single_val_vec o (gv v) (gn d)) | _ -> failwith "arity");
]
