#!/bin/sh
# process_round.sh <round root, e.g. /tmp/seed3> <offset> PID...: import the round's seeds k=1..3 of each PID as
# k+offset into /tmp/seed/<PID>/SEED, confirm each (demo clean / demo patched / suite patched) and run the checks against them
root=$1; off=$2; shift 2
specs=""
for p in "$@"; do
  ks=""
  for k in 1 2 3; do
    n=$((k+off))
    [ -f $root/$p/SEED/patch$k.diff ] || continue
    for f in patch:diff demo:py meta:json; do b=${f%%:*}; e=${f##*:}; cp $root/$p/SEED/$b$k.$e /tmp/seed/$p/SEED/$b$n.$e; done
    /venv/bin/python /verif/tools/confirm_seed.py /tmp/seed/$p $n $p-$n > /tmp/seed/confirm_${p}_$n.log 2>&1
    if grep -q '"ok": true' /tmp/seed/confirm_${p}_$n.log; then ks="$ks,$n"; else echo "NOT CONFIRMED: $p-$n"; fi
  done
  [ -n "$ks" ] && specs="$specs $p:${ks#,}"
done
/venv/bin/python /verif/tools/seed_matrix.py $specs
