"""pyx2coq: translate GSTools' Cython kernels (after pyx2py normalisation) into
shallow, generic Gallina in state-passing style.  FAIL-CLOSED: every construct
outside the tables below raises ``TranslateError``.

Semantics assumed (this table *is* the trusted definition of the subset):
  C double ops        -> fields of ``NumOps T``  (nadd, nmul, ncos, ...)
  float literal p/10^k-> ``nlit O p k`` = ndiv (nofZ p) (nofZ 10^k)   (bit-exact: IEEE division of two
                         exactly representable integers is the correctly rounded decimal literal)
  C int (indices, shapes, loop bounds) -> nat, ``a - b`` truncated at 0 (only ever used as range bounds)
  np.int64_t          -> Z (no wrap-around: pair counts < 2^63)
  bint                -> bool;  str (one-character selectors) -> Z character code
  1-D / 2-D memoryviews -> list / list of rows; out-of-range reads return the default (unreachable
                         under the shape premises the theorems carry)
  for v in range(lo,hi)  -> for_ lo hi (fun v st => ...) st   with st = tuple of the loop-carried variables
                         (assigned in the body and live at the loop head: backward liveness analysis)
  for v in prange(lo,hi) -> par_for (sched ...) lo hi ...  : the iteration order is a PARAMETER of the
                         generated ``<kernel>_sched``; ``<kernel>`` instantiates it with the identity
  continue / break / raise -> early return of the loop state / a ``brk`` flag in the state / ``None``
  void cdef functions mutating their array arguments return the mutated arrays
  set_num_threads / num_threads_c are dropped (they only select the schedule)
"""
import ast
import sys
import os

sys.path.insert(0, os.path.dirname(os.path.abspath(__file__)))
import pyx2py  # noqa: E402


class TranslateError(Exception):
    pass


SKIP_FUNCS = {"set_num_threads"}
SKIP_VARS = {"num_threads_c", "num_threads"}

TYPE_MAP = {
    "double": "F", "int": "N", "bint": "B", "np.int64_t": "Z", "str": "S",
    "double[:]": "F1", "double[:,:]": "F2", "np.int64_t[:]": "Z1", "np.int64_t[:,:]": "Z2",
    "uint8[:,:]": "Z2", "uint8[:]": "Z1",
    "_estimator_func": "FN", "_normalization_func": "FN", "_normalization_func_vec": "FN",
    "_dist_func": "FN", "void": "V",
}
COQ_TYPE = {
    "F": "T", "N": "nat", "B": "bool", "Z": "Z", "S": "Z", "F1": "list T", "F2": "list (list T)",
    "Z1": "list Z", "Z2": "list (list Z)",
}
MATH1 = {"cos": "ncos", "sin": "nsin", "sqrt": "nsqrt", "acos": "nacos", "fabs": "nabs", "exp": "nexp"}


def names_in(node):
    return {n.id for n in ast.walk(node) if isinstance(n, ast.Name)}


class Func:
    def __init__(self, node, module):
        self.node = node
        self.name = node.name
        self.module = module
        self.types = {}
        self.params = []
        for a in node.args.args:
            if a.arg in SKIP_VARS:
                continue
            if a.annotation is None:
                raise TranslateError("%s: untyped parameter %s" % (self.name, a.arg))
            t = TYPE_MAP.get(a.annotation.value)
            if t is None:
                raise TranslateError("%s: unknown type %r" % (self.name, a.annotation.value))
            self.types[a.arg] = t
            self.params.append(a.arg)
        self.ret = None
        if node.returns is not None:
            self.ret = TYPE_MAP[node.returns.value]
        self.has_raise = any(isinstance(n, ast.Raise) for n in ast.walk(node))
        self.pranges = []  # list of tuples of enclosing loop variables
        self.mutated = []  # for void functions: array params assigned
        self.body = [s for s in node.body if not self._is_doc(s)]
        # collect declarations
        for n in ast.walk(node):
            if isinstance(n, ast.AnnAssign):
                t = TYPE_MAP.get(n.annotation.value)
                if t is None:
                    raise TranslateError("%s: unknown type %r" % (self.name, n.annotation.value))
                self.types[n.target.id] = t
        if self.ret == "V":
            asg = assigned(self.body)
            self.mutated = [p for p in self.params if p in asg]

    @staticmethod
    def _is_doc(s):
        return isinstance(s, ast.Expr) and isinstance(s.value, ast.Constant) and isinstance(s.value.value, str)


# --------------------------------------------------------------------------- dataflow

def assigned(stmts):
    out = []

    def add(x):
        if x not in out and x not in SKIP_VARS:
            out.append(x)

    def visit(ss):
        for s in ss:
            if isinstance(s, ast.Assign):
                for t in s.targets:
                    add(target_var(t))
            elif isinstance(s, ast.AugAssign):
                add(target_var(s.target))
            elif isinstance(s, ast.AnnAssign):
                if s.value is not None:
                    add(s.target.id)
            elif isinstance(s, ast.If):
                visit(s.body)
                visit(s.orelse)
            elif isinstance(s, ast.For):
                visit(s.body)
            elif isinstance(s, ast.Expr) and isinstance(s.value, ast.Call):
                for v in CURRENT_MODULE.call_mutates(s.value):
                    add(v)
    visit(stmts)
    return out


def target_var(t):
    if isinstance(t, ast.Name):
        return t.id
    if isinstance(t, ast.Subscript) and isinstance(t.value, ast.Name):
        return t.value.id
    raise TranslateError("unsupported assignment target: %s" % ast.dump(t))


def uses(e):
    return {n for n in names_in(e)} - SKIP_VARS - {"PARALLEL_BLOCK"}


def live_before(stmts, live_after, loop_head=None, loop_exit=None):
    """backward liveness over a statement list"""
    live = set(live_after)
    for s in reversed(stmts):
        live = live_stmt(s, live, loop_head, loop_exit)
    return live


def live_stmt(s, live, loop_head, loop_exit):
    if isinstance(s, ast.AnnAssign):
        if s.value is None:
            return live
        return (live - {s.target.id}) | uses(s.value)
    if isinstance(s, ast.Assign):
        if len(s.targets) != 1:
            raise TranslateError("multiple assignment targets")
        t = s.targets[0]
        if isinstance(t, ast.Name):
            if t.id in SKIP_VARS:
                return live
            return (live - {t.id}) | uses(s.value)
        return live | {target_var(t)} | uses(t.slice) | uses(s.value)
    if isinstance(s, ast.AugAssign):
        t = s.target
        if isinstance(t, ast.Name):
            return live | {t.id} | uses(s.value)
        return live | {target_var(t)} | uses(t.slice) | uses(s.value)
    if isinstance(s, ast.If):
        return uses(s.test) | live_before(s.body, live, loop_head, loop_exit) | live_before(
            s.orelse, live, loop_head, loop_exit
        )
    if isinstance(s, ast.For):
        head = set(live)
        for a in s.iter.args:
            head |= uses(a)
        while True:
            new = head | (live_before(s.body, head, head, live) - {s.target.id})
            if new == head:
                break
            head = new
        return head
    if isinstance(s, ast.Continue):
        return set(loop_head)
    if isinstance(s, ast.Break):
        return set(loop_exit)
    if isinstance(s, ast.Raise):
        return set()
    if isinstance(s, ast.Return):
        return uses(s.value) if s.value is not None else set()
    if isinstance(s, ast.Expr):
        if isinstance(s.value, ast.Constant):
            return live
        return live | uses(s.value)
    if isinstance(s, ast.Pass):
        return live
    raise TranslateError("unsupported statement: %s" % type(s).__name__)


def ends_with_exit(stmts):
    return bool(stmts) and isinstance(stmts[-1], (ast.Continue, ast.Break, ast.Raise, ast.Return))


def contains(stmts, kinds):
    for s in stmts:
        for n in ast.walk(s):
            if isinstance(n, kinds):
                return True
    return False


# --------------------------------------------------------------------------- emission

def tup(names):
    if len(names) == 0:
        return "tt"
    if len(names) == 1:
        return names[0]
    return "(" + ", ".join(names) + ")"


def pat(names):
    if len(names) == 0:
        return "_"
    if len(names) == 1:
        return names[0]
    return "'(" + ", ".join(names) + ")"


class Module:
    def __init__(self, tree, modname):
        self.modname = modname
        self.funcs = {}
        self.order = []
        for n in tree.body:
            if isinstance(n, ast.FunctionDef):
                if n.name in SKIP_FUNCS:
                    continue
                self.order.append(n.name)
        global CURRENT_MODULE
        CURRENT_MODULE = self
        self._nodes = {n.name: n for n in tree.body if isinstance(n, ast.FunctionDef)}
        for name in self.order:
            self.funcs[name] = Func(self._nodes[name], self)

    def call_mutates(self, call):
        """variables mutated by a call statement to a void function (or a FN variable)"""
        if not isinstance(call.func, ast.Name):
            return []
        fn = call.func.id
        res = []
        if fn in self.funcs and self.funcs[fn].ret == "V":
            f = self.funcs[fn]
            for p, a in zip(f.params, call.args):
                if p in f.mutated:
                    res.append(target_var(a) if not isinstance(a, ast.Name) else a.id)
            return res
        if fn.startswith("normalization_func"):
            # function-pointer call: normalisation functions mutate their first argument
            a = call.args[0]
            return [a.id if isinstance(a, ast.Name) else target_var(a)]
        if fn in self.funcs or fn in SKIP_FUNCS:
            return []
        raise TranslateError("call statement to unknown function %s" % fn)

    def emit(self):
        out = []
        out.append("(* GENERATED by /verif/tools/pyx2coq.py from %s — do not edit *)" % self.modname)
        out.append("From Coq Require Import ZArith List Bool Arith.")
        out.append("From GS Require Import Num Loops.")
        out.append("Import ListNotations.")
        out.append("")
        out.append("Section Gen.")
        out.append("Context {T : Type} (O : NumOps T).")
        out.append("")
        for name in self.order:
            out.append(FuncEmitter(self.funcs[name], self).emit())
            out.append("")
        out.append("End Gen.")
        return "\n".join(out) + "\n"


class FuncEmitter:
    def __init__(self, f, module):
        self.f = f
        self.m = module
        self.types = dict(f.types)
        self.loopvars = []
        self.sched_params = []

    # ---- types
    def ty(self, name):
        if name not in self.types:
            raise TranslateError("%s: variable %s has no declared type" % (self.f.name, name))
        return self.types[name]

    # ---- expressions: return (code, type)
    def lit_float(self, text):
        # decimal literal -> (p, k) with value p / 10^k
        t = text.lower()
        exp = 0
        if "e" in t:
            t, e = t.split("e")
            exp = int(e)
        if "." in t:
            a, b = t.split(".")
        else:
            a, b = t, ""
        p = int((a + b) or "0")
        k = len(b) - exp
        if k < 0:
            p *= 10 ** (-k)
            k = 0
        while k > 0 and p % 10 == 0:
            p //= 10
            k -= 1
        if p == 0:
            return "(n0 O)"
        if p == 1 and k == 0:
            return "(n1 O)"
        if p >= 2 ** 53 or k > 22:
            raise TranslateError("literal %s not exactly translatable" % text)
        return "(nlit O %d %d)" % (p, k)

    def to_F(self, ct):
        c, t = ct
        if t == "F":
            return c
        if t == "N":
            return "(nofZ O (Z.of_nat %s))" % c
        if t == "Z":
            return "(nofZ O %s)" % c
        if t == "LI":
            if int(c) == 0:
                return "(n0 O)"
            if int(c) == 1:
                return "(n1 O)"
            return "(nlit O %s 0)" % c if int(c) >= 0 else "(nneg O (nlit O %d 0))" % (-int(c))
        raise TranslateError("cannot convert %s to float" % t)

    def to_Z(self, ct):
        c, t = ct
        if t == "Z":
            return c
        if t == "N":
            return "(Z.of_nat %s)" % c
        if t == "LI":
            return "(%s)%%Z" % c
        raise TranslateError("cannot convert %s to Z" % t)

    def to_N(self, ct):
        c, t = ct
        if t == "N":
            return c
        if t == "LI":
            if int(c) < 0:
                raise TranslateError("negative nat literal")
            return "%s%%nat" % c
        raise TranslateError("cannot convert %s to nat" % t)

    def expr(self, e):
        if isinstance(e, ast.Constant):
            v = e.value
            if isinstance(v, bool):
                return ("true" if v else "false", "B")
            if isinstance(v, int):
                return (str(v), "LI")
            if isinstance(v, float):
                seg = ast.get_source_segment(self.m.src, e)
                return (self.lit_float(seg), "F")
            if isinstance(v, str) and len(v) == 1:
                return ("%d%%Z" % ord(v), "S")
            raise TranslateError("unsupported constant %r" % (v,))
        if isinstance(e, ast.Name):
            if e.id == "M_PI":
                return ("(npi O)", "F")
            if e.id in self.m.funcs:
                return ("(%s)" % e.id, "FN")
            return (e.id, self.ty(e.id))
        if isinstance(e, ast.UnaryOp):
            if isinstance(e.op, ast.Not):
                c, t = self.expr(e.operand)
                if t != "B":
                    raise TranslateError("not on non-bool")
                return ("(negb %s)" % c, "B")
            if isinstance(e.op, ast.USub):
                if isinstance(e.operand, ast.Constant) and isinstance(e.operand.value, float):
                    c, _ = self.expr(e.operand)
                    return ("(nneg O %s)" % c, "F")
                c, t = self.expr(e.operand)
                if t == "F":
                    return ("(nneg O %s)" % c, "F")
                if t == "LI":
                    return (str(-int(c)), "LI")
                if t == "Z":
                    return ("(Z.opp %s)" % c, "Z")
            raise TranslateError("unsupported unary op")
        if isinstance(e, ast.BoolOp):
            parts = [self.expr(v) for v in e.values]
            if any(t != "B" for _, t in parts):
                raise TranslateError("bool op on non-bool")
            op = "andb" if isinstance(e.op, ast.And) else "orb"
            c = parts[0][0]
            for p, _ in parts[1:]:
                c = "(%s %s %s)" % (op, c, p)
            return (c, "B")
        if isinstance(e, ast.BinOp):
            return self.binop(e)
        if isinstance(e, ast.Compare):
            return self.compare(e)
        if isinstance(e, ast.Subscript):
            return self.subscript(e)
        if isinstance(e, ast.Attribute):
            raise TranslateError("bare attribute %s" % ast.dump(e))
        if isinstance(e, ast.Call):
            return self.call(e)
        if isinstance(e, ast.Tuple):
            parts = [self.expr(x) for x in e.elts]
            return ("(" + ", ".join(c for c, _ in parts) + ")", "TUP")
        raise TranslateError("unsupported expression %s" % type(e).__name__)

    def shape_expr(self, e):
        """a.shape[k] -> nat"""
        if (
            isinstance(e, ast.Subscript)
            and isinstance(e.value, ast.Attribute)
            and e.value.attr == "shape"
            and isinstance(e.value.value, ast.Name)
            and isinstance(e.slice, ast.Constant)
        ):
            a = e.value.value.id
            t = self.ty(a)
            k = e.slice.value
            if t in ("F1", "Z1") and k == 0:
                return ("(length %s)" % a, "N")
            if t in ("F2", "Z2") and k == 0:
                return ("(shape0 %s)" % a, "N")
            if t in ("F2", "Z2") and k == 1:
                return ("(shape1 %s)" % a, "N")
        return None

    def subscript(self, e):
        sh = self.shape_expr(e)
        if sh:
            return sh
        if not isinstance(e.value, ast.Name):
            raise TranslateError("subscript of non-name")
        a = e.value.id
        t = self.ty(a)
        d = "(n0 O)" if t[0] == "F" else "0%Z"
        if t in ("F1", "Z1"):
            i = self.to_N(self.expr(e.slice))
            return ("(aget %s %s %s)" % (d, a, i), t[0])
        if t in ("F2", "Z2"):
            if not isinstance(e.slice, ast.Tuple) or len(e.slice.elts) != 2:
                raise TranslateError("2-D subscript needs two indices")
            i0, i1 = e.slice.elts
            if isinstance(i0, ast.Slice) and not isinstance(i1, ast.Slice):
                return ("(acol %s %s %s)" % (d, a, self.to_N(self.expr(i1))), t[0] + "1")
            if isinstance(i1, ast.Slice) and not isinstance(i0, ast.Slice):
                return ("(arow %s %s)" % (a, self.to_N(self.expr(i0))), t[0] + "1")
            return (
                "(aget2 %s %s %s %s)" % (d, a, self.to_N(self.expr(i0)), self.to_N(self.expr(i1))),
                t[0],
            )
        raise TranslateError("subscript of %s : %s" % (a, t))

    def binop(self, e):
        l, r = self.expr(e.left), self.expr(e.right)
        lt, rt = l[1], r[1]
        op = e.op
        if isinstance(op, ast.Pow):
            if lt == "F":
                return ("(npow O %s %s)" % (l[0], self.to_F(r)), "F")
            if lt == "Z" and rt == "LI":
                return ("(Z.pow %s %s)" % (l[0], r[0]), "Z")
            raise TranslateError("unsupported power")
        if "F" in (lt, rt):
            fn = {ast.Add: "nadd", ast.Sub: "nsub", ast.Mult: "nmul", ast.Div: "ndiv"}.get(type(op))
            if fn is None:
                raise TranslateError("unsupported float operator")
            return ("(%s O %s %s)" % (fn, self.to_F(l), self.to_F(r)), "F")
        if isinstance(op, ast.Div):
            raise TranslateError("integer division")
        if "Z" in (lt, rt):
            fn = {ast.Add: "Z.add", ast.Sub: "Z.sub", ast.Mult: "Z.mul"}.get(type(op))
            if fn is None:
                raise TranslateError("unsupported Z operator")
            return ("(%s %s %s)" % (fn, self.to_Z(l), self.to_Z(r)), "Z")
        if lt == "LI" and rt == "LI":
            raise TranslateError("literal-literal arithmetic")
        fn = {ast.Add: "Nat.add", ast.Sub: "Nat.sub", ast.Mult: "Nat.mul"}.get(type(op))
        if fn is None:
            raise TranslateError("unsupported nat operator")
        return ("(%s %s %s)" % (fn, self.to_N(l), self.to_N(r)), "N")

    def compare(self, e):
        if len(e.ops) != 1:
            raise TranslateError("chained comparison")
        l, r = self.expr(e.left), self.expr(e.comparators[0])
        op = e.ops[0]
        lt, rt = l[1], r[1]
        if "F" in (lt, rt):
            a, b = self.to_F(l), self.to_F(r)
            if isinstance(op, ast.Lt):
                return ("(nltb O %s %s)" % (a, b), "B")
            if isinstance(op, ast.Gt):
                return ("(nltb O %s %s)" % (b, a), "B")
            if isinstance(op, ast.LtE):
                return ("(nleb O %s %s)" % (a, b), "B")
            if isinstance(op, ast.GtE):
                return ("(nleb O %s %s)" % (b, a), "B")
            raise TranslateError("float (in)equality test")
        if "S" in (lt, rt):
            if isinstance(op, ast.Eq):
                return ("(Z.eqb %s %s)" % (l[0], r[0]), "B")
            raise TranslateError("string comparison")
        if "Z" in (lt, rt):
            a, b = self.to_Z(l), self.to_Z(r)
            fn = {ast.Eq: "Z.eqb", ast.Lt: "Z.ltb", ast.LtE: "Z.leb"}.get(type(op))
            if fn:
                return ("(%s %s %s)" % (fn, a, b), "B")
            if isinstance(op, ast.NotEq):
                return ("(negb (Z.eqb %s %s))" % (a, b), "B")
            raise TranslateError("unsupported Z comparison")
        a, b = self.to_N(l), self.to_N(r)
        fn = {ast.Eq: "Nat.eqb", ast.Lt: "Nat.ltb", ast.LtE: "Nat.leb"}.get(type(op))
        if fn:
            return ("(%s %s %s)" % (fn, a, b), "B")
        if isinstance(op, ast.NotEq):
            return ("(negb (Nat.eqb %s %s))" % (a, b), "B")
        if isinstance(op, ast.Gt):
            return ("(Nat.ltb %s %s)" % (b, a), "B")
        if isinstance(op, ast.GtE):
            return ("(Nat.leb %s %s)" % (b, a), "B")
        raise TranslateError("unsupported comparison")

    def call(self, e):
        if isinstance(e.func, ast.Attribute):
            # np.zeros / np.empty / np.asarray
            if isinstance(e.func.value, ast.Name) and e.func.value.id == "np":
                fn = e.func.attr
                if fn == "asarray":
                    return self.expr(e.args[0])
                if fn in ("zeros", "empty"):
                    is_int = any(
                        k.arg == "dtype" and "int64" in ast.dump(k.value) for k in e.keywords
                    )
                    z = "0%Z" if is_int else "(n0 O)"
                    b = "Z" if is_int else "F"
                    a = e.args[0]
                    if isinstance(a, ast.Tuple):
                        if len(a.elts) != 2:
                            raise TranslateError("zeros of rank > 2")
                        r, c = [self.to_N(self.expr(x)) for x in a.elts]
                        return ("(repeat (repeat %s %s) %s)" % (z, c, r), b + "2")
                    return ("(repeat %s %s)" % (z, self.to_N(self.expr(a))), b + "1")
            raise TranslateError("unsupported attribute call %s" % ast.dump(e.func))
        if not isinstance(e.func, ast.Name):
            raise TranslateError("unsupported call")
        fn = e.func.id
        if e.keywords:
            raise TranslateError("keyword arguments in call to %s" % fn)
        if fn in MATH1:
            (a,) = e.args
            return ("(%s O %s)" % (MATH1[fn], self.to_F(self.expr(a))), "F")
        if fn == "atan2":
            a, b = e.args
            return ("(natan2 O %s %s)" % (self.to_F(self.expr(a)), self.to_F(self.expr(b))), "F")
        if fn == "pow":
            a, b = e.args
            return ("(npow O %s %s)" % (self.to_F(self.expr(a)), self.to_F(self.expr(b))), "F")
        if fn == "isnan":
            (a,) = e.args
            return ("(nisnan O %s)" % self.to_F(self.expr(a)), "B")
        if fn == "max":
            a, b = [self.expr(x) for x in e.args]
            if "Z" in (a[1], b[1]):
                return ("(Z.max %s %s)" % (self.to_Z(a), self.to_Z(b)), "Z")
            raise TranslateError("max on non-Z")
        if fn == "len":
            (a,) = e.args
            if isinstance(a, ast.Name) and self.ty(a.id) in ("F1", "Z1"):
                return ("(length %s)" % a.id, "N")
            raise TranslateError("len of non-1D")
        if fn in self.m.funcs:
            f = self.m.funcs[fn]
            if len(e.args) != len(f.params):
                raise TranslateError("call to %s with defaulted arguments" % fn)
            args = []
            for p, a in zip(f.params, e.args):
                args.append(self.coerce(self.expr(a), f.types[p]))
            return ("(%s %s)" % (fn, " ".join(args)), f.ret or "TUP")
        if fn in self.types and self.types[fn] == "FN":
            # call through a function pointer: argument types are taken as they come
            args = []
            for a in e.args:
                c, t = self.expr(a)
                if t == "LI":
                    raise TranslateError("literal passed to function pointer")
                args.append(c)
            rt = {"estimator_func": "F", "distance": "F"}.get(fn, "TUP")
            return ("(%s %s)" % (fn, " ".join(args)), rt)
        raise TranslateError("call to unknown function %s" % fn)

    def coerce(self, ct, want):
        c, t = ct
        if want == "F":
            return self.to_F(ct)
        if want == "N":
            return self.to_N(ct)
        if want == "Z":
            return self.to_Z(ct)
        if want in ("B", "S", "F1", "F2", "Z1", "Z2", "FN"):
            if t != want:
                raise TranslateError("argument type %s where %s expected" % (t, want))
            return c
        raise TranslateError("cannot coerce to %s" % want)

    # ---- statements
    def block(self, stmts, kont, live_after, loop):
        """emit statements; ``kont`` = code of the value on normal completion.
        loop = dict(state=[names], brk=bool, head=set, exit=set) of the innermost loop or None"""
        if not stmts:
            return kont
        s, rest = stmts[0], stmts[1:]
        live_rest = live_before(rest, live_after, loop and loop["head"], loop and loop["exit"])
        if isinstance(s, ast.Pass) or (isinstance(s, ast.Expr) and isinstance(s.value, ast.Constant)):
            return self.block(rest, kont, live_after, loop)
        if isinstance(s, ast.AnnAssign):
            if s.value is None:
                return self.block(rest, kont, live_after, loop)
            if s.target.id in SKIP_VARS:
                return self.block(rest, kont, live_after, loop)
            return self.assign_name(s.target.id, s.value, rest, kont, live_after, loop)
        if isinstance(s, ast.Assign):
            t = s.targets[0]
            if isinstance(t, ast.Name):
                if t.id in SKIP_VARS:
                    return self.block(rest, kont, live_after, loop)
                return self.assign_name(t.id, s.value, rest, kont, live_after, loop)
            return self.assign_sub(t, self.expr(s.value), rest, kont, live_after, loop)
        if isinstance(s, ast.AugAssign):
            opn = ast.BinOp(left=s.target, op=s.op, right=s.value)
            ast.copy_location(opn, s)
            val = self.binop_nodes(s.target, s.op, s.value)
            if isinstance(s.target, ast.Name):
                c = self.coerce(val, self.ty(s.target.id))
                return "let %s := %s in\n%s" % (s.target.id, c, self.block(rest, kont, live_after, loop))
            return self.assign_sub(s.target, val, rest, kont, live_after, loop)
        if isinstance(s, ast.Continue):
            if rest:
                raise TranslateError("code after continue")
            return self.loop_state(loop, brk=None)
        if isinstance(s, ast.Break):
            if rest:
                raise TranslateError("code after break")
            return self.loop_state(loop, brk=True)
        if isinstance(s, ast.Raise):
            return "None"
        if isinstance(s, ast.Return):
            c, _ = self.expr(s.value)
            return ("Some %s" % c) if self.f.has_raise else c
        if isinstance(s, ast.Expr) and isinstance(s.value, ast.Call):
            return self.call_stmt(s.value, rest, kont, live_after, loop)
        if isinstance(s, ast.If):
            return self.if_stmt(s, rest, kont, live_after, live_rest, loop)
        if isinstance(s, ast.For):
            return self.for_stmt(s, rest, kont, live_after, live_rest, loop)
        raise TranslateError("unsupported statement %s" % type(s).__name__)

    def binop_nodes(self, left, op, right):
        e = ast.BinOp(left=left, op=op, right=right)
        return self.binop(e)

    def assign_name(self, name, value, rest, kont, live_after, loop):
        ct = self.expr(value)
        if name not in self.types:
            raise TranslateError("assignment to undeclared %s" % name)
        want = self.types[name]
        c = self.coerce(ct, want) if want not in ("FN",) else ct[0]
        return "let %s := %s in\n%s" % (name, c, self.block(rest, kont, live_after, loop))

    def assign_sub(self, t, val, rest, kont, live_after, loop):
        a = target_var(t)
        ty = self.ty(a)
        v = self.coerce(val, ty[0])
        if ty in ("F1", "Z1"):
            i = self.to_N(self.expr(t.slice))
            upd = "(aupd %s %s %s)" % (a, i, v)
        elif ty in ("F2", "Z2"):
            i0, i1 = t.slice.elts
            upd = "(aupd2 %s %s %s %s)" % (a, self.to_N(self.expr(i0)), self.to_N(self.expr(i1)), v)
        else:
            raise TranslateError("subscript assignment to %s" % ty)
        return "let %s := %s in\n%s" % (a, upd, self.block(rest, kont, live_after, loop))

    def call_stmt(self, call, rest, kont, live_after, loop):
        fn = call.func.id if isinstance(call.func, ast.Name) else None
        muts = self.m.call_mutates(call)
        if not muts:
            raise TranslateError("call statement without effect: %s" % fn)
        if len(muts) != 1:
            raise TranslateError("void function mutating several arrays")
        a0 = call.args[0]
        args = []
        for a in call.args:
            c, t = self.expr(a)
            args.append(c)
        res = "(%s %s)" % (fn, " ".join(args))
        if isinstance(a0, ast.Name):
            bind = "let %s := %s in\n" % (a0.id, res)
        else:
            # row view a[d, :] : write the row back
            arr = target_var(a0)
            i0, i1 = a0.slice.elts
            if not isinstance(i1, ast.Slice):
                raise TranslateError("unsupported view argument")
            bind = "let %s := (aupd %s %s %s) in\n" % (arr, arr, self.to_N(self.expr(i0)), res)
        return bind + self.block(rest, kont, live_after, loop)

    def loop_state(self, loop, brk):
        if loop is None:
            raise TranslateError("continue/break outside loop")
        names = list(loop["state"])
        if loop["brk"]:
            names = [("true" if brk else "brk")] + names
        return tup(names)

    def if_stmt(self, s, rest, kont, live_after, live_rest, loop):
        if isinstance(s.test, ast.Name) and s.test.id == "PARALLEL_BLOCK":
            return self.block(s.body + rest, kont, live_after, loop)
        c, t = self.expr(s.test)
        if t != "B":
            raise TranslateError("if on non-bool")
        body_exit = ends_with_exit(s.body)
        else_exit = ends_with_exit(s.orelse)
        if body_exit and not s.orelse:
            # guard: if c then EXIT else rest
            return "if %s then %s\nelse\n%s" % (
                c,
                self.block(s.body, "tt", live_rest, loop),
                self.block(rest, kont, live_after, loop),
            )
        if body_exit or else_exit:
            raise TranslateError("exit in one branch of if/else")
        outs = [v for v in assigned(s.body + s.orelse) if v in live_rest]
        has_raise = contains(s.body + s.orelse, ast.Raise)
        if contains(s.body + s.orelse, (ast.Continue, ast.Break, ast.Return)):
            raise TranslateError("non-tail exit inside if")
        k = tup(outs)
        if has_raise:
            b = self.block(s.body, "Some %s" % k, live_rest, loop)
            o = self.block(s.orelse, "Some %s" % k, live_rest, loop)
            b = self.fix_raise_branch(b)
            return "match (if %s then %s\nelse %s) with\n| None => None\n| Some %s =>\n%s\nend" % (
                c, b, o, pat(outs).lstrip("'"), self.block(rest, kont, live_after, loop))
        b = self.block(s.body, k, live_rest, loop)
        o = self.block(s.orelse, k, live_rest, loop)
        return "let %s := (if %s then %s\nelse %s) in\n%s" % (
            pat(outs), c, b, o, self.block(rest, kont, live_after, loop))

    @staticmethod
    def fix_raise_branch(b):
        return b

    def for_stmt(self, s, rest, kont, live_after, live_rest, loop):
        if not (isinstance(s.iter, ast.Call) and isinstance(s.iter.func, ast.Name)
                and s.iter.func.id in ("range", "prange")):
            raise TranslateError("for over non-range")
        if s.orelse:
            raise TranslateError("for-else")
        par = s.iter.func.id == "prange"
        args = [self.to_N(self.expr(a)) for a in s.iter.args]
        if len(args) == 1:
            lo, hi = "0", args[0]
        elif len(args) == 2:
            lo, hi = args
        else:
            raise TranslateError("range with step")
        v = s.target.id
        # loop-carried variables
        head = set(live_rest)
        while True:
            new = head | (live_before(s.body, head, head, live_rest) - {v})
            if new == head:
                break
            head = new
        carried = [x for x in assigned(s.body) if x in head]
        has_brk = contains_own_break(s.body)
        if par and has_brk:
            raise TranslateError("break in prange")
        inner = dict(state=carried, brk=has_brk, head=head, exit=set(live_rest))
        self.loopvars.append(v)
        st_names = (["brk"] if has_brk else []) + carried
        body = self.block(s.body, tup(st_names), head, inner)
        self.loopvars.pop()
        if has_brk:
            body = "if brk then %s else\n%s" % (tup(st_names), body)
        tys = [("bool" if n == "brk" else COQ_TYPE[self.ty(n)]) for n in st_names]
        if len(st_names) == 1:
            binder = "(%s : %s)" % (st_names[0], tys[0])
        elif len(st_names) == 0:
            binder = "(_ : unit)"
        else:
            binder = "'((%s) : %s)" % (", ".join(st_names), " * ".join("(%s)" % t for t in tys))
        fun = "(fun %s %s =>\n%s)" % (v, binder, body)
        init = tup((["false"] if has_brk else []) + carried)
        if par:
            enclosing = list(self.loopvars)
            idx = len(self.sched_params)
            self.sched_params.append(enclosing)
            sched = "(sched%s%s)" % ("" if idx == 0 else str(idx), "".join(" " + x for x in enclosing))
            loopc = "par_for %s %s %s %s %s" % (sched, lo, hi, fun, init)
        else:
            loopc = "for_ %s %s %s %s" % (lo, hi, fun, init)
        res_names = (["_"] if has_brk else []) + carried
        return "let %s := %s in\n%s" % (pat(res_names), loopc, self.block(rest, kont, live_after, loop))

    def emit(self):
        f = self.f
        kont = "tt"
        if f.ret == "V":
            kont = tup(f.mutated)
        body = self.block(f.body, kont, set(f.mutated) if f.ret == "V" else set(), None)
        params = " ".join("(%s : %s)" % (p, COQ_TYPE[f.types[p]]) for p in f.params)
        rt = self.ret_type()
        if rt:
            params += " : " + rt
        lines = []
        if self.sched_params:
            sp = []
            for i, enc in enumerate(self.sched_params):
                nm = "sched" + ("" if i == 0 else str(i))
                sp.append("(%s : %slist nat -> list nat)" % (nm, "nat -> " * len(enc)))
            lines.append("Definition %s_sched %s %s :=\n%s." % (f.name, " ".join(sp), params, indent(body)))
            ids = []
            for enc in self.sched_params:
                ids.append("(fun %sl => l)" % "".join("_ " for _ in enc))
            lines.append("Definition %s %s :=\n  %s_sched %s %s." % (
                f.name, params, f.name, " ".join(ids), " ".join(f.params)))
        else:
            lines.append("Definition %s %s :=\n%s." % (f.name, params, indent(body)))
        return "\n".join(lines)


def _ret_type(self):
    """Coq type of the returned value when it is a (tuple of) declared array/scalar name(s)"""
    rets = [n for n in ast.walk(self.f.node) if isinstance(n, ast.Return) and n.value is not None]
    if len(rets) != 1:
        return None

    def strip(e):
        if (isinstance(e, ast.Call) and isinstance(e.func, ast.Attribute) and e.func.attr == "asarray"):
            return e.args[0]
        return e

    v = strip(rets[0].value)
    elts = [strip(x) for x in v.elts] if isinstance(v, ast.Tuple) else [v]
    tys = []
    for x in elts:
        if not isinstance(x, ast.Name) or x.id not in self.types or self.types[x.id] not in COQ_TYPE:
            return None
        tys.append(COQ_TYPE[self.types[x.id]])
    t = " * ".join("(%s)" % t for t in tys) if len(tys) > 1 else tys[0]
    return ("option (%s)" % t) if self.f.has_raise else t


FuncEmitter.ret_type = _ret_type


def contains_own_break(stmts):
    """a break belonging to this loop (not to a nested one)"""
    for s in stmts:
        if isinstance(s, ast.Break):
            return True
        if isinstance(s, ast.If):
            if contains_own_break(s.body) or contains_own_break(s.orelse):
                return True
    return False


def indent(code, n=2):
    return "\n".join(" " * n + l for l in code.split("\n"))


def translate(pyx_path):
    src = open(pyx_path).read()
    py = pyx2py.convert(src)
    tree = ast.parse(py)
    m = Module.__new__(Module)
    m.src = py
    Module.__init__(m, tree, os.path.basename(pyx_path))
    return m.emit()


if __name__ == "__main__":
    for p in sys.argv[1:]:
        sys.stdout.write(translate(p))
