"""seed_matrix.py [PID ...]: run the registered checks against every confirmed seeded defect under /verif/seeded
(applied in the property's scratch worktree under /tmp/seed/<PID>, moved to /repo's HEAD) and record what happened in
seeded/<id>/result.json.  Seeds of one property run sequentially (they share a worktree); properties run in parallel."""
import json
import os
import subprocess
import sys
from concurrent.futures import ThreadPoolExecutor

V = "/verif"
# which checks are expected to see a seeded defect (default: the seed's own property)
ALSO = {"C15-2": ["C08"], "C13-2": ["C20"], "C18-2": ["C05", "C06"], "C12-2": ["C05"], "C07-1": ["C05"], "C02-2": ["C13"],
        "C01-1": ["C04"], "C05-1": ["C12"], "C01-4": ["C11"], "C08-3": ["C09"], "C08-4": ["C20"], "C18-4": ["C20"],
        "C07-5": ["C05"], "C12-5": ["C05"], "C04-3": ["C01"], "C06-1": ["C05"], "C14-5": ["C03"],
        # round 3 (k = 6..8)
        "C01-6": ["C11", "C12"], "C11-7": ["C01", "C12"], "C09-7": ["C08"], "C08-6": ["C09"], "C09-6": ["C20"], "C08-7": ["C09", "C13"],
        "C06-7": ["C05"], "C05-8": ["C06"], "C06-8": ["C05"], "C05-7": ["C06"], "C06-6": ["C05"], "C07-7": ["C12", "C05"],
        "C12-7": ["C07", "C05"], "C13-6": ["C05"], "C14-7": ["C12", "C20"], "C12-8": ["C14", "C20"], "C03-7": ["C14"], "C14-6": ["C03"],
        "C04-6": ["C03"], "C03-6": ["C04"], "C17-8": ["C20", "C12"], "C13-7": ["C09"], "C18-6": ["C05", "C06"], "C07-8": ["C20"],
        "C01-7": ["C04"], "C01-8": ["C04"], "C03-8": ["C02"], "C12-6": ["C14"], "C13-8": ["C05", "C12"], "C05-6": ["C18"]}


def run_seed(pid):
    out = []
    only = None
    if ":" in pid:                      # "C05:6,7,8" -> only those seeds
        pid, ks = pid.split(":")
        only = {"%s-%s" % (pid, k) for k in ks.split(",")}
    seeds = sorted(d for d in os.listdir(os.path.join(V, "seeded")) if d.startswith(pid + "-") and (only is None or d in only))
    for sd in seeds:
        k = sd.split("-")[1]
        res = {}
        for chk in [pid] + ALSO.get(sd, []):
            p = subprocess.run([os.path.join(V, "tools/try_seed.sh"), pid, k, chk], stdout=subprocess.PIPE, stderr=subprocess.STDOUT, text=True)
            txt = p.stdout
            if "PATCH DOES NOT APPLY" in txt:
                r = "patch-does-not-apply"
            elif "VIOLATION property=%s" % chk in txt:
                r = "caught (no-failing-input-found)" if "no-failing-input-found" in txt else "caught with failing input"
            elif "] OK" in txt:
                r = "MISSED"
            else:
                r = "unclear: " + txt[-300:]
            stage = [l for l in txt.splitlines() if "violation at" in l][:1]
            res[chk] = dict(result=r, first_report=(stage[0][:300] if stage else ""))
        json.dump(dict(seed=sd, repo_head=subprocess.run(["git", "-C", "/repo", "rev-parse", "--short", "HEAD"], stdout=subprocess.PIPE, text=True).stdout.strip(),
                       checks=res), open(os.path.join(V, "seeded", sd, "result.json"), "w"), indent=1)
        out.append((sd, {c: v["result"] for c, v in res.items()}))
        print(sd, {c: v["result"] for c, v in res.items()}, flush=True)
    return out


pids = sys.argv[1:] or sorted({d.split("-")[0] for d in os.listdir(os.path.join(V, "seeded")) if "-" in d})
with ThreadPoolExecutor(max_workers=int(os.environ.get("SEED_WORKERS", "4"))) as ex:
    list(ex.map(run_seed, pids))
