"""formula functions translated by py2coq on every run: (file relative to src/gstools, class, function, Coq name)"""
M = "covmodel/models.py"
TP = "covmodel/tpl_models.py"
N = "normalizer/methods.py"
A = "transform/array.py"
G = "tools/geometric.py"
S = "tools/special.py"
TABLE = [
    (S, None, "tplstable_cor", "tplstable_cor"), (S, None, "tpl_exp_spec_dens", "tpl_exp_spec_dens"),
    (S, None, "tpl_gau_spec_dens", "tpl_gau_spec_dens"), (S, None, "exp_int", "exp_int"), (S, None, "inc_gamma", "inc_gamma"),
    (M, "Gaussian", "cor", "Gaussian_cor"), (M, "Gaussian", "default_rescale", "Gaussian_default_rescale"),
    (M, "Gaussian", "spectral_density", "Gaussian_spectral_density"),
    (M, "Gaussian", "spectral_rad_cdf", "Gaussian_spectral_rad_cdf"), (M, "Gaussian", "spectral_rad_ppf", "Gaussian_spectral_rad_ppf"),
    (M, "Gaussian", "calc_integral_scale", "Gaussian_calc_integral_scale"),
    (M, "Exponential", "cor", "Exponential_cor"), (M, "Exponential", "spectral_density", "Exponential_spectral_density"),
    (M, "Exponential", "spectral_rad_cdf", "Exponential_spectral_rad_cdf"), (M, "Exponential", "spectral_rad_ppf", "Exponential_spectral_rad_ppf"),
    (M, "Exponential", "calc_integral_scale", "Exponential_calc_integral_scale"),
    (M, "Stable", "cor", "Stable_cor"), (M, "Stable", "calc_integral_scale", "Stable_calc_integral_scale"),
    (M, "Matern", "cor", "Matern_cor"), (M, "Matern", "spectral_density", "Matern_spectral_density"),
    (M, "Matern", "calc_integral_scale", "Matern_calc_integral_scale"),
    (M, "Integral", "cor", "Integral_cor"), (M, "Integral", "spectral_density", "Integral_spectral_density"),
    (M, "Integral", "calc_integral_scale", "Integral_calc_integral_scale"),
    (M, "Rational", "cor", "Rational_cor"), (M, "Rational", "calc_integral_scale", "Rational_calc_integral_scale"),
    (M, "Cubic", "cor", "Cubic_cor"), (M, "Linear", "cor", "Linear_cor"), (M, "Circular", "cor", "Circular_cor"),
    (M, "Spherical", "cor", "Spherical_cor"), (M, "HyperSpherical", "cor", "HyperSpherical_cor"),
    (M, "HyperSpherical", "spectral_density", "HyperSpherical_spectral_density"),
    (M, "SuperSpherical", "cor", "SuperSpherical_cor"), (M, "JBessel", "cor", "JBessel_cor"),
    (M, "JBessel", "spectral_density", "JBessel_spectral_density"),
    (TP, "TPLSimple", "cor", "TPLSimple_cor"), (TP, "TPLGaussian", "correlation", "TPLGaussian_correlation"),
    (TP, "TPLExponential", "correlation", "TPLExponential_correlation"), (TP, "TPLStable", "correlation", "TPLStable_correlation"),
    (N, "LogNormal", "_normalize", "LogNormal_normalize"), (N, "LogNormal", "_denormalize", "LogNormal_denormalize"),
    (N, "LogNormal", "_derivative", "LogNormal_derivative"),
    (N, "BoxCox", "_normalize", "BoxCox_normalize"), (N, "BoxCox", "_denormalize", "BoxCox_denormalize"), (N, "BoxCox", "_derivative", "BoxCox_derivative"),
    (N, "BoxCoxShift", "_normalize", "BoxCoxShift_normalize"), (N, "BoxCoxShift", "_denormalize", "BoxCoxShift_denormalize"),
    (N, "BoxCoxShift", "_derivative", "BoxCoxShift_derivative"),
    (N, "YeoJohnson", "_normalize", "YeoJohnson_normalize"), (N, "YeoJohnson", "_denormalize", "YeoJohnson_denormalize"),
    (N, "YeoJohnson", "_derivative", "YeoJohnson_derivative"),
    (N, "Modulus", "_normalize", "Modulus_normalize"), (N, "Modulus", "_denormalize", "Modulus_denormalize"), (N, "Modulus", "_derivative", "Modulus_derivative"),
    (N, "Manly", "_normalize", "Manly_normalize"), (N, "Manly", "_denormalize", "Manly_denormalize"), (N, "Manly", "_derivative", "Manly_derivative"),
    ("covmodel/tools.py", None, "rad_fac", "rad_fac"),
    (A, None, "array_to_lognormal", "array_to_lognormal"), (A, None, "array_zinnharvey", "array_zinnharvey"),
    (A, None, "array_boxcox", "array_boxcox"),
    (A, None, "_uniform_to_arcsin", "uniform_to_arcsin"), (A, None, "_uniform_to_uquad", "uniform_to_uquad"),
    (G, None, "great_circle_to_chordal", "great_circle_to_chordal"), (G, None, "chordal_to_great_circle", "chordal_to_great_circle"),
]
