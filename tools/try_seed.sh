#!/bin/sh
# try_seed.sh <SEEDPID> <k> <CHECKID> [tier]: run check CHECKID against seeded defect k of SEEDPID, applied in its scratch
# worktree moved to /repo's current HEAD (so that the fix: commits are present). Leaves the worktree clean.
wt=/tmp/seed/$1
head=$(git -C /repo rev-parse HEAD)
git -C $wt reset -q --hard 2>/dev/null; git -C $wt checkout -q --detach $head || exit 3
if ! git -C $wt apply $wt/SEED/patch$2.diff 2>/tmp/seed/apply_err.txt && ! git -C $wt apply --3way $wt/SEED/patch$2.diff 2>>/tmp/seed/apply_err.txt; then echo "PATCH DOES NOT APPLY: $(cat /tmp/seed/apply_err.txt | tail -2)"; git -C $wt reset -q --hard; exit 3; fi
git -C $wt reset -q
echo "== seeded $1-$2 vs check $3"
VERIF_REPO=$wt /verif/check $3 --tier ${4:-quick} 2>&1 | grep -v "^KNOWN-FINDING" | tail -4 | cut -c1-260
git -C $wt checkout -q -- .
