"""confirm_seed.py <worktree> <k> <dest>: confirm a seeded defect produced by a sub-agent in its scratch worktree:
demo passes on the clean tree, fails with the patch, the full test suite passes with the patch; then store it
under /verif/seeded/<dest>/ (patch.diff, demo.py, meta.json with what was run)."""
import json
import os
import shutil
import subprocess
import sys
import time

wt, k, dest = sys.argv[1], sys.argv[2], sys.argv[3]
seed = os.path.join(wt, "SEED")
env = dict(os.environ, PYTHONPATH=os.path.join(wt, "src"), PYTHONHASHSEED="0")


def run(cmd, **kw):
    p = subprocess.run(cmd, cwd=wt, env=env, stdout=subprocess.PIPE, stderr=subprocess.STDOUT, text=True, **kw)
    return p.returncode, p.stdout


def git(*a):
    return run(["git"] + list(a))


git("checkout", "--", ".")
head = subprocess.run(["git", "-C", "/repo", "rev-parse", "HEAD"], stdout=subprocess.PIPE, text=True).stdout.strip()
git("checkout", "-q", "--detach", head)   # confirm against /repo's current HEAD (with all fix: commits)
assert git("status", "--porcelain", "--untracked-files=no")[1].strip() == "", "worktree not clean"
demo = os.path.join(seed, "demo%s.py" % k)
patch = os.path.join(seed, "patch%s.diff" % k)
rc0, out0 = run(["/venv/bin/python", demo], timeout=1800)
rc, o = git("apply", patch)
assert rc == 0, o
try:
    rc1, out1 = run(["/venv/bin/python", demo], timeout=1800)
    t0 = time.time()
    rct, outt = run(["/venv/bin/python", "-m", "pytest", "-q", "-p", "no:cacheprovider", "--timeout=900", "-x", "tests/"], timeout=3000)
    tsum = [l for l in outt.splitlines() if " passed" in l or " failed" in l or "error" in l.lower()][-1:]
finally:
    git("checkout", "--", ".")
ok = (rc0 == 0) and (rc1 != 0) and (rct == 0)
meta = json.load(open(os.path.join(seed, "meta%s.json" % k)))
meta["confirmed"] = dict(demo_clean_exit=rc0, demo_patched_exit=rc1, demo_patched_tail=out1.strip().splitlines()[-3:],
                         testsuite_exit_with_patch=rct, testsuite_summary=tsum, testsuite_s=round(time.time() - t0),
                         base_commit=git("rev-parse", "HEAD")[1].strip(),
                         commands=["PYTHONPATH=<wt>/src /venv/bin/python demo.py   (clean: exit 0; patched: exit != 0)",
                                   "git apply patch.diff; PYTHONPATH=<wt>/src /venv/bin/python -m pytest -q -p no:cacheprovider --timeout=900 tests/"])
print(json.dumps(dict(dest=dest, ok=ok, **meta["confirmed"]), indent=1))
if ok:
    d = os.path.join("/verif/seeded", dest)
    os.makedirs(d, exist_ok=True)
    shutil.copy(patch, os.path.join(d, "patch.diff"))
    shutil.copy(demo, os.path.join(d, "demo.py"))
    json.dump(meta, open(os.path.join(d, "meta.json"), "w"), indent=1)
sys.exit(0 if ok else 1)
