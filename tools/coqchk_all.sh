#!/bin/sh
# independent re-check of every compiled props file (and everything it depends on) with coqchk; prints the axioms relied on
cd /verif/coq || exit 1
mods=$(ls props/*.v | sed 's|props/\(.*\)\.v|GS.props.\1|')
ulimit -s unlimited 2>/dev/null
timeout 7200 coqchk -silent -o -R . GS $mods
