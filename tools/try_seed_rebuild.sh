#!/bin/sh
# try_seed_rebuild.sh <SEEDDIR> <k> <dest> <check> [<check>...]: seeded defect that edits generated C/C++ and needs the .so
# rebuilt (command in meta<k>.json "rebuild"). Applies it in a FRESH scratch worktree at /repo HEAD, rebuilds, runs the demo
# and the test suite (confirmation), then the given checks through VERIF_REPO, and removes the worktree.
sd=$1; k=$2; dest=$3; shift 3
wt=/tmp/seedrb_$dest
git -C /repo worktree remove --force $wt >/dev/null 2>&1
/verif/tools/scratch_repo.sh $wt >/dev/null || exit 3
cd $wt
PYTHONPATH=$wt/src /venv/bin/python $sd/demo$k.py >/tmp/seedrb_${dest}_clean.log 2>&1; echo "demo clean rc=$?"
git apply $sd/patch$k.diff || { echo "PATCH DOES NOT APPLY"; git -C /repo worktree remove --force $wt; exit 3; }
cmd=$(/venv/bin/python -c "import json,sys; print(json.load(open('$sd/meta$k.json'))['rebuild'].replace('<checkout>','$wt'))")
sh -c "$cmd" || { echo "REBUILD FAILED"; git -C /repo worktree remove --force $wt; exit 3; }
PYTHONPATH=$wt/src /venv/bin/python $sd/demo$k.py >/tmp/seedrb_${dest}_patched.log 2>&1; echo "demo patched rc=$?"
PYTHONPATH=$wt/src /venv/bin/python -m pytest -q -p no:cacheprovider --timeout=900 tests/ 2>&1 | tail -1
for c in "$@"; do
  echo "== seeded $dest vs check $c"
  VERIF_REPO=$wt /verif/check $c 2>&1 | grep -v "^KNOWN-FINDING" | tail -4 | cut -c1-260
done
cd /; git -C /repo worktree remove --force $wt
