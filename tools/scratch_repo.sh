#!/bin/sh
# scratch_repo.sh <dir> : a scratch git worktree of /repo (HEAD) including the untracked compiled kernels,
# for trying code changes without touching /repo.  Remove with: git -C /repo worktree remove --force <dir>
set -e
d="$1"
git -C /repo worktree add --detach "$d" HEAD >/dev/null 2>&1
for f in field/summator krige/krigesum variogram/estimator; do
  for e in c cpp cpython-312-x86_64-linux-gnu.so; do
    [ -f /repo/src/gstools/$f.$e ] && cp /repo/src/gstools/$f.$e "$d/src/gstools/$f.$e"
  done
done
echo "$d"
