"""assemble MANIFEST.json from manifest.d/Cxx.json fragments and known_findings.json from
known_findings.d/*.json (development-time only; checks never write these files)"""
import json
import os

V = os.path.dirname(os.path.dirname(os.path.abspath(__file__)))
props = [json.loads(l) for l in open(os.path.join(V, "properties.jsonl"))]
checks, na = [], []
for p in props:
    pid = p["id"]
    f = os.path.join(V, "manifest.d", pid + ".json")
    if os.path.exists(f):
        c = json.load(open(f))
        c.setdefault("property_id", pid)
        c.setdefault("quick_cmd", "./check %s --tier quick" % pid)
        c.setdefault("thorough_cmd", "./check %s --tier thorough" % pid)
        c.setdefault("evidence_file", "/verif/evidence/%s.json" % pid)
        c.setdefault("replay_cmd_template", "./check %s --replay {path}" % pid)
        c.setdefault("engine", "coq-model-and-correspondence")
        checks.append(c)
    else:
        na.append({"property_id": pid, "reason": "check not built yet (work in progress, see DESIGN.md section 10)"})
m = {
    "version": 1,
    "setup_cmd": "./setup.sh",
    "hooks": {"guard": "GSTOOLS_VERIF", "enable": "no hooks: checks read /repo's working tree as it is (private attributes, wrapped optimiser/RNG inside the harness process)",
              "baseline_off_cmd": "cd /repo && /venv/bin/python -m pytest -ra -q -p no:cacheprovider --timeout=900 --continue-on-collection-errors",
              "source_commits": [], "add_only": True},
    "engines": [{"name": "coq-model-and-correspondence", "path": "/verif/check",
                 "serves_properties": [c["property_id"] for c in checks],
                 "kind_free_text": "Coq 8.16 theorems about Gallina models (translated from the sources on every run, or hand-written and compared with the implementation by executing the extracted model), plus direct probes of the implementation used as failing-input search"}],
    "checks": checks,
    "not_applicable": na,
    "notes": "see DESIGN.md; every check = regenerate/translate -> make proofs -> correspondence -> probes -> evidence",
}
json.dump(m, open(os.path.join(V, "MANIFEST.json"), "w"), indent=1)
kf = []
d = os.path.join(V, "known_findings.d")
for f in sorted(os.listdir(d)):
    if f.endswith(".json"):
        kf += json.load(open(os.path.join(d, f)))
json.dump({"findings": kf}, open(os.path.join(V, "known_findings.json"), "w"), indent=1)
print("checks:", [c["property_id"] for c in checks], "findings:", len(kf))
