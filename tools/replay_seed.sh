#!/bin/sh
# replay_seed.sh <PID>-<k> [CHECKID] [tier]: run a check against a stored seeded defect (seeded/<PID>-<k>/patch.diff) in a FRESH scratch
# worktree of /repo at its current HEAD (removed afterwards). Seeds whose meta.json has a "rebuild" command (generated C) need
# tools/try_seed_rebuild.sh instead.
sd=$1; pid=${sd%%-*}; chk=${2:-$pid}; tier=${3:-quick}
wt=/tmp/replay_seed_$sd
git -C /repo worktree remove --force $wt >/dev/null 2>&1
/verif/tools/scratch_repo.sh $wt >/dev/null || exit 3
if ! git -C $wt apply /verif/seeded/$sd/patch.diff; then echo "PATCH DOES NOT APPLY"; git -C /repo worktree remove --force $wt; exit 3; fi
echo "== seeded $sd vs check $chk ($tier)"
VERIF_REPO=$wt /verif/check $chk --tier $tier 2>&1 | grep -v "^KNOWN-FINDING" | tail -4 | cut -c1-300
git -C /repo worktree remove --force $wt
rm -rf /verif/build/alt-*
