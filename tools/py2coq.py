"""py2coq: translate whitelisted straight-line numpy *formula functions* of GSTools into generic scalar Gallina
(FAIL-CLOSED).  The output (coq/gen/Formulas_gen.v) is regenerated from /repo's current sources on every run; the
hand-written models are proved equal to these generated terms (coq/cNN/CNN_Tie.v), so a change of a formula in the
source breaks a Coq proof, not only a sampled comparison.

Semantics assumed (this table is the trusted definition of the subset):
  * numpy ufuncs act elementwise: an array argument is modelled by ONE scalar of type T (the function is pointwise)
  * float64 arithmetic  -> fields of NumOps T;  decimal literal p/10^k -> nlit O p k;  integer literal n -> nlit O n 0
  * `self.<attr>` (and other free names listed as parameters) -> parameters of type T, in the order of first use
  * x ** y -> npow O x y   (C pow);  np.power likewise;  np.sqrt/exp/log/abs/cos/sin/arccos/arcsin/arctan/tan -> NumOps
  * np.minimum/np.maximum(a, b) -> fmin/fmax O a b  (defined in coq/lib/Formulas.v by one comparison, like C fmin/fmax
    without NaN special-casing: modelled-not-verified for NaN arguments)
  * np.isclose(a, b) -> fisclose O a b = |a-b| <= 1e-8 + 1e-5*|b|
  * comparisons -> nltb/nleb;  np.logical_not/and/or -> negb/andb/orb;  np.where(c, a, b) -> if c then a else b
  * scipy.special / gstools.tools.special functions -> noracle O ORA_* [args]   (opaque oracles)
  * np.asarray(x, dtype=np.double), np.array(x, ...), float(x) -> x;  np.empty_like -> 0 (cells assumed assigned before read)
  * np.log1p(x) -> ln(1+x), np.expm1(x) -> exp(x)-1 (exact over R; the generated terms serve proofs over R)
  * calls to module-level functions translated earlier in the table -> application of the generated definition
  * masked assignment idiom:  res = np.zeros_like(h) | np.ones_like(h) | np.full_like(h, c);  m = <bool expr>;
    hm = h[m];  res[m] = e(hm)   ->   res := if m then e(h) else res.   A name bound by mask-indexing may only be used
    inside an assignment through the SAME mask (otherwise: TranslateError)
  * `if <scalar condition on parameters>: return e` -> if c then e else <rest>
Anything else raises TranslateError.
"""
import ast
import os
import sys
import textwrap

sys.path.insert(0, os.path.dirname(os.path.abspath(__file__)))


class TranslateError(Exception):
    pass


ORACLES = {  # attribute/function name -> (oracle code name, arity)
    "gamma": ("ORA_GAMMA", 1), "kv": ("ORA_KV", 2), "jv": ("ORA_JV", 2), "hyp2f1": ("ORA_HYP2F1", 4),
    "exp_int": ("ORA_EXPN", 2), "inc_gamma": ("ORA_INCGAMMA", 2), "erf": ("ORA_ERF", 1), "erfinv": ("ORA_ERFINV", 1),
    "loggamma": ("ORA_LOGGAMMA", 1), "inc_gamma_low": ("ORA_INCGAMMA_LOW", 2), "erfc": ("ORA_ERFC", 1),
    "beta": ("ORA_BETA", 2), "inc_beta": ("ORA_INCBETA", 3),
}
UN = {"exp": "nexp", "log": "nln", "sqrt": "nsqrt", "abs": "nabs", "absolute": "nabs", "fabs": "nabs", "cos": "ncos",
      "sin": "nsin", "arccos": "nacos", "arcsin": "nasin", "arctan": "natan"}
IDENT = {"asarray", "asanyarray", "array", "atleast_1d", "double", "float64", "copy"}
KNOWN_FUNCS = {}   # python function name -> Coq name of an already translated module-level function (no self parameters)


def mkey(e):
    return ast.dump(e)


def lit(text_or_val):
    if isinstance(text_or_val, bool):
        raise TranslateError("bool literal in numeric context")
    if isinstance(text_or_val, int):
        v = text_or_val
        if v == 0:
            return "(n0 O)"
        if v == 1:
            return "(n1 O)"
        return "(nlit O %d 0)" % v if v > 0 else "(nneg O (nlit O %d 0))" % (-v)
    t = str(text_or_val).lower().replace("_", "")
    exp = 0
    if "e" in t:
        t, e = t.split("e")
        exp = int(e)
    a, b = (t.split(".") + [""])[:2] if "." in t else (t, "")
    p = int((a + b) or "0")
    k = len(b) - exp
    if k < 0:
        p *= 10 ** (-k)
        k = 0
    while k > 0 and p % 10 == 0:
        p //= 10
        k -= 1
    if p == 0:
        return "(n0 O)"
    if p == 1 and k == 0:
        return "(n1 O)"
    if p >= 2 ** 53 or k > 22:
        raise TranslateError("literal %s not exactly translatable" % text_or_val)
    return "(nlit O %d %d)" % (p, k)


class Fn:
    def __init__(self, src, node, name, opts=None):
        opts = opts or {}
        self.given = set(opts.get("given", []))     # optional arguments that are passed (not None)
        self.static = dict(opts.get("static", {}))  # arguments fixed to a constant (e.g. string selectors)
        self.is_range = bool(opts.get("range"))     # returns (low, high) with -inf/+inf rendered as None
        self.src = src
        self.node = node
        self.name = name
        self.params = []          # T-valued parameters in order of first use (self.x -> x)
        self.args = [a.arg for a in node.args.args if a.arg != "self" and a.arg not in self.static]
        self.defaults = {}
        pos = [a.arg for a in node.args.args]
        for a, d in zip(pos[len(pos) - len(node.args.defaults):], node.args.defaults):
            self.defaults[a] = d
        self.masked = {}          # name -> mask expr string it was indexed with
        self.env = {}             # local name -> coq name (shadowing by let)
        self.bools = set()        # local names holding booleans
        self.consts = {}          # loop variables of unrolled loops -> integer value
        self.optional = any(isinstance(n, ast.Return) and isinstance(n.value, ast.Constant) and n.value.value is None
                            for n in ast.walk(node))

    def static_test(self, e):
        """`x is None` / `x is not None` for optional arguments, `x == "str"` for static selectors"""
        if not (isinstance(e, ast.Compare) and len(e.ops) == 1 and isinstance(e.left, ast.Name)):
            return None
        n, o, r = e.left.id, e.ops[0], e.comparators[0]
        if isinstance(r, ast.Constant) and r.value is None and isinstance(o, (ast.Is, ast.IsNot)) and n in self.defaults:
            d = self.defaults[n]
            isnone = (isinstance(d, ast.Constant) and d.value is None) and n not in self.given
            if n in self.given or not (isinstance(d, ast.Constant) and d.value is None):
                isnone = False
            return isnone if isinstance(o, ast.Is) else not isnone
        if n in self.static and isinstance(r, ast.Constant) and isinstance(o, (ast.Eq, ast.NotEq)) \
                and not isinstance(r.value, bool):
            return (self.static[n] == r.value) if isinstance(o, ast.Eq) else (self.static[n] != r.value)
        return None

    def is_mask(self, e):
        try:
            return self.ex(e, None)[1] == "B"
        except TranslateError:
            return False

    def param(self, name):
        if name not in self.params:
            self.params.append(name)
        return name

    # ---- expressions -> (code, kind) with kind in {"T", "B"}
    def ex(self, e, mask=None):
        if isinstance(e, ast.Constant):
            if isinstance(e.value, bool):
                return ("true" if e.value else "false", "B")
            if isinstance(e.value, int):
                return (lit(e.value), "T")
            if isinstance(e.value, float):
                return (lit(ast.get_source_segment(self.src, e)), "T")
            raise TranslateError("constant %r" % (e.value,))
        if isinstance(e, ast.Name):
            if e.id in self.masked:
                if mask is None or self.masked[e.id] != mask:
                    raise TranslateError("mask-bound name %s used outside its mask" % e.id)
                return (e.id, "T")
            if e.id in self.consts:
                return (lit(self.consts[e.id]), "T")
            if e.id in self.bools:
                return (e.id, "B")
            if e.id in self.env or e.id in self.args:
                return (e.id, "T")
            raise TranslateError("free name %s" % e.id)
        if isinstance(e, ast.Attribute):
            if isinstance(e.value, ast.Name) and e.value.id == "self":
                return (self.param(e.attr), "T")
            if isinstance(e.value, ast.Name) and e.value.id in ("np", "numpy", "math") and e.attr == "pi":
                return ("(npi O)", "T")
            if isinstance(e.value, ast.Name) and e.value.id in ("np", "numpy") and e.attr == "inf":
                return ("(ndiv O (n1 O) (n0 O))", "T")
            raise TranslateError("attribute %s" % ast.dump(e))
        if isinstance(e, ast.UnaryOp):
            if isinstance(e.op, ast.USub):
                c, k = self.ex(e.operand, mask)
                return ("(nneg O %s)" % c, "T")
            if isinstance(e.op, ast.UAdd):
                return self.ex(e.operand, mask)
            if isinstance(e.op, (ast.Not, ast.Invert)):
                c, k = self.ex(e.operand, mask)
                if k != "B":
                    raise TranslateError("not/invert on non-boolean")
                return ("(negb %s)" % c, "B")
            raise TranslateError("unary op")
        if isinstance(e, ast.BinOp):
            l, _ = self.ex(e.left, mask)
            r, _ = self.ex(e.right, mask)
            op = {ast.Add: "nadd", ast.Sub: "nsub", ast.Mult: "nmul", ast.Div: "ndiv", ast.Pow: "npow"}.get(type(e.op))
            if op is None:
                raise TranslateError("operator %s" % type(e.op).__name__)
            return ("(%s O %s %s)" % (op, l, r), "T")
        if isinstance(e, ast.Compare):
            if len(e.ops) != 1:
                raise TranslateError("chained comparison")
            st = self.static_test(e)
            if st is not None:
                return ("true" if st else "false", "B")
            l, _ = self.ex(e.left, mask)
            r, _ = self.ex(e.comparators[0], mask)
            o = e.ops[0]
            if isinstance(o, ast.Lt):
                return ("(nltb O %s %s)" % (l, r), "B")
            if isinstance(o, ast.Gt):
                return ("(nltb O %s %s)" % (r, l), "B")
            if isinstance(o, ast.LtE):
                return ("(nleb O %s %s)" % (l, r), "B")
            if isinstance(o, ast.GtE):
                return ("(nleb O %s %s)" % (r, l), "B")
            if isinstance(o, ast.Eq):
                return ("(neqb O %s %s)" % (l, r), "B")
            if isinstance(o, ast.NotEq):
                return ("(negb (neqb O %s %s))" % (l, r), "B")
            raise TranslateError("comparison")
        if isinstance(e, ast.BoolOp):
            parts = [self.ex(v, mask)[0] for v in e.values]
            op = "andb" if isinstance(e.op, ast.And) else "orb"
            c = parts[0]
            for p in parts[1:]:
                c = "(%s %s %s)" % (op, c, p)
            return (c, "B")
        if isinstance(e, ast.Subscript):
            # h[m] with m a boolean expression (elementwise mask)
            if isinstance(e.value, ast.Name) and self.is_mask(e.slice):
                if mask is None or mask != mkey(e.slice):
                    raise TranslateError("mask indexing %s[...] outside an assignment through that mask" % e.value.id)
                return self.ex(e.value, None)
            raise TranslateError("subscript")
        if isinstance(e, ast.Call):
            return self.call(e, mask)
        if isinstance(e, ast.IfExp):
            st = self.static_test(e.test)
            if st is not None:
                return self.ex(e.body if st else e.orelse, mask)
            c, _ = self.ex(e.test, mask)
            a, ka = self.ex(e.body, mask)
            b, kb = self.ex(e.orelse, mask)
            return ("(if %s then %s else %s)" % (c, a, b), ka)
        raise TranslateError("expression %s" % type(e).__name__)

    def call(self, e, mask):
        f = e.func
        fname = f.attr if isinstance(f, ast.Attribute) else (f.id if isinstance(f, ast.Name) else None)
        if fname is None:
            raise TranslateError("call")
        args = e.args
        kws = {k.arg for k in e.keywords}
        if kws - {"dtype", "out", "where", "copy", "ndmin"}:
            raise TranslateError("keyword arguments %s in %s" % (kws, fname))
        if fname == "divide" and kws == {"out", "where"} and len(args) == 2:
            kw = {k.arg: k.value for k in e.keywords}
            o = kw["out"]
            if isinstance(o, ast.Call) and getattr(o.func, "attr", None) == "full_like" and len(o.args) == 2:
                return ("(if %s then (ndiv O %s %s) else %s)" % (self.ex(kw["where"], mask)[0], self.ex(args[0], mask)[0],
                                                                  self.ex(args[1], mask)[0], self.ex(o.args[1], mask)[0]), "T")
        if "out" in kws or "where" in kws:
            raise TranslateError("out=/where= in %s" % fname)
        if fname in ("add", "subtract", "multiply", "divide") and len(args) == 2:
            op = {"add": "nadd", "subtract": "nsub", "multiply": "nmul", "divide": "ndiv"}[fname]
            return ("(%s O %s %s)" % (op, self.ex(args[0], mask)[0], self.ex(args[1], mask)[0]), "T")
        if fname == "log1p" and len(args) == 1:
            return ("(flog1p O %s)" % self.ex(args[0], mask)[0], "T")
        if fname == "expm1" and len(args) == 1:
            return ("(fexpm1 O %s)" % self.ex(args[0], mask)[0], "T")
        if fname in KNOWN_FUNCS:
            cands = [c for c in KNOWN_FUNCS[fname] if len(c[1]) == len(args)] or \
                    [c for c in KNOWN_FUNCS[fname] if len(args) < len(c[1]) and all(a in c[2] for a in c[1][len(args):])]
            if e.keywords or not cands:
                raise TranslateError("call to %s with keywords / unsupported arity" % fname)
            cname, cargs, cdefs = cands[0]
            codes = [self.ex(a, mask)[0] for a in args]
            for an in cargs[len(args):]:
                if an not in cdefs:
                    raise TranslateError("call to %s: missing argument %s" % (fname, an))
                codes.append(cdefs[an])
            return ("(%s %s)" % (cname, " ".join(codes)), "T")
        if fname in IDENT or fname == "float":
            return self.ex(args[0], mask)
        if fname in UN and len(args) == 1:
            return ("(%s O %s)" % (UN[fname], self.ex(args[0], mask)[0]), "T")
        if fname == "tan" and len(args) == 1:
            a = self.ex(args[0], mask)[0]
            return ("(ndiv O (nsin O %s) (ncos O %s))" % (a, a), "T")
        if fname == "power" and len(args) == 2:
            return ("(npow O %s %s)" % (self.ex(args[0], mask)[0], self.ex(args[1], mask)[0]), "T")
        if fname in ("minimum", "maximum") and len(args) == 2:
            return ("(%s O %s %s)" % ("fmin" if fname == "minimum" else "fmax", self.ex(args[0], mask)[0], self.ex(args[1], mask)[0]), "T")
        if fname == "isclose" and len(args) == 2 and not e.keywords:
            return ("(fisclose O %s %s)" % (self.ex(args[0], mask)[0], self.ex(args[1], mask)[0]), "B")
        if fname == "logical_not" and len(args) == 1:
            return ("(negb %s)" % self.ex(args[0], mask)[0], "B")
        if fname in ("logical_and", "logical_or") and len(args) == 2:
            return ("(%s %s %s)" % ("andb" if fname.endswith("and") else "orb", self.ex(args[0], mask)[0], self.ex(args[1], mask)[0]), "B")
        if fname == "where" and len(args) == 3:
            return ("(if %s then %s else %s)" % (self.ex(args[0], mask)[0], self.ex(args[1], mask)[0], self.ex(args[2], mask)[0]), "T")
        if fname == "sign" and len(args) == 1:
            a = self.ex(args[0], mask)[0]
            return ("(fsign O %s)" % a, "T")
        if fname in ("min", "max", "mean", "var", "sum", "std"):
            raise TranslateError("reduction %s" % fname)
        if fname in ("zeros_like", "empty_like"):   # empty_like: every cell is assumed assigned before it is read
            return ("(n0 O)", "T")
        if fname in ("ones_like",):
            return ("(n1 O)", "T")
        if fname == "full_like" and len(args) == 2:
            return self.ex(args[1], mask)
        if fname in ORACLES:
            code, ar = ORACLES[fname]
            if len(args) != ar:
                raise TranslateError("oracle %s arity" % fname)
            return ("(noracle O %s [%s])" % (code, "; ".join(self.ex(a, mask)[0] for a in args)), "T")
        raise TranslateError("call to %s" % fname)

    def masks_in(self, e):
        out = []
        for n in ast.walk(e):
            if isinstance(n, ast.Subscript) and self.is_mask(n.slice) and mkey(n.slice) not in out:
                out.append(mkey(n.slice))
            if isinstance(n, ast.Name) and n.id in self.masked and self.masked[n.id] not in out:
                out.append(self.masked[n.id])
        return out

    # ---- statements
    def block(self, stmts):
        if not stmts:
            raise TranslateError("function falls off its end")
        s, rest = stmts[0], stmts[1:]
        if isinstance(s, ast.Expr) and isinstance(s.value, ast.Constant):
            return self.block(rest)
        if isinstance(s, ast.Return):
            if isinstance(s.value, ast.Constant) and s.value.value is None:
                if not self.optional:
                    raise TranslateError("return None")
                return "None"
            if self.is_range:
                if not (isinstance(s.value, ast.Tuple) and len(s.value.elts) == 2):
                    raise TranslateError("range function must return a 2-tuple")
                parts = []
                for el in s.value.elts:
                    d = ast.dump(el)
                    if "attr='inf'" in d and isinstance(el, (ast.Attribute, ast.UnaryOp)):
                        parts.append("None")
                    else:
                        parts.append("Some %s" % self.ex(el)[0])
                return "(%s, %s)" % tuple(parts)
            c = self.ex(s.value)[0]
            return ("Some %s" % c) if self.optional else c
        if isinstance(s, ast.Assign) and len(s.targets) == 1:
            t = s.targets[0]
            if isinstance(t, ast.Name):
                v = s.value
                try:
                    c, k = self.ex(v)
                except TranslateError as err:
                    # a value computed from mask-indexed data (hm = h[m]; x = (h[m] / 2) ** 2): bound to that mask
                    for m in self.masks_in(v):
                        try:
                            c, k = self.ex(v, mask=m)
                        except TranslateError:
                            continue
                        self.masked[t.id] = m
                        self.env.pop(t.id, None)
                        return "let %s := %s in\n%s" % (t.id, c, self.block(rest))
                    raise err
                if k == "B":
                    self.bools.add(t.id)
                else:
                    self.bools.discard(t.id)
                    self.env[t.id] = t.id
                    self.masked.pop(t.id, None)
                return "let %s := %s in\n%s" % (t.id, c, self.block(rest))
            if isinstance(t, ast.Subscript) and isinstance(t.value, ast.Name) and t.value.id in self.env and self.is_mask(t.slice):
                m = mkey(t.slice)
                mc = self.ex(t.slice)[0]
                c, _ = self.ex(s.value, mask=m)
                return "let %s := (if %s then %s else %s) in\n%s" % (t.value.id, mc, c, t.value.id, self.block(rest))
            raise TranslateError("assignment target")
        if isinstance(s, ast.AugAssign) and isinstance(s.target, ast.Name) and (s.target.id in self.env or s.target.id in self.masked):
            e = ast.BinOp(left=ast.Name(id=s.target.id, ctx=ast.Load()), op=s.op, right=s.value)
            m = self.masked.get(s.target.id)
            if m is None:
                ms = self.masks_in(s.value)
                if ms:      # a plain accumulator updated with mask-bound data becomes mask-bound itself
                    m = ms[0]
                    self.masked[s.target.id] = m
                    self.env.pop(s.target.id, None)
            c, _ = self.ex(e, mask=m)
            return "let %s := %s in\n%s" % (s.target.id, c, self.block(rest))
        if isinstance(s, ast.AugAssign) and isinstance(s.target, ast.Subscript) and isinstance(s.target.value, ast.Name) \
                and s.target.value.id in self.env and self.is_mask(s.target.slice):
            m = mkey(s.target.slice)
            mc = self.ex(s.target.slice)[0]
            name = s.target.value.id
            e = ast.BinOp(left=ast.Name(id=name, ctx=ast.Load()), op=s.op, right=s.value)
            c, _ = self.ex(e, mask=m)
            return "let %s := (if %s then %s else %s) in\n%s" % (name, mc, c, name, self.block(rest))
        if isinstance(s, ast.For) and isinstance(s.target, ast.Name) and isinstance(s.iter, ast.Call) \
                and getattr(s.iter.func, "id", None) == "range" and len(s.iter.args) == 1 \
                and isinstance(s.iter.args[0], ast.Constant) and isinstance(s.iter.args[0].value, int) \
                and 0 <= s.iter.args[0].value <= 64 and not s.orelse:
            # a loop over a literal range is unrolled (the loop variable becomes an integer literal)
            unrolled = []
            for i in range(s.iter.args[0].value):
                unrolled.append(("const", s.target.id, i))
                unrolled += list(s.body)
            unrolled.append(("unconst", s.target.id, None))
            return self.block(unrolled + rest)
        if isinstance(s, tuple):
            if s[0] == "const":
                self.consts[s[1]] = s[2]
            else:
                self.consts.pop(s[1], None)
            return self.block(rest)
        if isinstance(s, ast.If):
            if not s.orelse and all(isinstance(b, ast.Expr) and isinstance(b.value, ast.Call) and
                                    getattr(b.value.func, "attr", getattr(b.value.func, "id", "")) == "warn" for b in s.body):
                return self.block(rest)      # a warning has no effect on the returned value
            st = self.static_test(s.test)
            if st is not None:
                return self.block((s.body if st else s.orelse) + rest)
            c, k = self.ex(s.test)
            if k != "B":
                raise TranslateError("if on non-boolean")
            if s.orelse:
                import copy
                saved = (dict(self.env), dict(self.masked), set(self.bools))
                a = self.block(s.body + rest) if not ends_ret(s.body) else self.block(s.body)
                self.env, self.masked, self.bools = dict(saved[0]), dict(saved[1]), set(saved[2])
                b = self.block(s.orelse + rest) if not ends_ret(s.orelse) else self.block(s.orelse)
                return "if %s then (%s) else (%s)" % (c, a, b)
            if not ends_ret(s.body):
                raise TranslateError("if without else that does not return")
            return "if %s then (%s) else (%s)" % (c, self.block(s.body), self.block(rest))
        raise TranslateError("statement %s" % type(s).__name__)

    def emit(self):
        body = self.block([s for s in self.node.body])
        ps = "".join(" (%s : T)" % p for p in self.params) + "".join(" (%s : T)" % a for a in self.args)
        return "(* %s: parameters (self attributes): %s ; arguments: %s *)\nDefinition %s%s : %s :=\n%s." % (
            self.name, ", ".join(self.params) or "-", ", ".join(self.args) or "-", self.name, ps,
            "option T * option T" if self.is_range else ("option T" if self.optional else "T"), textwrap.indent(body, "  "))


def ends_ret(stmts):
    return bool(stmts) and isinstance(stmts[-1], ast.Return)


def find(tree, cls, fn):
    for n in tree.body:
        if cls is None and isinstance(n, ast.FunctionDef) and n.name == fn:
            return n
        if isinstance(n, ast.ClassDef) and n.name == cls:
            for m in n.body:
                if isinstance(m, ast.FunctionDef) and m.name == fn:
                    return m
    return None


def translate_function(path, cls, fn, coqname, opts=None):
    src = open(path).read()
    tree = ast.parse(src)
    node = find(tree, cls, fn)
    if node is None:
        raise TranslateError("%s.%s not found in %s" % (cls, fn, path))
    f = Fn(src, node, coqname, opts)
    return f.emit(), f


HEADER = """(* GENERATED by /verif/tools/py2coq.py from /repo/src/gstools — do not edit *)
From Coq Require Import ZArith List Bool.
From GS Require Import Num Loops Formulas.
Import ListNotations.

Section Gen.
Context {T : Type} (O : NumOps T).
"""


def translate_all(repo, table):
    """table: list of (relative path, class or None, function, coq name).  Returns (coq text, {coqname: error})."""
    out = [HEADER]
    errs = {}
    KNOWN_FUNCS.clear()
    for entry in table:
        rel, cls, fn, name = entry[:4]
        opts = entry[4] if len(entry) > 4 else None
        try:
            txt, f = translate_function(os.path.join(repo, "src/gstools", rel), cls, fn, name, opts)
            out.append(txt)
            out.append("")
            if cls is None and not f.params and not f.optional and not f.is_range:
                cdefs = {}
                for an in f.args:
                    d = f.defaults.get(an)
                    if isinstance(d, ast.Constant) and isinstance(d.value, (int, float)) and not isinstance(d.value, bool):
                        cdefs[an] = lit(d.value if isinstance(d.value, int) else repr(d.value))
                KNOWN_FUNCS.setdefault(fn, []).append((name, list(f.args), cdefs))
        except (TranslateError, SyntaxError, OSError) as e:
            errs[name] = "%s: %s" % (type(e).__name__, e)
            out.append("(* %s: NOT TRANSLATED (%s) *)\n" % (name, errs[name].replace("*)", "* )")))
    out.append("End Gen.")
    return "\n".join(out) + "\n", errs


if __name__ == "__main__":
    import formulas_table
    txt, errs = translate_all(sys.argv[1] if len(sys.argv) > 1 else "/repo", formulas_table.TABLE)
    sys.stdout.write(txt)
    for k, v in errs.items():
        sys.stderr.write("%s: %s\n" % (k, v))
