"""pyx2py: turn the restricted Cython used by GSTools' three kernels into plain,
type-annotated Python (fail-closed).

The output is used twice:
  * executed (with ``math`` functions on float64 scalars) as the "plain
    interpretation of the kernel's own source" (property C15), and
  * parsed with ``ast`` by pyx2coq.py, which reads the C types back from the
    string annotations this module leaves in place of the ``cdef`` declarations.

Anything this normaliser does not recognise raises ``PyxError``.
"""
import ast
import re

C_SCALAR = r"(?:unsigned\s+char|double|int|bint|np\.int64_t|uint8|str|_estimator_func|_normalization_func_vec|_normalization_func|_dist_func)"
C_TYPE = r"(?:const\s+)?" + C_SCALAR + r"(?:\[[:,\s]*\])?"


class PyxError(Exception):
    pass


def _split_args(argstr):
    """split on top-level commas"""
    out, depth, cur = [], 0, ""
    for ch in argstr:
        if ch in "([":
            depth += 1
        elif ch in ")]":
            depth -= 1
        if ch == "," and depth == 0:
            out.append(cur)
            cur = ""
        else:
            cur += ch
    if cur.strip():
        out.append(cur)
    return [a.strip() for a in out]


def _norm_type(t):
    t = re.sub(r"\s+", " ", t.strip())
    t = t.replace("const ", "")
    t = t.replace("[:, :]", "[:,:]").replace("[: , :]", "[:,:]")
    return t


def _conv_params(params):
    """'const double[:, :] pos, num_threads=None' -> 'pos: "double[:,:]", num_threads=None'"""
    res = []
    for a in _split_args(params):
        if not a:
            continue
        a = re.sub(r"#.*$", "", a).strip()
        m = re.match(r"^(" + C_TYPE + r")\s+(\w+)\s*(=.*)?$", a)
        if m:
            ty, name, default = _norm_type(m.group(1)), m.group(2), m.group(3) or ""
            res.append('%s: "%s"%s' % (name, ty, (" " + default) if default else ""))
        else:
            if not re.match(r"^\w+(\s*=.*)?$", a):
                raise PyxError("unrecognised parameter: %r" % a)
            res.append(a)
    return ", ".join(res)


def convert(src):
    out = []
    lines = src.split("\n")
    i = 0
    while i < len(lines):
        ln = lines[i]
        s = ln.strip()
        ind = ln[: len(ln) - len(ln.lstrip())]
        if s.startswith("# cython:") or s.startswith("# distutils:"):
            i += 1
            continue
        if (
            s.startswith("cimport ")
            or s.startswith("from libc")
            or s.startswith("from cython.parallel")
        ):
            out.append(ind + "pass")
            i += 1
            continue
        if s.startswith("if OPENMP:"):
            out.append(ind + "if OPENMP:")
            i += 1
            continue
        if s.startswith("ctypedef"):
            depth = ln.count("(") - ln.count(")")
            i += 1
            while depth > 0:
                depth += lines[i].count("(") - lines[i].count(")")
                i += 1
            # swallow a trailing ' nogil' line remainder (already consumed)
            continue
        # function headers (def / cdef), possibly multi-line
        m = re.match(r"^(\s*)(cdef|def)\s+(.*)$", ln)
        if m and re.search(r"\w+\s*\(", m.group(3)) and (
            m.group(2) == "def" or re.match(r"^(inline\s+)?(\(\s*double\s*\)|[\w\.]+)\s+\w+\s*\(", m.group(3))
        ):
            hdr = ln
            while not re.search(r"\)\s*(nogil)?\s*:\s*$", hdr):
                i += 1
                hdr += "\n" + re.sub(r"#.*$", "", lines[i]).rstrip()
            hdr = re.sub(r"\)\s*nogil\s*:\s*$", "):", hdr)
            hm = re.match(
                r"^(\s*)(?:cdef\s+(?:inline\s+)?(\(\s*double\s*\)|[\w\.]+)\s+|def\s+)(\w+)\s*\((.*)\)\s*:\s*$",
                hdr,
                re.S,
            )
            if not hm:
                raise PyxError("unrecognised function header: %r" % hdr)
            rett = hm.group(2)
            name = hm.group(3)
            params = _conv_params(
                " ".join(re.sub(r"#.*$", "", l) for l in hm.group(4).split("\n"))
            )
            ret = ""
            if rett:
                rett = rett.replace("(", "").replace(")", "").strip()
                ret = ' -> "%s"' % rett
            out.append("%sdef %s(%s)%s:" % (hm.group(1), name, params, ret))
            i += 1
            continue
        m = re.match(r"^(\s*)cdef\s+(" + C_TYPE + r")\s+(.*)$", ln)
        if m:
            ty = _norm_type(m.group(2))
            rest = m.group(3)
            rest_nc = re.sub(r"#.*$", "", rest).strip()
            if "=" in rest_nc:
                name, val = rest_nc.split("=", 1)
                stmt = '%s%s: "%s" = %s' % (ind, name.strip(), ty, val.strip())
                depth = stmt.count("(") - stmt.count(")")
                while depth > 0:
                    i += 1
                    stmt += "\n" + lines[i]
                    depth += lines[i].count("(") - lines[i].count(")")
                out.append(stmt)
            else:
                for name in _split_args(rest_nc):
                    if not re.match(r"^\w+$", name):
                        raise PyxError("unrecognised declaration: %r" % ln)
                    out.append('%s%s: "%s"' % (ind, name, ty))
            i += 1
            continue
        if re.match(r"^\s*cdef\b", ln):
            raise PyxError("unrecognised cdef: %r" % ln)
        # error messages: the source contains an f-string CPython rejects
        ln = re.sub(r"raise ValueError\(f?'.*'\)\s*$", "raise ValueError('kernel argument error')", ln)
        ln = re.sub(
            r"prange\((.*?),\s*nogil=True,\s*num_threads=num_threads_c\)", r"prange(\1)", ln
        )
        ln = re.sub(r"with nogil, parallel\(num_threads=num_threads_c\):", "if PARALLEL_BLOCK:", ln)
        out.append(ln)
        i += 1
    py = "\n".join(out)
    try:
        ast.parse(py)
    except SyntaxError as e:  # fail closed
        raise PyxError("normalised source does not parse: %s" % e)
    return py


PRELUDE = """
import numpy as np
from math import cos, sin, sqrt, acos, atan2, fabs, isnan, pi as M_PI
import math as _math


def pow(x, y):
    # C pow; gcc compiles pow(x, 2.0) to x*x (correctly rounded), glibc's pow is 1 ulp off for ~0.08 % of inputs
    return x * x if y == 2 else _math.pow(x, y)


OPENMP = False
PARALLEL_BLOCK = True
prange = range
"""


def load_module(path, name):
    """execute the normalised source as a Python module (source interpretation)"""
    import types

    src = open(path).read()
    py = PRELUDE + convert(src)
    mod = types.ModuleType(name)
    exec(compile(py, path + "<pyx2py>", "exec"), mod.__dict__)
    return mod


if __name__ == "__main__":
    import sys

    for p in sys.argv[1:]:
        print(convert(open(p).read()))
